"""Oracle expressions: the property's own formula written in Python and normalised by the same engine
over the atoms of the function under analysis."""
from __future__ import annotations

import ast

from .evaluator import Evaluator
from .symeval import Ctx, Config, opaque_of
from .interp import Frame
from .repo import parse_type
from .values import *


class Oracle:
    def __init__(self, repo, func, cfg: Config, facts=None, self_path="self"):
        self.repo = repo
        self.func = func
        c = Config(facts=dict(facts if facts is not None else cfg.facts), inline=cfg.inline, post_init=cfg.post_init,
                   canon_arg=cfg.canon_arg, ret_summary=cfg.ret_summary, str_domains=dict(cfg.str_domains))
        self.ctx = Ctx(repo, c, [])
        self.ev = Evaluator(self.ctx)
        self.env = self.ev.opaque_args(func, self_path=self_path)
        self.frame = Frame(func, func.module, self.env, func.cls)

    def let(self, name, src):
        self.env[name] = self.ev(src) if False else self.eval(src)
        return self.env[name]

    def eval(self, src) -> Val:
        return self.ev.eval(ast.parse(src, mode="eval").body, self.frame)
