"""Expression transfer functions."""
from __future__ import annotations

import ast
from fractions import Fraction

from . import poly
from .poly import Rat, rat, Unmodelled, mk_fn, mk_exp, mk_log, mk_pow, mk_ite, key_str, key_equiv
from .repo import ClassInfo, FuncInfo, Const, External, Module, Ty, ANY, parse_type
from .values import *
from .symeval import RaiseSignal, val_key, opaque_of, opaque_result, field_flags
from .interp import Frame, BUILTIN_EXC

CMP = {ast.Eq: "eq", ast.NotEq: "ne", ast.Lt: "lt", ast.LtE: "le", ast.Gt: "gt", ast.GtE: "ge"}
NEG = {"eq": "ne", "ne": "eq", "lt": "ge", "ge": "lt", "gt": "le", "le": "gt"}


class ExprMixin:
    def eval(self, node, frame: Frame) -> Val:
        m = getattr(self, "ex_" + type(node).__name__, None)
        if m is None:
            raise Unmodelled("expression %s at %s" % (type(node).__name__, frame.loc(node)))
        if self.cfg.lenient and isinstance(node, (ast.BinOp, ast.Call, ast.Subscript, ast.UnaryOp)):
            try:
                return m(node, frame)
            except Unmodelled as e:
                self.ctx.event("unmodelled-value", str(e), frame.loc(node))
                return Num(Rat.sym("?%s:%s" % (frame.loc(node), getattr(node, "col_offset", 0))))
        return m(node, frame)

    # -- leaves ----------------------------------------------------------
    def ex_Constant(self, node, frame):
        v = node.value
        if v is None:
            return NONE
        if isinstance(v, bool):
            return BoolV(v)
        if isinstance(v, int):
            return Num(Rat.const(v))
        if isinstance(v, float):
            return Num(Rat.const(Fraction(repr(v))))
        if isinstance(v, str):
            return StrV(v)
        raise Unmodelled("constant %r" % (v,))

    def ex_Name(self, node, frame):
        v = frame.lookup(node.id)
        if v is not None:
            return self.resolve_maybe(v)
        return self.global_name(node.id, frame, node)

    def global_name(self, name, frame, node):
        r = self.repo.resolve(frame.module, name)
        if r is not None:
            return self.wrap_resolved(r, frame)
        if name in BUILTINS:
            return FuncV("ext", dotted="builtins." + name)
        if name in ("__name__", "__file__", "__package__", "__doc__"):
            return StrV(frame.module.name) if name == "__name__" else Opaque("module " + name, ambient=False)
        if name in ("staticmethod", "classmethod", "property"):
            return FuncV("ext", dotted="builtins." + name)
        if name in BUILTIN_EXC:
            return FuncV("ext", dotted="builtins." + name)
        fr = frame
        while fr is not None and fr.func is None:
            fr = fr.parent
        if fr is not None and fr.func is not None:
            for n in ast.walk(fr.func.node):
                if isinstance(n, ast.Name) and n.id == name and isinstance(n.ctx, ast.Store):
                    raise RaiseSignal("UnboundLocalError", "local variable %r referenced before assignment" % name, node, frame)
        raise Unmodelled("unresolved name %r at %s" % (name, frame.loc(node)))

    def wrap_resolved(self, r, frame):
        if isinstance(r, ClassInfo):
            return ClassV(r)
        if isinstance(r, FuncInfo):
            return FuncV("repo", func=r)
        if isinstance(r, Module):
            return ModV(module=r)
        if isinstance(r, External):
            return ModV(dotted=r.dotted)
        if isinstance(r, Const):
            f = Frame(None, r.module, {})
            return self.eval(r.node, f)
        raise Unmodelled("resolved object %r" % (r,))

    def ex_JoinedStr(self, node, frame):
        amb = False
        parts = []
        const = True
        for v in node.values:
            if isinstance(v, ast.FormattedValue):
                x = self.eval(v.value, frame)
                amb = amb or (isinstance(x, Opaque) and x.ambient)
                plain = v.format_spec is None and v.conversion == -1
                if isinstance(x, StrV) and x.s is not None:
                    parts.append(x.s)
                    const = const and plain
                elif isinstance(x, Num) and x.r.as_int() is not None:
                    parts.append(str(x.r.as_int()))
                    const = const and plain and self._int_typed(v.value, x)
                else:
                    parts.append("{%s}" % (x.desc if isinstance(x, Opaque) else key_str(val_key(x))))
                    const = False
            elif isinstance(v, ast.Constant):
                parts.append(str(v.value))
        if const:
            return StrV("".join(parts))   # every piece is a known constant: the string itself
        return Opaque("f'" + "".join(parts) + "'", ambient=amb)

    def _int_typed(self, node, x):
        """The formatted number prints as an int (not '1.0'): built from int literals with + - * only."""
        for n in ast.walk(node):
            if isinstance(n, ast.Constant) and not (isinstance(n.value, int) and not isinstance(n.value, bool)):
                return False
            if isinstance(n, ast.BinOp) and not isinstance(n.op, (ast.Add, ast.Sub, ast.Mult)):
                return False
            if isinstance(n, (ast.Call, ast.Attribute, ast.Subscript)):
                return False
            if isinstance(n, ast.Name) and not self._int_loop_variable(n.id, node):
                return False
        return True

    def _int_loop_variable(self, name, at):
        """`name` is only ever bound as the target of a loop over int literals / range() in the function that contains `at`."""
        root = None
        for f in self.repo.all_functions():
            if f.node.lineno <= at.lineno <= (f.node.end_lineno or f.node.lineno) and any(x is at for x in ast.walk(f.node)):
                root = f.node
                break
        if root is None:
            return False
        ok = False
        for n in ast.walk(root):
            tgt = it = None
            if isinstance(n, (ast.For, ast.comprehension)):
                tgt, it = n.target, n.iter
            elif isinstance(n, (ast.Assign, ast.AugAssign, ast.AnnAssign, ast.NamedExpr)):
                ts = n.targets if isinstance(n, ast.Assign) else [n.target]
                if any(isinstance(x, ast.Name) and x.id == name and isinstance(x.ctx, ast.Store) for t in ts for x in ast.walk(t)):
                    return False
                continue
            else:
                continue
            if isinstance(tgt, ast.Name) and tgt.id == name:
                lit = isinstance(it, (ast.Tuple, ast.List)) and it.elts and all(
                    isinstance(e, ast.Constant) and isinstance(e.value, int) and not isinstance(e.value, bool) for e in it.elts)
                rng = isinstance(it, ast.Call) and isinstance(it.func, ast.Name) and it.func.id == "range"
                if not (lit or rng):
                    return False
                ok = True
            elif any(isinstance(x, ast.Name) and x.id == name for x in ast.walk(tgt)):
                return False
        return ok

    def ex_Tuple(self, node, frame):
        return TupV([self.eval(e, frame) for e in node.elts])

    def ex_List(self, node, frame):
        return ListV("lit", items=[self.eval(e, frame) for e in node.elts])

    def ex_Set(self, node, frame):
        return ListV("lit", items=[self.eval(e, frame) for e in node.elts], is_set=True)

    def ex_Dict(self, node, frame):
        items = {}
        for k, v in zip(node.keys, node.values):
            if k is None:
                # {**other, ...}
                dv = self.force(self.eval(v, frame), frame, node)
                if not isinstance(dv, DictV):
                    raise Unmodelled("dict unpacking of a non-literal mapping at %s" % frame.loc(node))
                items.update(dv.items)
                continue
            kv = self.eval(k, frame)
            key = self.const_key(kv, frame, node, fork=False)
            if key is None:
                raise Unmodelled("dict key is not a constant string at %s" % frame.loc(node))
            items[key] = self.eval(v, frame)
        return DictV(items)

    def const_key(self, v, frame, node, fork=True):
        """Canonical key of a constant dictionary key: the string itself for strings, a tagged text for numbers, booleans, None and
        tuples of those. A boolean that is still open is decided (the lookup forks) when fork is set."""
        v = self.resolve_maybe(v)
        if isinstance(v, StrV):
            if v.s is not None:
                return v.s
            c = self.concretize_str(v, frame, node) if fork else None
            return c.s if c is not None and c.s is not None else None
        if isinstance(v, BoolV):
            b = v.b if v.b is not None else (self.truth(v, frame, node) if fork else None)
            return None if b is None else "\x00%s" % bool(b)
        if v is NONE or isinstance(v, NoneV):
            return "\x00None"
        if isinstance(v, Num) and v.r.is_const():
            return "\x00%s" % v.r.const_value()
        if isinstance(v, TupV):
            parts = [self.const_key(x, frame, node, fork) for x in v.items]
            return None if any(p is None for p in parts) else "\x00(" + ",".join(parts) + ")"
        return None

    def ex_DictComp(self, node, frame):
        if len(node.generators) != 1 or node.generators[0].is_async:
            raise Unmodelled("nested dict comprehension at %s" % frame.loc(node))
        g = node.generators[0]
        it = self.force(self.eval(g.iter, frame), frame, node)
        items = self.as_items(it, frame, node)
        if items is None:
            raise Unmodelled("dict comprehension over a non-literal sequence at %s" % frame.loc(node))
        out = {}
        f2 = Frame(frame.func, frame.module, {}, frame.cls, parent=frame)
        for x in items:
            self.assign(g.target, x, f2)
            if not all(self.truth(self.eval(c, f2), f2, c) for c in g.ifs):
                continue
            k = self.resolve_maybe(self.eval(node.key, f2))
            if isinstance(k, StrV) and k.s is None:
                k = self.concretize_str(k, f2, node) or k
            if not (isinstance(k, StrV) and k.s is not None):
                raise Unmodelled("dict comprehension with a non-constant key at %s" % frame.loc(node))
            out[k.s] = self.eval(node.value, f2)
        return DictV(out)

    def ex_SetComp(self, node, frame):
        fam = self.comprehension(node, frame)
        return self.call_ext("builtins.set", None, [fam], {}, frame, node)

    def ex_NamedExpr(self, node, frame):
        v = self.eval(node.value, frame)
        self.assign(node.target, v, frame)
        return v

    def ex_Lambda(self, node, frame):
        fv = FuncV("lambda", node=node, frame=frame)
        fv.defaults = [self.eval(d, frame) for d in node.args.defaults]   # default values are evaluated when the function is created
        return fv

    def ex_Starred(self, node, frame):
        raise Unmodelled("starred expression at %s" % frame.loc(node))

    # -- operators ---------------------------------------------------------
    def ex_UnaryOp(self, node, frame):
        v = self.eval(node.operand, frame)
        if isinstance(node.op, ast.Not):
            t = self.truth(v, frame, node, fork=False)
            if t is not None:
                return BoolV(not t)
            if isinstance(v, BoolV):
                return BoolV(None, negate_cond(v.cond))
            if isinstance(v, MaybeV):
                # falsy when None (or, for numbers, zero): explored as two paths
                tv = self.truth(v, frame, node)
                return BoolV(not tv)
            if isinstance(v, Num):
                return BoolV(None, ("eq", v.r, Rat.const(0)))
            tv = self.truth(v, frame, node)
            return BoolV(not tv)
        if isinstance(node.op, ast.USub):
            return self.map_num(v, lambda r: -r, frame, node)
        if isinstance(node.op, ast.UAdd):
            return v
        raise Unmodelled("unary operator at %s" % frame.loc(node))

    def map_num(self, v, f, frame, node):
        v = self.force(v, frame, node)
        if isinstance(v, NoneV):
            raise RaiseSignal("TypeError", "arithmetic on None", node, frame)
        if isinstance(v, Num):
            return Num(f(v.r))
        if isinstance(v, TupV):
            return TupV([self.map_num(x, f, frame, node) for x in v.items], is_array=True)
        if isinstance(v, ListV) and v.kind == "lit":
            return TupV([self.map_num(x, f, frame, node) for x in v.items], is_array=True)
        if isinstance(v, ListV) and v.kind == "fam":
            return ListV("fam", idx=v.idx, lo=v.lo, hi=v.hi, elem=self.map_num(v.elem, f, frame, node))
        if isinstance(v, ListV) and v.kind in ("opaque", "series", "rep", "slice"):
            idx, elem = self.generic_elem(v, frame, node)
            lo, hi = Rat.const(0), self.length(v, frame, node)
            return ListV("fam", idx=idx, lo=lo, hi=hi, elem=self.map_num(elem, f, frame, node))
        raise Unmodelled("numeric operation on %r at %s" % (v, frame.loc(node)))

    def ex_BinOp(self, node, frame):
        l = self.eval(node.left, frame)
        r = self.eval(node.right, frame)
        return self.binop(node.op, l, r, frame, node)

    def binop(self, op, l, r, frame, node):
        l = self.force(l, frame, node)
        r = self.force(r, frame, node)
        if isinstance(l, NoneV) or isinstance(r, NoneV):
            raise RaiseSignal("TypeError", "unsupported operand: None in arithmetic", node, frame)
        # strings
        if isinstance(l, (StrV, Opaque)) or isinstance(r, (StrV, Opaque)):
            if isinstance(l, StrV) and l.s is not None and isinstance(op, (ast.Add, ast.Mod)):
                # constant text: 'a' + 'b', 'name_%d' % 0, 'x%s_%s' % ('a', 1)
                def const(v):
                    if isinstance(v, StrV) and v.s is not None:
                        return v.s
                    if isinstance(v, Num) and v.r.as_int() is not None:
                        return v.r.as_int()
                    raise ValueError
                try:
                    if isinstance(op, ast.Add):
                        if isinstance(r, StrV) and r.s is not None:
                            return StrV(l.s + r.s)
                    else:
                        arg = tuple(const(x) for x in r.items) if isinstance(r, TupV) else const(r)
                        return StrV(l.s % arg)
                except (ValueError, TypeError):
                    pass
            if isinstance(op, (ast.Add, ast.Mod)) or (isinstance(op, ast.Div) and isinstance(l, Opaque)):
                amb = any(isinstance(x, Opaque) and x.ambient for x in (l, r))
                sym = {ast.Add: "+", ast.Mod: "%", ast.Div: "/"}.get(type(op), "?")
                dl = l.desc if isinstance(l, Opaque) else key_str(val_key(l))
                dr = r.desc if isinstance(r, Opaque) else key_str(val_key(r))
                return Opaque("(%s %s %s)" % (dl, sym, dr), ambient=amb)
            raise Unmodelled("operator on string at %s" % frame.loc(node))
        # list repetition / concatenation
        if isinstance(op, ast.Mult) and isinstance(l, ListV) and l.kind == "lit" and isinstance(r, Num):
            if len(l.items) == 1:
                return ListV("rep", elem=l.items[0], n=r.r)
            raise Unmodelled("repetition of a multi-element list at %s" % frame.loc(node))
        if isinstance(op, ast.Add) and isinstance(l, TupV) and isinstance(r, TupV) and not l.is_array and not r.is_array:
            return TupV(list(l.items) + list(r.items))    # plain tuples concatenate (arrays add elementwise, below)
        if isinstance(op, ast.Add) and isinstance(l, ListV) and isinstance(r, ListV):
            if l.kind == "lit" and r.kind == "lit":
                return ListV("lit", items=l.items + r.items)
            return ListV("concat", parts=[l, r])
        if isinstance(l, ObjV) and not isinstance(r, (TupV,)):
            dunder = {ast.Add: "__add__", ast.Mult: "__mul__", ast.Sub: "__sub__", ast.Div: "__truediv__"}.get(type(op))
            if dunder and dunder in l.cls.methods:
                return self.call_function(FuncV("repo", func=l.cls.methods[dunder], self_val=l), [r], {}, frame, node)
        arr = isinstance(l, (TupV, ListV)) or isinstance(r, (TupV, ListV))
        if arr:
            return self.elementwise(lambda a, b: self.binop(op, a, b, frame, node), l, r, frame, node)
        if isinstance(l, BoolV) and l.b is not None:
            l = Num(int(l.b))
        if isinstance(r, BoolV) and r.b is not None:
            r = Num(int(r.b))
        if not (isinstance(l, Num) and isinstance(r, Num)):
            raise Unmodelled("operator %s on %r and %r at %s" % (type(op).__name__, l, r, frame.loc(node)))
        if isinstance(op, (ast.Add, ast.Sub)):
            la = l.addends if l.addends else [l.r]
            rb = r.addends if r.addends else [r.r]
            if len(la) + len(rb) <= 48:
                return Num(addends=la + (rb if isinstance(op, ast.Add) else [-t for t in rb]))
        a, b = l.r, r.r
        if isinstance(op, ast.Add):
            return Num(a + b)
        if isinstance(op, ast.Sub):
            return Num(a - b)
        if isinstance(op, ast.Mult):
            return Num(a * b)
        if isinstance(op, ast.Div):
            if b.is_zero():
                raise RaiseSignal("ZeroDivisionError", "division by zero", node, frame)
            return Num(a / b)
        if isinstance(op, ast.Pow):
            return Num(mk_pow(a, b))
        if isinstance(op, ast.FloorDiv):
            return Num(mk_fn("floordiv", a, b))
        if isinstance(op, ast.Mod):
            return Num(mk_fn("mod", a, b))
        raise Unmodelled("operator %s at %s" % (type(op).__name__, frame.loc(node)))

    def as_items(self, v, frame, node):
        if isinstance(v, ListV) and v.kind == "range":
            lo, hi = v.lo.as_int(), v.hi.as_int()
            if lo is not None and hi is not None and 0 <= hi - lo <= 16:
                return [Num(Rat.const(i)) for i in range(lo, hi)]
            return None
        if isinstance(v, TupV):
            return v.items
        if isinstance(v, ListV) and v.kind == "lit":
            return v.items
        if isinstance(v, ObjV) and getattr(v.cls, "is_namedtuple", False):
            return [self.obj_attr(v, f.name, frame, node) for f in v.cls.fields]
        if isinstance(v, DictV) and not any(k.startswith("\x00") for k in v.items):
            return [StrV(k) for k in v.items]     # iterating a mapping yields its keys, in insertion order
        return None

    def elementwise(self, f, l, r, frame, node):
        li, ri = self.as_items(l, frame, node), self.as_items(r, frame, node)
        if li is not None and ri is not None:
            if len(li) != len(ri):
                raise Unmodelled("elementwise operation on different lengths at %s" % frame.loc(node))
            return TupV([f(a, b) for a, b in zip(li, ri)], is_array=True)
        if li is not None and isinstance(r, Num):
            return TupV([f(a, r) for a in li], is_array=True)
        if ri is not None and isinstance(l, Num):
            return TupV([f(l, b) for b in ri], is_array=True)
        # symbolic lists: build a family over a shared index
        ln = self.length(l, frame, node) if isinstance(l, ListV) else None
        rn = self.length(r, frame, node) if isinstance(r, ListV) else None
        n = ln if ln is not None else rn
        if n is None:
            raise Unmodelled("elementwise operation at %s" % frame.loc(node))
        idx = self.fresh_bound()
        try:
            a = self.index(l, Num(Rat.atom(idx)), frame, node) if isinstance(l, ListV) else l
            b = self.index(r, Num(Rat.atom(idx)), frame, node) if isinstance(r, ListV) else r
            elem = f(a, b)
        finally:
            self.release_bound()
        return ListV("fam", idx=idx, lo=Rat.const(0), hi=n, elem=elem)

    def ex_BoolOp(self, node, frame):
        is_and = isinstance(node.op, ast.And)
        last = None
        for i, e in enumerate(node.values):
            v = self.eval(e, frame)
            last = v
            if i == len(node.values) - 1:
                t = self.truth(v, frame, e, fork=False)
                if t is not None:
                    return BoolV(t)
                if isinstance(v, BoolV):
                    return v
                if isinstance(v, MaybeV):
                    return BoolV(None, ("not", ("isnone", v.path)))
                return v
            t = self.truth(v, frame, e)
            if is_and and not t:
                return BoolV(False)
            if (not is_and) and t:
                return BoolV(True)
        return last

    def ex_Compare(self, node, frame):
        left = self.eval(node.left, frame)
        result = None
        for op, rn in zip(node.ops, node.comparators):
            right = self.eval(rn, frame)
            b = self.compare(op, left, right, frame, node)
            if len(node.ops) == 1:
                return b
            t = self.truth(b, frame, node)
            if not t:
                return BoolV(False)
            left = right
        return BoolV(True)

    def compare(self, op, l, r, frame, node) -> BoolV:
        l, r = self.resolve_maybe(l), self.resolve_maybe(r)
        if isinstance(op, (ast.Is, ast.IsNot, ast.Eq, ast.NotEq)) and (isinstance(l, NoneV) or isinstance(r, NoneV)):
            other = r if isinstance(l, NoneV) else l
            pos = isinstance(op, (ast.Is, ast.Eq))
            if isinstance(other, NoneV):
                return BoolV(pos)
            if isinstance(other, MaybeV):
                c = ("isnone", other.path)
                return BoolV(None, c if pos else ("not", c))
            return BoolV(not pos)
        if isinstance(op, (ast.Is, ast.IsNot)):
            c = ("is", key_str(val_key(l)), key_str(val_key(r)))
            return BoolV(None, c if isinstance(op, ast.Is) else ("not", c))
        if isinstance(op, (ast.In, ast.NotIn)):
            if isinstance(r, DictV):
                key = self.const_key(l, frame, node)
                if key is not None:
                    res = key in r.items
                    return BoolV(res if isinstance(op, ast.In) else not res)
            if isinstance(l, StrV) and isinstance(r, (TupV, ListV)):
                cands = self.as_items(r, frame, node) if not (isinstance(r, ListV) and r.kind != "lit") else None
                if cands is not None and all(isinstance(x, StrV) and x.s is not None for x in cands):
                    # membership in a literal collection of strings: the sequence of equality tests it stands for
                    found = False
                    for x in cands:
                        if self.truth(self.compare(ast.Eq(), l, x, frame, node), frame, node):
                            found = True
                            break
                    return BoolV(found if isinstance(op, ast.In) else not found)
            c = ("in", key_str(val_key(l)), key_str(val_key(r)))
            if isinstance(r, ListV) and r.kind == "lit" and isinstance(l, Num) and l.r.is_const() \
                    and all(isinstance(x, Num) and x.r.is_const() for x in r.items):
                res = any(x.r == l.r for x in r.items)
                return BoolV(res if isinstance(op, ast.In) else not res)
            return BoolV(None, c if isinstance(op, ast.In) else ("not", c))
        opn = CMP.get(type(op))
        if opn is None:
            raise Unmodelled("comparison operator at %s" % frame.loc(node))
        l, r = self.force(l, frame, node), self.force(r, frame, node)
        if isinstance(l, StrV) and isinstance(r, StrV) and opn in ("eq", "ne"):
            if l.s is not None and r.s is not None:
                return BoolV((l.s == r.s) == (opn == "eq"))
            unk, known = (l, r) if l.s is None else (r, l)
            if known.s is not None and unk.path is not None:
                f = self.ctx.facts.get(unk.path)
                if isinstance(f, tuple) and f[0] == "notstr" and known.s in f[1]:
                    return BoolV(opn == "ne")
                dom = self.str_domain(unk.path)
                if dom:
                    excl = f[1] if isinstance(f, tuple) and f[0] == "notstr" else ()
                    left = [d for d in dom if d not in excl]
                    if known.s not in left:
                        return BoolV(opn == "ne")
                    if left == [known.s]:
                        return BoolV(opn == "eq")
                    if unk.path not in self.cfg.str_domains:
                        self.cfg.str_domains[unk.path] = dom
                c = ("streq", unk.path, known.s)
                return BoolV(None, c if opn == "eq" else ("not", c))
            c = ("streq2", str(l.path), str(r.path))
            return BoolV(None, c if opn == "eq" else ("not", c))
        if isinstance(l, Num) and isinstance(r, Num):
            d = l.r - r.r
            if d.is_const():
                c = d.const_value()
                res = {"eq": c == 0, "ne": c != 0, "lt": c < 0, "le": c <= 0, "gt": c > 0, "ge": c >= 0}[opn]
                return BoolV(res)
            if opn == "eq" and d.is_zero():
                return BoolV(True)
            kr = self.ctx.known_rel(opn, d)
            if kr is not None:
                return BoolV(kr)
            return BoolV(None, (opn, l.r, r.r))
        if isinstance(l, (Opaque,)) or isinstance(r, (Opaque,)):
            return BoolV(None, (opn, key_str(val_key(l)), key_str(val_key(r))))
        if opn in ("eq", "ne"):
            kl, kr = val_key(l), val_key(r)
            if key_equiv(kl, kr):
                return BoolV(opn == "eq")
            return BoolV(None, (opn, key_str(kl), key_str(kr)))
        raise Unmodelled("comparison of %r and %r at %s" % (l, r, frame.loc(node)))

    def ex_IfExp(self, node, frame):
        t = self.eval(node.test, frame)
        tv = self.truth(t, frame, node.test, fork=False)
        if tv is not None:
            return self.eval(node.body if tv else node.orelse, frame)
        if isinstance(t, BoolV) and isinstance(t.cond, tuple) and t.cond[0] in NEG and isinstance(t.cond[1], Rat):
            try:
                a = self.eval(node.body, frame)
                b = self.eval(node.orelse, frame)
            except RaiseSignal:
                a = b = None   # an arm that raises is only evaluated on the path that takes it
            if isinstance(a, Num) and isinstance(b, Num):
                return Num(mk_ite(t.cond, a.r, b.r))
        tv = self.truth(t, frame, node.test)
        return self.eval(node.body if tv else node.orelse, frame)

    # -- attribute / subscript ---------------------------------------------
    def ex_Attribute(self, node, frame):
        base = self.eval(node.value, frame)
        return self.getattr(base, node.attr, frame, node)

    def getattr(self, base, attr, frame, node):
        base = self.force(base, frame, node)
        if isinstance(base, NoneV):
            raise RaiseSignal("AttributeError", "'NoneType' object has no attribute %r" % attr, node, frame)
        if isinstance(base, ObjV):
            return self.obj_attr(base, attr, frame, node)
        if isinstance(base, ClassV):
            c = base.cls
            if attr in c.methods:
                m = c.methods[attr]
                if m.is_classmethod:
                    return FuncV("repo", func=m, self_val=base)
                return FuncV("repo", func=m)
            if attr in c.class_attrs and c.class_attrs[attr] is not None:
                return self.eval(c.class_attrs[attr], Frame(None, c.module, {}))
            raise RaiseSignal("AttributeError", "%s has no attribute %s" % (c.name, attr), node, frame)
        if isinstance(base, ModV):
            if base.module is not None:
                r = self.repo.resolve(base.module, attr)
                if r is None:
                    raise Unmodelled("module attribute %s.%s at %s" % (base.module.name, attr, frame.loc(node)))
                return self.wrap_resolved(r, frame)
            dotted = base.dotted + "." + attr
            ec = ext_const(dotted)
            if ec is not None:
                return ec
            return FuncV("ext", dotted=dotted)
        if isinstance(base, FuncV) and base.kind == "ext":
            return FuncV("ext", dotted=base.dotted + "." + attr)
        r = self.io_getattr(base, attr, frame, node)
        if r is not None:
            return r
        if isinstance(base, (ListV, TupV)):
            if attr in ("append", "pop", "extend", "insert", "sort", "reverse", "remove", "clear", "copy", "index", "count"):
                return FuncV("ext", dotted="list." + attr, self_val=base)
            if attr == "T":
                return Opaque("transpose")
            if attr == "x" and False:
                pass
        if isinstance(base, Opaque):
            if base.desc == "logger" or base.desc.startswith("logger."):
                if attr in ("isEnabledFor", "getEffectiveLevel", "level", "handlers", "disabled"):
                    raise Unmodelled("behaviour that depends on the logging configuration at %s" % frame.loc(node))
                return FuncV("ext", dotted="logging." + attr)    # logger.debug / info / warning ...: diagnostics, no value
            return Opaque(base.desc + "." + attr, ambient=base.ambient)
        if isinstance(base, Num):
            sa = base.r.single_atom()
            if sa is not None:
                # attribute of an uninterpreted result (e.g. optimiser result .x)
                return Num(Rat.atom(poly.T.app("fn", "attr", (base.r, attr))))
        if isinstance(base, DictV):
            return FuncV("ext", dotted="dict." + attr, self_val=base)
        if isinstance(base, StrV):
            return FuncV("ext", dotted="str." + attr, self_val=base)
        raise Unmodelled("attribute %s of %r at %s" % (attr, base, frame.loc(node)))

    def obj_attr(self, obj: ObjV, attr, frame, node):
        if attr in obj.fields:
            return self.resolve_maybe(obj.fields[attr])
        c = obj.cls
        f = c.field(attr)
        if f is not None or (attr in c.class_attrs and attr not in c.methods and not obj.constructed and c.class_attrs[attr] is None):
            if obj.constructed:
                if f is not None and f.default is not None:
                    v = self.eval(f.default, Frame(None, c.module, {}, c))
                    obj.fields[attr] = v
                    return v
                raise Unmodelled("field %s of constructed %s was never set at %s" % (attr, c.name, frame.loc(node)))
            ann = f.ann if f is not None else None
            ty = parse_type(self.repo, c.module, ann, c)
            flags = field_flags(c.name, attr)
            if obj.path is not None:
                v = opaque_of(ty, obj.path + "." + attr, self.ctx, flags)
            else:
                a = poly.T.app("fn", "attr", (Rat.atom(obj.parent), attr), flags=flags)
                v = opaque_result(ty, a, self.ctx) if ty.kind != "opt" else opaque_result(ty.args[0], a, self.ctx)
            if not isinstance(v, MaybeV):
                obj.fields[attr] = v
            return v
        if attr in c.methods:
            m = c.methods[attr]
            if m.is_property:
                return self.call_function(FuncV("repo", func=m, self_val=obj), [], {}, frame, node)
            if m.is_staticmethod:
                return FuncV("repo", func=m)
            if m.is_classmethod:
                return FuncV("repo", func=m, self_val=ClassV(c))
            return FuncV("repo", func=m, self_val=obj)
        if attr in c.class_attrs and c.class_attrs[attr] is not None:
            return self.eval(c.class_attrs[attr], Frame(None, c.module, {}))
        if getattr(c, "is_namedtuple", False) and attr in ("_replace", "_asdict", "_fields"):
            if attr == "_fields":
                return TupV([StrV(f.name) for f in c.fields])
            return FuncV("ext", dotted="record." + attr, self_val=obj)
        raise RaiseSignal("AttributeError", "%s has no attribute %s" % (c.name, attr), node, frame)

    def ex_Subscript(self, node, frame):
        base = self.eval(node.value, frame)
        if isinstance(node.slice, ast.Slice):
            lo = self.eval(node.slice.lower, frame) if node.slice.lower is not None else Num(0)
            hi = self.eval(node.slice.upper, frame) if node.slice.upper is not None else None
            if node.slice.step is not None:
                raise Unmodelled("slice step at %s" % frame.loc(node))
            base = self.force(base, frame, node)
            if isinstance(base, StrV) or isinstance(base, Opaque):
                return Opaque("strslice", ambient=getattr(base, "ambient", False))
            if isinstance(base, Num):
                base = self.num_as_list(base)
            if not isinstance(base, (ListV, TupV)):
                raise Unmodelled("slice of %r at %s" % (base, frame.loc(node)))
            if isinstance(base, ListV) and base.kind == "series" and base.closed and lo.r.is_zero() and hi is not None:
                # xs[:-1] / xs[:len(xs) - 1] of a finished step series: the series without its look-ahead element (what xs.pop(-1) leaves)
                full = self.series_len(base)
                drop = None
                if hi.r.is_const() and hi.r.const_value() < 0:
                    drop = -hi.r.as_int() if hi.r.as_int() is not None else None
                elif (full - hi.r).as_int() is not None and (full - hi.r).as_int() >= 0:
                    drop = (full - hi.r).as_int()
                if drop is not None and drop <= len(base.per_iter) + len(base.init):
                    if drop == 0:
                        return base
                    if drop == 1:
                        tail = getattr(base, "extra_tail", 0)
                        cp = ListV("series", name=base.name, init=list(base.init), appended=list(base.appended), k=base.k, lo=base.lo, n=base.n,
                                   popped=base.popped + (0 if tail else 1), closed=True, elem_k=base.elem_k, func=base.func)
                        cp.per_iter = list(base.per_iter)
                        cp.extra_tail = max(tail - 1, 0)
                        for a in ("constant", "filled_by_index", "append_nodes", "carrier"):
                            if hasattr(base, a):
                                setattr(cp, a, getattr(base, a))
                        return cp
            return ListV("slice", base=base, lo=lo.r, hi=(hi.r if hi is not None else None))
        idx = self.eval(node.slice, frame)
        return self.index(base, idx, frame, node)

    def num_as_list(self, v: Num):
        sa = v.r.single_atom()
        if sa is None:
            raise Unmodelled("indexing a numeric form %s" % v.r)
        return ListV("opaque", path=poly.atom_str(sa), ty=ANY, parent=sa)

    def index(self, base, idx, frame, node) -> Val:
        base = self.force(base, frame, node)
        idx = self.force(idx, frame, node)
        if isinstance(base, Num):
            base = self.num_as_list(base)
        r = self.io_index(base, idx, frame, node)
        if r is not None:
            return r
        if isinstance(base, ObjV) and getattr(base.cls, "is_namedtuple", False) and isinstance(idx, Num) and idx.r.as_int() is not None:
            i = idx.r.as_int()
            flds = base.cls.fields
            if not -len(flds) <= i < len(flds):
                raise RaiseSignal("IndexError", "tuple index out of range", node, frame)
            return self.obj_attr(base, flds[i].name, frame, node)
        if isinstance(base, DictV):
            if isinstance(idx, StrV) and idx.s is not None:
                if idx.s in base.items:
                    return base.items[idx.s]
                raise RaiseSignal("KeyError", idx.s, node, frame)
            if isinstance(idx, StrV):
                conc = self.concretize_str(idx, frame, node)
                if conc is not None:
                    if conc.s in base.items:
                        return base.items[conc.s]
                    raise RaiseSignal("KeyError", conc.s, node, frame)
                # unknown key: may or may not be present
                c = ("in", idx.path, tuple(sorted(base.items)))
                self.ctx.event("dict-unknown-key", (idx.path, tuple(sorted(base.items))), frame.loc(node))
                raise Unmodelled("dict lookup with unknown key %s at %s" % (idx.path, frame.loc(node)))
            key = self.const_key(idx, frame, node)
            if key is not None:
                if key in base.items:
                    return base.items[key]
                raise RaiseSignal("KeyError", key, node, frame)
            raise Unmodelled("dict subscript at %s" % frame.loc(node))
        if isinstance(base, Opaque):
            return Opaque("%s[%s]" % (base.desc, key_str(val_key(idx))), ambient=base.ambient)
        if not isinstance(idx, Num):
            if isinstance(idx, BoolV) and idx.b is not None:
                idx = Num(int(idx.b))
            else:
                raise Unmodelled("subscript %r at %s" % (idx, frame.loc(node)))
        i = idx.r.as_int()
        if isinstance(base, TupV) or (isinstance(base, ListV) and base.kind == "lit"):
            if i is None:
                raise Unmodelled("symbolic index into a literal sequence at %s" % frame.loc(node))
            try:
                return base.items[i]
            except IndexError:
                raise RaiseSignal("IndexError", "index out of range", node, frame)
        if isinstance(base, ListV):
            ov = getattr(base, "overrides", None)
            if ov:
                for oi, ovv in reversed(ov):
                    if isinstance(oi, Num) and oi.r == idx.r:
                        return ovv
                    if isinstance(oi, Num) and (oi.r - idx.r).is_const():
                        continue
                    raise Unmodelled("read of a list with symbolic element stores at %s" % frame.loc(node))
            return self.list_index(base, idx.r, frame, node)
        raise Unmodelled("subscript of %r at %s" % (base, frame.loc(node)))

    def list_index(self, base: ListV, i: Rat, frame, node) -> Val:
        k = base.kind
        if k == "rep":
            return base.elem
        if k == "fam":
            return self.subst_val(base.elem, {base.idx.id: i})
        if k == "opaque":
            par = getattr(base, "parent", None)
            if par is not None:
                a = poly.T.app("fn", "idx", (Rat.atom(par), i))
                return opaque_result(base.ty, a, self.ctx)
            return opaque_of(base.ty, "%s[%s]" % (base.path, i), self.ctx)
        if k == "slice":
            return self.index(base.base, Num(base.lo + i), frame, node)
        if k == "series":
            return self.series_read(base, i, frame, node)
        if k == "concat":
            j = i.as_int()
            if j is not None and j >= 0:
                for part in base.parts:
                    ln = self.length(part, frame, node).as_int()
                    if ln is None:
                        if isinstance(part, ListV) and part.kind == "rep":
                            return part.elem      # a constant index that falls into (or past) a repeated tail of symbolic length
                        break
                    if j < ln:
                        return self.index(part, Num(j), frame, node)
                    j -= ln
            raise Unmodelled("index into concatenation at %s" % frame.loc(node))
        raise Unmodelled("index into list kind %s at %s" % (k, frame.loc(node)))

    def length(self, v, frame, node) -> Rat:
        v = self.force(v, frame, node)
        if isinstance(v, TupV):
            return Rat.const(len(v.items))
        if isinstance(v, Num):
            v = self.num_as_list(v)
        if isinstance(v, ListV):
            k = v.kind
            if k == "lit":
                return Rat.const(len(v.items))
            if k == "range":
                return v.hi - v.lo
            if k == "rep":
                return v.n
            if k == "fam":
                return v.hi - v.lo
            if k == "opaque":
                par = getattr(v, "parent", None)
                if par is not None:
                    return Rat.atom(poly.T.app("fn", "len", (Rat.atom(par),), flags=("nonneg", "int")))
                return Rat.sym("len(%s)" % v.path, ("nonneg", "int"))
            if k == "slice":
                hi = v.hi if v.hi is not None else self.length(v.base, frame, node)
                return hi - v.lo
            if k == "series":
                return self.series_len(v)
            if k == "concat":
                r = Rat.const(0)
                for p in v.parts:
                    r = r + self.length(p, frame, node)
                return r
        if isinstance(v, ObjV) and getattr(v.cls, "is_namedtuple", False):
            return Rat.const(len(v.cls.fields))
        if isinstance(v, ObjV) and "__len__" in v.cls.methods:
            r = self.call_function(FuncV("repo", func=v.cls.methods["__len__"], self_val=v), [], {}, frame, node, force_inline=True)
            if isinstance(r, Num):
                return r.r
        if isinstance(v, Opaque):
            return Rat.sym("len(%s)" % v.desc, ("nonneg", "int"))
        r = self.io_length(v, frame, node)
        if r is not None:
            return r
        raise Unmodelled("len of %r at %s" % (v, frame.loc(node)))

    def str_domain(self, path):
        if path is None:
            return None
        d = self.cfg.str_domains.get(path)
        if d is None and path.endswith("]"):
            d = self.cfg.str_domains.get(path[:path.rfind("[")])
        if d is None:
            for k, v in self.cfg.str_domains.items():
                if k.startswith("*") and path.endswith(k[1:]):
                    return v
        return d

    def concretize_str(self, v: StrV, frame, node):
        """Fork an unknown string over its declared finite domain."""
        v = self.resolve_maybe(v)
        if v.s is not None:
            return v
        dom = self.str_domain(v.path)
        if not dom:
            return None
        if v.path not in self.cfg.str_domains:
            self.cfg.str_domains[v.path] = dom
        for s in dom:
            f = self.ctx.facts.get(v.path)
            if isinstance(f, tuple) and f[0] == "str":
                return StrV(f[1], v.path)
            if isinstance(f, tuple) and f[0] == "notstr" and s in f[1]:
                continue
            excl = f[1] if isinstance(f, tuple) and f[0] == "notstr" else ()
            left = [d for d in dom if d not in excl]
            if len(left) == 1:
                self.ctx.facts[v.path] = ("str", left[0])
                return StrV(left[0], v.path)
            if self.ctx.decide(("streq", v.path, s), frame.loc(node)):
                return StrV(s, v.path)
        f = self.ctx.facts.get(v.path)
        if isinstance(f, tuple) and f[0] == "str":
            return StrV(f[1], v.path)
        return None

    # -- bound indices -------------------------------------------------------
    def fresh_bound(self, prefix="#b"):
        a = poly.T.sym("%s%d" % (prefix, self.ctx.bound_depth), ("int", "nonneg", "bound"))
        self.ctx.bound_depth += 1
        return a

    def release_bound(self):
        self.ctx.bound_depth -= 1

    def generic_elem(self, lst: ListV, frame, node):
        idx = self.fresh_bound()
        try:
            e = self.index(lst, Num(Rat.atom(idx)), frame, node)
        finally:
            self.release_bound()
        return idx, e

    def ex_ListComp(self, node, frame):
        return self.comprehension(node, frame)

    ex_GeneratorExp = ex_ListComp

    def comprehension(self, node, frame):
        if len(node.generators) != 1:
            # [(a, b) for a in xs for b in ys] is itertools.product(xs, ys) when ys does not depend on a
            gens = node.generators
            tn = [g.target.id for g in gens if isinstance(g.target, ast.Name)]
            elt = getattr(node, "elt", None)
            plain = len(tn) == len(gens) and not any(g.ifs or g.is_async for g in gens) and isinstance(elt, ast.Tuple) \
                and [e.id for e in elt.elts if isinstance(e, ast.Name)] == tn and len(elt.elts) == len(tn) \
                and not any(isinstance(x, ast.Name) and x.id in tn for g in gens for x in ast.walk(g.iter))
            if plain:
                return self.call_ext("itertools.product", None, [self.eval(g.iter, frame) for g in gens], {}, frame, node)
            raise Unmodelled("nested comprehension at %s" % frame.loc(node))
        g = node.generators[0]
        it = self.eval(g.iter, frame)
        it = self.force(it, frame, node)
        items = self.as_items(it, frame, node) if not (isinstance(it, ObjV) and not getattr(it.cls, "is_namedtuple", False)) else None
        if items is not None and not g.ifs:
            out = []
            # ONE scope for all iterations, as in Python: a closure created in the element expression sees the variable's LAST binding
            f2 = Frame(frame.func, frame.module, {}, frame.cls, parent=frame)
            for x in items:
                self.assign(g.target, x, f2)
                out.append(self.eval(node.elt, f2))
            return ListV("lit", items=out)
        tnames = {n.id for n in ast.walk(g.target) if isinstance(n, ast.Name)}
        for lam in (n for n in ast.walk(node.elt) if isinstance(n, ast.Lambda)):
            if tnames & {n.id for n in ast.walk(lam.body) if isinstance(n, ast.Name)}:
                raise Unmodelled("closure over the variable of a comprehension of unknown length at %s" % frame.loc(node))
        lo, hi, idx, elem = self.iter_family(it, frame, node)
        try:
            f2 = Frame(frame.func, frame.module, {}, frame.cls, parent=frame)
            self.assign(g.target, elem, f2)
            cond = None
            if g.ifs:
                conds = []
                for c in g.ifs:
                    cv = self.eval(c, f2)
                    conds.append(val_key(cv))
                cond = tuple(conds)
            val = self.eval(node.elt, f2)
        finally:
            self.release_bound()
        if cond is not None:
            # [x for x in xs if pred(x)] is the same sub-list as filter(lambda x: pred(x), xs): use the same representation
            if isinstance(node.elt, ast.Name) and isinstance(g.target, ast.Name) and node.elt.id == g.target.id and len(cond) == 1 \
                    and isinstance(it, ListV):
                f2b = Frame(frame.func, frame.module, {}, frame.cls, parent=frame)
                lo2, hi2, idx2, elem2 = self.iter_family(it, frame, node, prefix="#f")
                try:
                    self.assign(g.target, elem2, f2b)
                    pv = self.eval(g.ifs[0], f2b)
                finally:
                    self.release_bound()
                ty = it.ty if it.kind == "opaque" else ANY
                return ListV("opaque", path="filter(%s | %s)" % (key_str(val_key(it)), key_str(val_key(pv))), ty=ty, filtered=(it, val_key(pv)))
            base = ListV("fam", idx=idx, lo=lo, hi=hi, elem=val)
            return ListV("opaque", path="filter(%s | %s)" % (key_str(val_key(base)), key_str(cond)), ty=ANY, filtered=(base, cond))
        out = ListV("fam", idx=idx, lo=lo, hi=hi, elem=val)
        if isinstance(it, ListV) and it.kind == "series":
            out.over_series = it   # a projection of the per-step records of a loop
        return out

    def iter_family(self, it, frame, node, prefix="#b"):
        """(lo, hi, idx atom, element value at idx). Caller must release_bound()."""
        idx = self.fresh_bound(prefix)
        try:
            if isinstance(it, ListV) and it.kind == "range":
                return it.lo, it.hi, idx, Num(Rat.atom(idx))
            if isinstance(it, ObjV):
                if "__getitem__" in it.cls.methods:
                    elem = self.call_function(FuncV("repo", func=it.cls.methods["__getitem__"], self_val=it),
                                              [Num(Rat.atom(idx))], {}, frame, node, force_inline=True)
                    if "__len__" in it.cls.methods:
                        n = self.length(it, frame, node)
                    else:
                        n = Rat.sym("len(%s)" % key_str(val_key(it)), ("nonneg", "int"))
                    return Rat.const(0), n, idx, elem
                raise Unmodelled("iteration over %r at %s" % (it, frame.loc(node)))
            if isinstance(it, Num):
                it = self.num_as_list(it)
            if isinstance(it, (ListV, TupV)):
                n = self.length(it, frame, node)
                elem = self.index(it, Num(Rat.atom(idx)), frame, node)
                return Rat.const(0), n, idx, elem
            if isinstance(it, Opaque):
                return Rat.const(0), Rat.sym("len(%s)" % it.desc, ("nonneg", "int")), idx, Opaque(it.desc + "[*]", ambient=it.ambient)
        except BaseException:
            self.release_bound()
            raise
        self.release_bound()
        raise Unmodelled("iteration over %r at %s" % (it, frame.loc(node)))

    # -- substitution inside values -------------------------------------------
    def subst_val(self, v: Val, mapping) -> Val:
        if isinstance(v, Num):
            return Num(poly.subst(v.r, mapping))
        if isinstance(v, TupV):
            return TupV([self.subst_val(x, mapping) for x in v.items], v.is_array)
        if isinstance(v, ObjV):
            if v.constructed:
                o = ObjV(v.cls, {k: self.subst_val(x, mapping) for k, x in v.fields.items()})
                return o
            if v.parent is not None and (v.parent.deps & set(mapping)):
                r = poly.subst(Rat.atom(v.parent), mapping)
                sa = r.single_atom()
                if sa is None:
                    raise Unmodelled("substitution turned an object into a non-atom")
                return ObjV(v.cls, parent=sa)
            if v.path is not None and any(("[%s]" % poly.T.get(i).name) in v.path for i in mapping):
                p = v.path
                for i, r in mapping.items():
                    p = p.replace("[%s]" % poly.T.get(i).name, "[%s]" % r)
                return ObjV(v.cls, path=p)
            return v
        if isinstance(v, ListV):
            if v.kind == "lit":
                return ListV("lit", items=[self.subst_val(x, mapping) for x in v.items])
            if v.kind == "fam":
                return ListV("fam", idx=v.idx, lo=poly.subst(v.lo, mapping), hi=poly.subst(v.hi, mapping),
                             elem=self.subst_val(v.elem, mapping))
            if v.kind == "rep":
                return ListV("rep", elem=self.subst_val(v.elem, mapping), n=poly.subst(v.n, mapping))
            if v.kind == "opaque":
                par = getattr(v, "parent", None)
                if par is not None and (par.deps & set(mapping)):
                    r = poly.subst(Rat.atom(par), mapping)
                    sa = r.single_atom()
                    return ListV("opaque", path=poly.atom_str(sa), ty=v.ty, parent=sa)
                if any(("[%s]" % poly.T.get(i).name) in v.path for i in mapping):
                    p = v.path
                    for i, r in mapping.items():
                        p = p.replace("[%s]" % poly.T.get(i).name, "[%s]" % r)
                    return ListV("opaque", path=p, ty=v.ty)
                return v
            if v.kind == "slice":
                return ListV("slice", base=self.subst_val(v.base, mapping), lo=poly.subst(v.lo, mapping),
                             hi=poly.subst(v.hi, mapping) if v.hi is not None else None)
            return v
        if isinstance(v, BoolV) and v.b is None:
            return BoolV(None, poly.map_key(v.cond, lambda r: poly.subst(r, mapping)))
        return v


def negate_cond(c):
    if isinstance(c, tuple) and c and c[0] == "not":
        return c[1]
    if isinstance(c, tuple) and c and c[0] in NEG and len(c) == 3:
        return (NEG[c[0]],) + c[1:]
    return ("not", c)


BUILTINS = {"sum", "len", "range", "max", "min", "abs", "int", "float", "round", "list", "tuple", "str", "set",
            "filter", "getattr", "type", "isinstance", "print", "open", "hash", "zip", "enumerate", "sorted",
            "map", "bool", "dict", "any", "all", "hasattr", "repr", "iter", "next", "pow", "reversed", "divmod", "frozenset"}

def ext_const(dotted):
    if dotted in ("numpy.inf", "math.inf"):
        return Num(Rat.sym("+inf", ("nonneg", "pos")))
    if dotted == "numpy.pi":
        return Num(Rat.sym("pi", ("nonneg", "pos")))
    if dotted == "numpy.e":
        return Num(mk_exp(Rat.const(1)))
    if dotted == "numpy.float64":
        return FuncV("ext", dotted="builtins.float")
    if dotted == "numpy.ndarray":
        return Opaque("numpy.ndarray")
    return None
