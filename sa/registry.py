"""Which properties are claimed, and in what words (source of MANIFEST.json)."""
TRUSTED = ("CPython's ast module; attrs' documented semantics (field order, converters, validators, __attrs_post_init__); "
           "the externals table of the evaluator (numpy/scipy/pandas callees are uninterpreted pure functions unless listed); "
           "real arithmetic instead of floating point.")

CLAIMED = {
    "C01": {"technique": "static: series model of the Euler loops + polynomial identities on normal forms",
            "text": "For every method returning a ProcessModel and every combination of the finite modes that change its code shape, the "
                    "per-step transfer function is computed as a closed normal form from the syntax tree (loop body applied once at symbolic k) and "
                    "the mass, component, grid, length and initial-state equations of the property are decided as polynomial identities. "
                    "Holds for all mixtures, models, sizes, step lengths and step counts at once because those occur only as atoms.",
            "note": "Not decided: floating-point rounding; absence of exceptions during a run. Assumes step count >= 1."},
    "C03": {"technique": "static: series model + polynomial identities; iso/non-iso sibling comparison at step 0",
            "text": "Evaporation heat coefficients, self-cooling update, programme argument, condensation-heat presence and the step-0 "
                    "agreement of isothermal and non-isothermal siblings are decided as identities between normal forms computed from the source.",
            "note": "Latent/specific/cooling heats are uninterpreted functions (their consistency is C13). Not decided: adequacy of the condensation formula; rounding."},
    "C11": {"technique": "static: substitution of scaled atoms into series normal forms",
            "text": "The two scaling laws are decided by substituting lambda*area, lambda*amount (and kappa*area, step/kappa) into the normal "
                    "forms of the initial elements and of the inductive step of every reported series and checking the resulting polynomial identities.",
            "note": "Callees are uninterpreted functions of their arguments. Programme case excluded from the area/time law as in the property."},
    "C13": {"technique": "static: algebraic normal forms + syntactic differentiation",
            "text": "Clausius-Clapeyron and the integral relations of the cooling heat are decided as exact polynomial identities between the "
                    "normal forms of the four return expressions, for every constant set and temperature at once; K4: no augmented "
                    "assignment to a parameter (an in-place update of the caller's array of temperatures).",
            "note": "Not decided: closeness to tabulated data; rounding."},
    "C14": {"technique": "static: exhaustive unit-mode enumeration + rational normal forms; who-may-write scan",
            "text": "Permeance.convert is normalised for all ordered unit pairs x component given/None (plus an unknown unit); outcome kind, "
                    "unit label and value are compared with the property's factor table; linearity, round trip and path independence are "
                    "rational identities; the clamp and the absence of other writers of .value are structural.",
            "note": "Float literals read as exact decimals; molar mass positive."},
    "C15": {"technique": "static: rational normal forms, substitution, syntactic derivative; who-may-write scan",
            "text": "Round trip, end points, ratio law, first+second=1 and strict monotonicity of the mole/mass conversion are decided as "
                    "polynomial identities on the normal forms of to_molar/to_weight; validator and immutability of p structurally.",
            "note": "Not decided: behaviour within 1e-12 of 0 and 1 in floating point."},
}

CLAIMED.update({
    "C02": {"technique": "static: exhaustive None-ness enumeration; polynomial identities; loop summary (uninterpreted fix-point)",
            "text": "The driving-force function is normalised in each of the four None-ness cells of the permeate parameters and compared with "
                    "permeance*(feed - permeate partial pressure); the p=0/vacuum coincidence, the pressure identity and degree-1 homogeneity are "
                    "identities on that form. The solver's fixed-point loop is summarised by one application of its body to a bound iterate and "
                    "its guard, distance, update, start iterate, call-site agreement and final evaluation are decided on the summary.",
            "note": "Decides the law and the structural necessary conditions of self-consistency; NOT decided: convergence, the numeric distance "
                    "between returned and self-consistent composition, local contractivity."},
    "C04": {"technique": "static: normal forms of ln(gamma); syntactic d/dx (Gibbs-Duhem as a rational identity); substitution; role permutation",
            "text": "Gibbs-Duhem, pure-component limits, Raoult limit, relabelling symmetry, p_i = x_i*gamma_i*Psat_i and basis independence are "
                    "decided as exact identities on the closed forms of both activity models, for all parameters, temperatures and compositions.",
            "note": "UNIQUAC exact-zero guards (1e-5 substitution) are outside the open-interval domain. Known finding: UNIQUAC gamma_2 bracket."},
    "C06": {"technique": "static: role permutation sigma on input/output normal forms; call-site equivariance (assume/guarantee)",
            "text": "For 19 functions (thermodynamics, driving force, solver summary, helpers, ideal curve, ideal process models, curve "
                    "construction, metrics, ideal selectivity) every output's normal form is compared with its image under the role permutation.",
            "note": "Uninterpreted callees are assumed equivariant and are each checked where analysed. PSI is not claimed (not invariant by definition)."},
})

CLAIMED.update({
    "C05": {"technique": "static: series model with symbolic fit objects; log-domain identities; call-record provenance",
            "text": "For the three non-ideal generators every path (input basis x permeate mode x programme x initial permeances x one/many curves x "
                    "curve temperature equal/different) is normalised with the fitted functions symbolic; the per-step permeance law, the constant "
                    "facilitation factor fixed by step 0, factor 1 without initial permeances, the provenance of each returned fit and the "
                    "single-curve Arrhenius re-scaling are decided as identities.",
            "note": "find_best_fit is uninterpreted (its selection logic is C16); fitted functions assumed positive; NOT decided: what the optimiser returns."},
    "C08": {"technique": "static: CPython-exact argument binding on call records; must-forward over the call graph; normal-form identities",
            "text": "Every call site on the configuration path is bound as CPython binds it under all permeate modes and input bases; the callee's "
                    "activity model, precision and permeate parameters must be the caller's own values and never defaults; bound values must fit "
                    "annotations; derived compositions / separation factors equal their definitions; each step's flux call receives the step-k "
                    "elements of the returned series.",
            "note": "Equality of fluxes across entry points follows from equal bindings of one pure solver (purity is C20). Known finding: DiffusionCurve cannot carry the model."},
    "C09": {"technique": "static: forward/inverse sibling comparison on normal forms; exhaustive mode and unit enumeration",
            "text": "The curve inversion and the solver's driving force are normalised over a common naming of the curve fields and compared per "
                    "permeate mode, including the basis of the permeate composition; flux construction, exposed units (3x3) and dispatch totality likewise.",
            "note": "Stated at the self-consistent permeate composition (C02 bounds the deviation by the precision). Known finding: pressure-mode basis mismatch."},
    "C12": {"technique": "static: exhaustive arm enumeration + normal-form comparison with the property's formula",
            "text": "All arms of get_permeance (Ea stated/not x initial permeance given/not x stored unit x T equal/different), the regression's "
                    "structure, the molar/mass selectivity relation and the pure-component flux in four permeate cells are compared with the "
                    "property's formulas over the experiments' fields as atoms.",
            "note": "NOT decided: numeric recovery of Ea by lstsq (library numerics); exact ties between nearest experiments are excluded by the property."},
})

CLAIMED.update({
    "C07": {"technique": "static: finite basis enumeration + substitution p := to_molar(p) + polynomial identity on every output",
            "text": "Every modelling entry point is normalised with its composition input labelled weight and labelled molar; the molar normal "
                    "form with p := to_molar(p) must equal the weight normal form for every output (fluxes, compositions, separation factors, "
                    "curve fluxes / permeances, all process series, measurement points). Callee independence is established bottom-up.",
            "note": "Relies on C15 (conversions inverse) and C04-A1 (activity model converts its input). Fitted coefficients themselves are not compared (as the property says)."},
    "C10": {"technique": "static: syntactic termination argument (bounded-counter loops, finite iterables, acyclic resolved call graph, externals table)",
            "text": "Every while loop has an unconditionally incremented integer counter compared with a finite invariant bound; every for loop "
                    "iterates a finite iterable it does not extend; the resolved call graph is acyclic; no reachable external is non-terminating. "
                    "Hence the flux solver and every model with a finite step count return or raise, for all inputs.",
            "note": "Library routines are assumed to terminate. NOT decided: the number of iterations."},
    "C16": {"technique": "static: effect/alias analysis with depth-indexed ownership; call-graph reachability; inductive running-minimum argument on the decisions and accumulator values of every evaluated path; normal forms",
            "text": "Write sets of all fitting functions contain no pre-existing object; no random/clock source is reachable and start vector / method "
                    "are constants; on every path of the two searches each comparison is loss-vs-running-bound, a winner replaces bound and kept candidate together, the loss is the candidate's squared error over all of the caller's data, the bound starts at +inf / a positive constant and the kept candidate is returned; __call__/__mul__/from_array have the documented forms.",
            "note": "NOT decided: that the optimiser reaches an optimum; numeric equality of repeated fits beyond absence of nondeterminism sources."},
    "C17": {"technique": "static: normal-form evaluation of save/load over a model of pandas/json/joblib/pathlib (nothing is run or written); writer/reader tables read from the computed values; set / bijection comparison",
            "text": "Column sets, field->column->field identity with tuple positions, value/unit and value/type recombination, side-file naming and "
                    "safe/unsafe symmetry, JSON key bijections, series-vs-scalar shape and the fresh-directory rule are decided on tables read from "
                    "the values the evaluator computes for save/load/from_frame/safe_save/safe_load (write events, constructed objects).",
            "note": "NOT decided: 1e-9 fidelity of CSV/JSON/joblib; directory-suffix collision rate (a collision raises, never overwrites)."},
    "C18": {"technique": "static: validator structure + who-may-write; sign-set reasoning over path decisions of the series model",
            "text": "Fractions: every reported composition is built by the validating constructor and p is never assigned. Mass / temperature: every "
                    "returning path of every process model carries decisions implying positive feed mass (and positive finite feed temperature in "
                    "non-isothermal models) for the reported step, with the complementary arm raising.",
            "note": "NOT covered: finiteness of fluxes and heats (no abstract domain in reach bounds magnitudes). Initial amount / temperature assumed admissible."},
    "C19": {"technique": "static: interprocedural must-raise on all syntactic paths under abstract None-ness inputs; exhaustive 2x2 dispatch tables",
            "text": "For all 12 entry points computing a driving force, with both permeate parameters set every syntactic path (callees inlined) ends in "
                    "a raise; the three hand-copied mode chains are total and exclusive; the other rejection classes are must-raise queries.",
            "note": "Loops over steps / compositions are assumed to execute at least once."},
    "C20": {"technique": "static: effect/alias analysis (write sets) over the resolved call graph; hidden-state scans; ambient-source taint",
            "text": "The write set of every public modelling entry point contains only objects allocated during the call; no global/nonlocal, mutable "
                    "default, cache decorator or mutable module-level container exists; registry classes only construct; clock/hash values reach only "
                    "comment strings and directory names; no random source is reachable.",
            "note": "I/O and plotting methods are not modelling calls. NOT decided: bit-identity across library versions."},
})

NOT_APPLICABLE = {}
