"""E1 — program model and resolver for /repo/pyvaporation (stdlib ast only)."""
from __future__ import annotations

import ast
import hashlib
import os
from typing import Dict, List, Optional, Tuple, Any

PKG = "pyvaporation"


class AnalysisError(Exception):
    """The analysis itself cannot proceed (anchor vanished, unmodelled construct)."""


def repo_root() -> str:
    return os.environ.get("VERIF_REPO", "/repo")


# --------------------------------------------------------------------------
class Field:
    def __init__(self, name, ann, default, converter, validator, node):
        self.name = name
        self.ann = ann
        self.default = default  # ast node or None
        self.has_default = default is not None
        self.converter = converter
        self.validator = validator
        self.node = node


class FuncInfo:
    def __init__(self, module, cls, node):
        self.module = module
        self.cls = cls
        self.node = node
        self.name = node.name
        self.qualname = (cls.name + "." if cls else "") + node.name
        decos = [_deco_name(d) for d in node.decorator_list]
        self.is_property = "property" in decos
        self.is_classmethod = "classmethod" in decos
        self.is_staticmethod = "staticmethod" in decos
        self.decorators = decos
        a = node.args
        self.params = [p.arg for p in a.posonlyargs + a.args]
        self.kwonly = [p.arg for p in a.kwonlyargs]
        self.vararg = a.vararg.arg if a.vararg else None
        self.kwarg = a.kwarg.arg if a.kwarg else None
        nd = len(a.defaults)
        allp = a.posonlyargs + a.args
        self.defaults: Dict[str, ast.AST] = {}
        for p, d in zip(allp[len(allp) - nd:], a.defaults):
            self.defaults[p.arg] = d
        for p, d in zip(a.kwonlyargs, a.kw_defaults):
            if d is not None:
                self.defaults[p.arg] = d
        self.annotations = {p.arg: p.annotation for p in allp + a.kwonlyargs}
        self.returns = node.returns

    @property
    def file(self):
        return self.module.relpath

    @property
    def lineno(self):
        return self.node.lineno

    def loc(self, node=None):
        n = node if node is not None else self.node
        return "%s:%d" % (self.module.relpath, getattr(n, "lineno", self.node.lineno))

    def __repr__(self):
        return "<func %s.%s>" % (self.module.name, self.qualname)


class ClassInfo:
    def __init__(self, module, node):
        self.module = module
        self.node = node
        self.name = node.name
        self.is_attrs = any(_deco_name(d) in ("attr.s", "attrs", "attr.attrs", "attr.define", "define", "dataclass", "dataclasses.dataclass",
                                              "attr.frozen", "attr.mutable", "attrs.define", "attrs.frozen", "attrs.mutable", "frozen")
                            for d in node.decorator_list)
        self.fields: List[Field] = []
        self.methods: Dict[str, FuncInfo] = {}
        self.class_attrs: Dict[str, ast.AST] = {}
        self.bases = [ast.unparse(b) for b in node.bases]
        # a typing.NamedTuple record: fields from the annotations like an attrs class, plus the tuple protocol
        self.is_namedtuple = any(b.split(".")[-1] == "NamedTuple" for b in self.bases)
        if self.is_namedtuple:
            self.is_attrs = True
        for st in node.body:
            if isinstance(st, (ast.FunctionDef, ast.AsyncFunctionDef)):
                self.methods[st.name] = FuncInfo(module, self, st)
            elif isinstance(st, ast.AnnAssign) and isinstance(st.target, ast.Name):
                name = st.target.id
                default = converter = validator = None
                v = st.value
                if v is not None and isinstance(v, ast.Call) and _deco_name(v.func) in ("attr.ib", "attr.attrib", "attr.field", "field"):
                    for kw in v.keywords:
                        if kw.arg == "default":
                            default = kw.value
                        elif kw.arg == "converter":
                            converter = kw.value
                        elif kw.arg == "validator":
                            validator = kw.value
                        elif kw.arg == "factory":
                            default = ast.Call(func=kw.value, args=[], keywords=[])
                elif v is not None:
                    default = v
                if self.is_attrs:
                    self.fields.append(Field(name, st.annotation, default, converter, validator, st))
                if v is not None:
                    self.class_attrs[name] = v
                else:
                    self.class_attrs.setdefault(name, None)
            elif isinstance(st, ast.Assign):
                for t in st.targets:
                    if isinstance(t, ast.Name):
                        self.class_attrs[t.id] = st.value

    def field(self, name) -> Optional[Field]:
        for f in self.fields:
            if f.name == name:
                return f
        return None

    @property
    def qualname(self):
        return self.name

    def __repr__(self):
        return "<class %s.%s>" % (self.module.name, self.name)


def _deco_name(d) -> str:
    if isinstance(d, ast.Call):
        d = d.func
    try:
        return ast.unparse(d)
    except Exception:
        return "?"


class Module:
    def __init__(self, name, path, relpath, is_pkg):
        self.name = name
        self.path = path
        self.relpath = relpath
        self.is_pkg = is_pkg
        with open(path, "rb") as f:
            data = f.read()
        self.digest = hashlib.sha256(data).hexdigest()
        self.source = data.decode("utf-8")
        self.tree = ast.parse(self.source, filename=path)
        self.classes: Dict[str, ClassInfo] = {}
        self.functions: Dict[str, FuncInfo] = {}
        self.constants: Dict[str, ast.AST] = {}
        self.imports: Dict[str, Tuple] = {}
        for st in self.tree.body:
            if isinstance(st, ast.ClassDef):
                self.classes[st.name] = ClassInfo(self, st)
            elif isinstance(st, (ast.FunctionDef, ast.AsyncFunctionDef)):
                self.functions[st.name] = FuncInfo(self, None, st)
            elif isinstance(st, ast.Assign):
                for t in st.targets:
                    if isinstance(t, ast.Name):
                        self.constants[t.id] = st.value
            elif isinstance(st, ast.AnnAssign) and isinstance(st.target, ast.Name) and st.value is not None:
                self.constants[st.target.id] = st.value
            elif isinstance(st, ast.Import):
                for al in st.names:
                    local = al.asname or al.name.split(".")[0]
                    self.imports[local] = ("module", al.name if al.asname else al.name.split(".")[0])
            elif isinstance(st, ast.ImportFrom):
                base = self._abs_from(st.module, st.level)
                for al in st.names:
                    self.imports[al.asname or al.name] = ("from", base, al.name)

    def _abs_from(self, module, level):
        if level == 0:
            return module
        parts = self.name.split(".")
        if not self.is_pkg:
            parts = parts[:-1]
        if level > 1:
            parts = parts[: len(parts) - (level - 1)]
        if module:
            parts = parts + module.split(".")
        return ".".join(parts)


class External:
    def __init__(self, dotted):
        self.dotted = dotted

    def __repr__(self):
        return "<external %s>" % self.dotted

    def attr(self, name):
        return External(self.dotted + "." + name)


class Const:
    def __init__(self, module, name, node):
        self.module = module
        self.name = name
        self.node = node


class Repo:
    def __init__(self, root: Optional[str] = None):
        self.root = root or repo_root()
        self.modules: Dict[str, Module] = {}
        pkgdir = os.path.join(self.root, PKG)
        if not os.path.isdir(pkgdir):
            raise AnalysisError("package directory %s not found" % pkgdir)
        for dirpath, dirnames, filenames in os.walk(pkgdir):
            dirnames[:] = sorted(d for d in dirnames if d != "__pycache__")
            for fn in sorted(filenames):
                if not fn.endswith(".py"):
                    continue
                path = os.path.join(dirpath, fn)
                rel = os.path.relpath(path, self.root)
                parts = rel[:-3].split(os.sep)
                is_pkg = parts[-1] == "__init__"
                if is_pkg:
                    parts = parts[:-1]
                name = ".".join(parts)
                try:
                    self.modules[name] = Module(name, path, rel, is_pkg)
                except SyntaxError as e:
                    raise AnalysisError("cannot parse %s: %s" % (rel, e))
        self._link_inheritance()

    def _link_inheritance(self):
        """Plain single inheritance between classes of the package: a subclass sees the methods and class attributes of its
        bases that it does not override (own_methods keeps what the class itself defines)."""
        done = set()

        def link(c, depth=0):
            if id(c) in done or depth > 8:
                return
            done.add(id(c))
            c.own_methods = dict(c.methods)
            c.base_classes = []
            for b in c.bases:
                try:
                    r = self.resolve(c.module, b)
                except Exception:
                    r = None
                if isinstance(r, ClassInfo) and r is not c:
                    link(r, depth + 1)
                    c.base_classes.append(r)
                    for k, v in r.methods.items():
                        c.methods.setdefault(k, v)
                    for k, v in r.class_attrs.items():
                        c.class_attrs.setdefault(k, v)
        for m in list(self.modules.values()):
            for c in m.classes.values():
                link(c)

    # -- statistics -----------------------------------------------------
    def source_modules(self):
        return [m for m in self.modules.values() if not m.is_pkg]

    def all_functions(self) -> List[FuncInfo]:
        out = []
        for m in self.modules.values():
            out.extend(m.functions.values())
            for c in m.classes.values():
                out.extend(getattr(c, "own_methods", c.methods).values())
        return out

    def all_classes(self) -> List[ClassInfo]:
        return [c for m in self.modules.values() for c in m.classes.values()]

    def digest(self, relpaths=None) -> str:
        h = hashlib.sha256()
        for m in sorted(self.modules.values(), key=lambda m: m.relpath):
            if relpaths is None or m.relpath in relpaths:
                h.update(m.relpath.encode())
                h.update(m.digest.encode())
        return h.hexdigest()

    def module_by_relpath(self, rel) -> Module:
        for m in self.modules.values():
            if m.relpath == rel:
                return m
        raise AnalysisError("anchor file %s is not in the tree" % rel)

    # -- name resolution --------------------------------------------------
    def resolve(self, module: Module, name: str, _seen=None):
        """Resolve a module-level name to ClassInfo / FuncInfo / Const / Module / External."""
        _seen = _seen or set()
        key = (module.name, name)
        if key in _seen:
            return None
        _seen.add(key)
        if name in module.classes:
            return module.classes[name]
        if name in module.functions:
            return module.functions[name]
        if name in module.constants:
            return Const(module, name, module.constants[name])
        imp = module.imports.get(name)
        if imp is None:
            return None
        if imp[0] == "module":
            dotted = imp[1]
            if dotted in self.modules:
                return self.modules[dotted]
            return External(dotted)
        _, base, sym = imp
        if base is None:
            return None
        if base in self.modules:
            r = self.resolve(self.modules[base], sym, _seen)
            if r is not None:
                return r
            sub = base + "." + sym
            if sub in self.modules:
                return self.modules[sub]
            return None
        if base.split(".")[0] == PKG:
            return None
        return External(base + "." + sym)

    def find_class(self, name) -> ClassInfo:
        hits = [c for c in self.all_classes() if c.name == name]
        if len(hits) != 1:
            raise AnalysisError("class %s: expected exactly one definition, found %d" % (name, len(hits)))
        return hits[0]

    def find_function(self, qualname) -> FuncInfo:
        hits = [f for f in self.all_functions() if f.qualname == qualname]
        if len(hits) != 1:
            raise AnalysisError("function %s: expected exactly one definition, found %d" % (qualname, len(hits)))
        return hits[0]

    def maybe_function(self, qualname) -> Optional[FuncInfo]:
        hits = [f for f in self.all_functions() if f.qualname == qualname]
        return hits[0] if len(hits) == 1 else None


# --------------------------------------------------------------------------
# types (small language)
# --------------------------------------------------------------------------
class Ty:
    def __init__(self, kind, args=(), cls=None):
        self.kind = kind  # float int str bool any none cls list tuple opt dict path
        self.args = tuple(args)
        self.cls = cls

    def __repr__(self):
        if self.kind == "cls":
            return self.cls.name
        if self.args:
            return "%s[%s]" % (self.kind, ", ".join(map(repr, self.args)))
        return self.kind

    @property
    def optional(self):
        return self.kind == "opt"

    def strip_opt(self):
        return self.args[0] if self.kind == "opt" else self


ANY = Ty("any")
FLOAT = Ty("float")


def parse_type(repo: Repo, module: Module, ann: Optional[ast.AST], self_cls: Optional[ClassInfo] = None) -> Ty:
    if ann is None:
        return ANY
    if isinstance(ann, ast.Constant):
        if ann.value is None:
            return Ty("none")
        if isinstance(ann.value, str):
            try:
                return parse_type(repo, module, ast.parse(ann.value, mode="eval").body, self_cls)
            except SyntaxError:
                return ANY
        return ANY
    if isinstance(ann, ast.Name):
        n = ann.id
        if n in ("float", "int", "str", "bool"):
            return Ty(n)
        if n in ("list", "List"):
            return Ty("list", (ANY,))
        r = repo.resolve(module, n)
        if isinstance(r, ClassInfo):
            return Ty("cls", cls=r)
        if isinstance(r, External) and r.dotted.endswith("Path"):
            return Ty("path")
        return ANY
    if isinstance(ann, ast.Attribute):
        s = ast.unparse(ann)
        if s in ("typing.Any",):
            return ANY
        if s == "typing.List":
            return Ty("list", (ANY,))
        if s.endswith("ndarray"):
            return Ty("list", (FLOAT,))
        if s.endswith("DataFrame"):
            return Ty("frame")
        return ANY
    if isinstance(ann, ast.Subscript):
        head = ast.unparse(ann.value)
        head = head.split(".")[-1]
        sl = ann.slice
        elts = sl.elts if isinstance(sl, ast.Tuple) else [sl]
        args = [parse_type(repo, module, e, self_cls) for e in elts]
        if head in ("List", "list", "Sequence", "Iterable"):
            return Ty("list", args[:1])
        if head in ("Tuple", "tuple"):
            return Ty("tuple", args)
        if head == "Optional":
            return Ty("opt", args[:1])
        if head == "Union":
            non_none = [a for a in args if a.kind != "none"]
            if len(non_none) == 1 and len(args) == 2:
                return Ty("opt", non_none)
            if any(a.kind == "path" for a in args):
                return Ty("path")
            if all(a.kind in ("list",) for a in args):
                return args[0]
            return ANY
        if head in ("Mapping", "Dict", "dict"):
            return Ty("dict", args)
        return ANY
    return ANY
