"""E4 front end: normal-form models of the explicit-Euler process functions.

The process functions are found by shape (a method whose `return` constructs a
ProcessModel), evaluated under every combination of the finite modes that
change the shape of their code, and wrapped so that the rules of C01, C03,
C05, C08, C11 and C18 can address the series by the ProcessModel field they
are bound to (never by local variable name)."""
from __future__ import annotations

import ast
import itertools
from typing import Dict, List, Optional

from . import poly
from .poly import Rat, Unmodelled
from .repo import Repo, FuncInfo, ClassInfo, AnalysisError, parse_type
from .evaluator import analyse, Config
from .values import *
from .symeval import called_from

INLINE = {"Composition.first", "Composition.second", "Composition.to_weight", "Composition.to_molar",
          "Permeance.convert", "get_permeate_composition_from_fluxes"}
KG = "kg/(m2*h*kPa)"
UNITS = (KG, "SI", "GPU")


def returns_constructor_of(repo: Repo, func: FuncInfo, cls_name: str, depth=0) -> bool:
    """func returns cls_name(...) itself, or what a helper extracted from it (a function newer than the last validation) returns."""
    from .structural import type_env
    from .symeval import is_new_function
    env = None
    for n in ast.walk(func.node):
        if isinstance(n, ast.Return) and isinstance(n.value, ast.Call):
            f = n.value.func
            name = f.id if isinstance(f, ast.Name) else None
            if name:
                r = repo.resolve(func.module, name)
                if isinstance(r, ClassInfo) and r.name == cls_name:
                    return True
            if depth < 3:
                if env is None:
                    env = type_env(repo, func)
                try:
                    c = env.resolve_callee(n.value)
                except Exception:
                    c = None
                if isinstance(c, FuncInfo) and is_new_function(c) and returns_constructor_of(repo, c, cls_name, depth + 1):
                    return True
    return False


def process_functions(repo: Repo) -> List[FuncInfo]:
    """The public model generators: methods that hand back a ProcessModel (extracted private helpers are part of their callers)."""
    from .symeval import is_new_function
    return [f for f in repo.all_functions() if f.cls is not None and not f.is_classmethod and not is_new_function(f)
            and returns_constructor_of(repo, f, "ProcessModel")]


def param_of_type(repo: Repo, func: FuncInfo, cls_name: str) -> Optional[str]:
    for p in func.params:
        ty = parse_type(repo, func.module, func.annotations.get(p), func.cls).strip_opt()
        if ty.kind == "cls" and ty.cls.name == cls_name:
            return p
    return None


def is_non_ideal(repo, func):
    return param_of_type(repo, func, "DiffusionCurveSet") is not None


def mode_facts(cond: str, mode: str):
    f = {}
    f[cond + ".permeate_temperature"] = "notnone" if mode in ("T", "both") else "none"
    f[cond + ".permeate_pressure"] = "notnone" if mode in ("p", "both") else "none"
    return f


def configurations(repo: Repo, func: FuncInfo, tier="quick", modes=("vac", "T", "p"), bases=("weight", "molar")):
    cond = param_of_type(repo, func, "Conditions")
    if cond is None:
        raise AnalysisError("%s has no Conditions parameter" % func.qualname)
    has_prog = any(isinstance(n, ast.Attribute) and n.attr == "temperature_program" for n in ast.walk(func.node))
    progs = ("none", "notnone") if has_prog else ("none",)
    nonideal = is_non_ideal(repo, func)
    inits = ("none", "notnone") if nonideal and "initial_permeances" in func.params else (None,)
    unit_sets = [(KG, KG), ("SI", "GPU")]
    if tier == "thorough":
        unit_sets = list(itertools.product(UNITS, UNITS))
    for basis, mode, prog, init in itertools.product(bases, modes, progs, inits):
        for us in (unit_sets if init == "notnone" else [None]):
            facts = {cond + ".initial_feed_composition.type": ("str", basis)}
            facts.update(mode_facts(cond, mode))
            facts[cond + ".temperature_program"] = prog
            for p in func.params:
                ty = parse_type(repo, func.module, func.annotations.get(p), func.cls)
                if ty.kind == "opt" and p not in ("initial_permeances",):
                    facts.setdefault(p, "notnone")
            label = "basis=%s mode=%s" % (basis, mode)
            if has_prog:
                label += " programme=%s" % ("set" if prog == "notnone" else "None")
            if init is not None:
                facts["initial_permeances"] = init
                label += " initial_permeances=%s" % ("given" if init == "notnone" else "None")
                if us is not None:
                    facts["initial_permeances[0].units"] = ("str", us[0])
                    facts["initial_permeances[1].units"] = ("str", us[1])
                    label += " units=%s/%s" % us
            if nonideal:
                # the n/m order parameters are Optional[int]; leave them opaque but non-None irrelevant
                for p in func.params:
                    if p.startswith(("n_", "m_")):
                        facts[p] = "notnone"
            yield label, facts, {"basis": basis, "mode": mode, "programme": prog, "initial_permeances": init, "units": us}


_KNOWN = None


def known_functions():
    """Functions that existed when the checks were last validated on the clean tree. A function that is not in this list was
    introduced by a later change (typically an extracted helper); it is inlined so that the refactoring stays invisible."""
    global _KNOWN
    if _KNOWN is None:
        import json, os
        try:
            with open(os.path.join(os.path.dirname(os.path.abspath(__file__)), "floors.json")) as f:
                _KNOWN = set(json.load(f).get("known_functions", []))
        except FileNotFoundError:
            _KNOWN = set()
    return _KNOWN


def make_config(facts, extra_inline=(), ret_summary=None, canon_arg=None) -> Config:
    inl = set(INLINE) | set(extra_inline)
    return Config(facts=facts, inline=lambda f: f.qualname in inl,
                  str_domains={"*.units": UNITS, "*.type": ("weight", "molar")},
                  ret_summary=ret_summary, canon_arg=canon_arg)


def permeance_summary(ev, func, res, bound):
    """Uninterpreted callees whose result discrete fields are established by
    their own checks (C12-M2 / C09-V3): Membrane.get_permeance returns kg units."""
    if func.qualname == "Membrane.get_permeance" and isinstance(res, ObjV):
        res.fields["units"] = StrV(KG)
    return res


class PM:
    """One evaluated path of a process function."""

    def __init__(self, repo, func, label, meta, out):
        self.repo = repo
        self.func = func
        self.label = label
        self.meta = meta
        self.out = out
        self.value = out.value
        self.cond = param_of_type(repo, func, "Conditions")
        tr = []
        for c, d in out.trace:
            s = poly.key_str(c)
            if "#b" in s:
                continue
            tr.append("%s=%s" % (s, d))
        self.path_label = label + ((" | " + ", ".join(tr)) if tr else "")
        self.loop = None
        from .symeval import is_new_function
        for lp in out.loops:
            if lp.kind == "for" and (lp.func is func or (lp.func is not None and is_new_function(lp.func))) and lp.series:
                self.loop = lp   # the Euler loop: the last for-loop with series
        self.k = self.loop.k if self.loop else None
        self._indexed_view()

    def _indexed_view(self):
        """A model written with per-step records and carried state ( record = step(state); records.append(record); state = next )
        reports its series as comprehensions over the records.  Each such field is given the indexed form the rules are
        written against: a state variable becomes the series [v0] + [next(v[k])] with its look-ahead element dropped, any
        other quantity the series of its per-step value."""
        lp = self.loop
        if lp is None or not isinstance(self.value, ObjV):
            return
        from .evaluator import Evaluator
        from .symeval import Ctx, val_key
        from .interp import Frame
        ev = None
        ph_keys = {}
        for name, ph in getattr(lp, "placeholders", {}).items():
            try:
                ph_keys[poly.key_str(val_key(ph))] = name
            except Unmodelled:
                pass
        for fld, v in list(self.value.fields.items()):
            if isinstance(v, ListV) and v.kind == "series" and getattr(v, "constant", False) and len(v.init) == 1 and v.popped == 1:
                self.value.fields[fld] = ListV("rep", elem=v.init[0], n=lp.n)   # [c] + n times c, last one dropped
                continue
            if not (isinstance(v, ListV) and v.kind == "fam" and v.lo.is_zero()):
                continue
            src = getattr(v, "over_series", None)
            if src is None or not any(src is x for x in lp.series.values()):
                continue
            if ev is None:
                ev = Evaluator(Ctx(self.repo, Config(), []))
            try:
                e = ev.subst_val(v.elem, {v.idx.id: Rat.atom(lp.k)})
                ek = poly.key_str(val_key(e))
            except Unmodelled:
                continue
            deps = poly.key_deps(val_key(e))
            evolving = (lp.k.id in deps) or "[k]" in poly.full_key_text(val_key(e))
            if not evolving:
                # the same value at every step (constant temperature, constant permeances ...): what `[c] * n` is
                self.value.fields[fld] = ListV("rep", elem=e, n=lp.n)
                continue
            carrier = getattr(src, "carrier", None)
            if carrier is not None and isinstance(carrier["elem_k"], ObjV) and isinstance(carrier["init"][0], ObjV) \
                    and isinstance(carrier["per_iter"][0], ObjV):
                # records completed in place: the state fields of step k are those of the record the list carried into the step
                hit = None
                fr0 = Frame(None, carrier["elem_k"].cls.module, {})
                for f in carrier["elem_k"].cls.fields:
                    try:
                        if poly.key_str(val_key(ev.obj_attr(carrier["elem_k"], f.name, fr0, None))) == ek:
                            hit = f.name
                            break
                    except Exception:
                        continue
                if hit is not None:
                    sr = ListV("series", name="%s.%s" % (src.name, hit), init=[ev.obj_attr(carrier["init"][0], hit, fr0, None)],
                               appended=[ev.obj_attr(carrier["per_iter"][0], hit, fr0, None)], k=lp.k, lo=lp.lo, n=lp.n, popped=1, closed=True,
                               elem_k=ev.obj_attr(carrier["elem_k"], hit, fr0, None), func=self.func)
                    sr.per_iter = list(sr.appended)
                    sr.synthetic = True
                    self.value.fields[fld] = sr
                    continue
            name = ph_keys.get(ek)
            if name is not None and name in lp.carried_after:
                sr = ListV("series", name=name, init=[lp.carried_before[name]], appended=[lp.carried_after[name]], k=lp.k, lo=lp.lo,
                           n=lp.n, popped=1, closed=True, elem_k=lp.placeholders[name], func=self.func)
            else:
                sr = ListV("series", name="%s@record" % fld, init=[], appended=[e], k=lp.k, lo=lp.lo, n=lp.n, popped=0, closed=True,
                           elem_k=None, func=self.func)
            sr.per_iter = list(sr.appended)
            sr.synthetic = True
            self.value.fields[fld] = sr

    def field(self, name) -> Val:
        return self.value.fields.get(name)

    def series(self, field) -> Optional[ListV]:
        v = self.field(field)
        return v if isinstance(v, ListV) and v.kind == "series" else None

    def sym(self, name, flags=()):
        return Rat.sym(name, flags)

    def cond_field(self, f):
        return Rat.sym("%s.%s" % (self.cond, f))

    def length(self, field) -> Optional[Rat]:
        v = self.field(field)
        if isinstance(v, ListV):
            if v.kind == "series":
                return Rat.const(len(v.init) - v.popped) + v.n * len(v.per_iter)
            if v.kind == "rep":
                return v.n
            if v.kind == "fam":
                return v.hi - v.lo
            if v.kind == "lit":
                return Rat.const(len(v.items))
        return None

    def elem_k(self, field) -> Optional[Val]:
        """State of the series at step k (the element every read `L[step]` saw)."""
        v = self.field(field)
        if not isinstance(v, ListV):
            return None
        if v.kind == "series":
            if len(v.init) >= 1:
                return v.elem_k
            return v.per_iter[0] if v.per_iter else None
        if v.kind == "rep":
            return v.elem
        if v.kind == "fam":
            from .evaluator import Evaluator
            from .symeval import Ctx
            ev = Evaluator(Ctx(self.repo, Config(), []))
            return ev.subst_val(v.elem, {v.idx.id: Rat.atom(self.k)}) if self.k is not None else None
        return None

    def next_elem(self, field) -> Optional[Val]:
        """Element k+1 of a state series (one initial element + one append per step)."""
        v = self.series(field)
        if v is not None and len(v.init) >= 1 and v.per_iter:
            return v.per_iter[0]
        return None

    def solver_calls(self):
        return [c for c in self.out.calls if isinstance(c.callee, FuncInfo)
                and c.callee.qualname == "Pervaporation.calculate_partial_fluxes"
                and called_from(c, self.func)]


def is_admissibility_exit(o) -> bool:
    """A raise inside the Euler loop whose deciding test compares a state element of step k (or the element just
    appended) with a constant bound: the model rejects an inadmissible state instead of reporting it (C18)."""
    if o.kind != "raise" or not o.trace:
        return False
    if not isinstance(getattr(o.exc, "node", None), ast.Raise):
        return False   # only an explicit `raise` statement is a rejection; an IndexError / AttributeError of the code itself is not
    cond, dec = o.trace[-1]
    while isinstance(cond, tuple) and cond and cond[0] == "not":
        cond = cond[1]
    if not (isinstance(cond, tuple) and len(cond) == 3 and cond[0] in ("gt", "ge", "lt", "le") and isinstance(cond[1], Rat)):
        return False
    d = cond[1] - cond[2]
    consts_ok = cond[1].is_const() or cond[2].is_const() or any(poly.T.get(i).name == "+inf" for i in (cond[1].atom_ids() | cond[2].atom_ids()))
    syms = [poly.T.get(i) for i in d.deps() if poly.T.get(i).kind == "sym" and poly.T.get(i).name != "+inf"]
    # the tested quantity is a state element of the step, or an initial-state field of the conditions
    state = bool(syms) and all(("[k]" in a.name) or (".initial_" in a.name) for a in syms)
    in_loop = True
    return consts_ok and state and in_loop


def evaluate(repo: Repo, func: FuncInfo, tier="quick", modes=("vac", "T", "p"), bases=("weight", "molar"),
             extra_inline=(), max_paths=2048, guard_exits=None) -> List[PM]:
    out = []
    for label, facts, meta in configurations(repo, func, tier, modes, bases):
        cfg = make_config(facts, extra_inline, ret_summary=permeance_summary)
        outs = analyse(repo, func, cfg, max_paths=max_paths)
        for o in outs:
            if is_admissibility_exit(o):
                if guard_exits is not None:
                    guard_exits.append((label, meta, o))
                continue
            out.append(PM(repo, func, label, meta, o) if o.kind == "return" else (label, meta, o))
    return out


def split_models(ck, rule, func, results):
    """The evaluated models of func; every path that ends in an exception of the code itself (not an explicit rejection) is
    reported under rule: the property's obligations cannot be discharged on a path the model does not complete."""
    models = []
    for r in results:
        if isinstance(r, PM):
            models.append(r)
            continue
        label, meta, o = r
        ck.ob(rule, func.qualname, "run completes [%s]" % label, getattr(o.exc, "where", None) or func.loc(), False,
              "the model raises %s on this admissible configuration: %s" % (o.exc.exc_type, o.exc.msg))
    return models


def oracle(pm: PM, src: str, **env) -> Val:
    """Normal form of an oracle expression (the property's own formula) written
    in Python, over the same atoms as the model it is compared with."""
    import ast as _ast
    from .evaluator import Evaluator
    from .symeval import Ctx
    from .interp import Frame
    cfg = make_config(dict(pm.out.facts), ret_summary=permeance_summary)
    ctx = Ctx(pm.repo, cfg, [])
    ev = Evaluator(ctx)
    f = pm.func
    e = {"self": ObjV(f.cls, path="self")}
    from .symeval import opaque_of
    for p in f.params[1:]:
        ty = parse_type(pm.repo, f.module, f.annotations.get(p), f.cls)
        e[p] = opaque_of(ty, p, ctx)
    for k, v in env.items():
        e[k] = v if isinstance(v, Val) else Num(v)
    fr = Frame(f, f.module, e, f.cls)
    return ev.eval(_ast.parse(src, mode="eval").body, fr)


def field_renamer(pm: PM):
    """Map local series names to the ProcessModel field they are bound to, so
    that normal forms of sibling functions can be compared whatever their
    local variables are called."""
    m = {}
    for fld, v in pm.value.fields.items():
        if isinstance(v, ListV) and v.kind == "series":
            m[v.name] = fld
    def fn(s: str) -> str:
        for loc, fld in m.items():
            if s.startswith(loc + "[k]"):
                return "@" + fld + s[len(loc):]
        return s
    return fn
