"""E7 — writer/reader tables of the persistence code (columns, JSON keys, side files)."""
from __future__ import annotations

import ast
from typing import Dict, List, Optional, Tuple

from .repo import FuncInfo


def norm_path(p: str) -> str:
    return p.replace(".first", ".p")


def rel_path(expr: ast.AST, var: str) -> Optional[str]:
    """Selector path of expr relative to the name var: v -> '', v[0].value -> '[0].value'."""
    parts = []
    e = expr
    while True:
        if isinstance(e, ast.Name):
            if e.id == var:
                return "".join(reversed(parts))
            return None
        if isinstance(e, ast.Attribute):
            parts.append("." + e.attr)
            e = e.value
        elif isinstance(e, ast.Subscript) and isinstance(e.slice, ast.Constant):
            parts.append("[%r]" % (e.slice.value,))
            e = e.value
        else:
            return None


def self_attr_chain(expr: ast.AST) -> Optional[str]:
    """'a.b' for self.a.b ; None otherwise."""
    parts = []
    e = expr
    while isinstance(e, ast.Attribute):
        parts.append(e.attr)
        e = e.value
    if isinstance(e, ast.Name) and e.id == "self" and parts:
        return ".".join(reversed(parts))
    return None


class WriterTable:
    """column -> (field chain of self, selector path, 'series' | 'scalar', node)"""

    def __init__(self, func: FuncInfo, frame_ctor_suffix="DataFrame"):
        self.func = func
        self.columns: Dict[str, Tuple[str, str, str, ast.AST]] = {}
        self.unparsed: List[Tuple[str, ast.AST]] = []
        self.frame_var = None
        self.order_constant = None
        for n in ast.walk(func.node):
            if isinstance(n, ast.Assign) and isinstance(n.value, ast.Call) and ast.unparse(n.value.func).endswith(frame_ctor_suffix) \
                    and n.value.args and isinstance(n.value.args[0], ast.Dict):
                if isinstance(n.targets[0], ast.Name):
                    self.frame_var = n.targets[0].id
                d = n.value.args[0]
                for k, v in zip(d.keys, d.values):
                    if isinstance(k, ast.Constant) and isinstance(k.value, str):
                        self._add(k.value, v)
        for n in ast.walk(func.node):
            if isinstance(n, ast.Assign) and len(n.targets) == 1 and isinstance(n.targets[0], ast.Subscript):
                t = n.targets[0]
                if isinstance(t.value, ast.Name) and t.value.id == self.frame_var and isinstance(t.slice, ast.Constant):
                    self._add(t.slice.value, n.value, scalar=True)
            if isinstance(n, ast.Assign) and isinstance(n.value, ast.Subscript) and isinstance(n.value.value, ast.Name) \
                    and n.value.value.id == self.frame_var and isinstance(n.value.slice, ast.Name):
                self.order_constant = n.value.slice.id

    def _add(self, col, v, scalar=False):
        if isinstance(v, ast.ListComp) and len(v.generators) == 1 and isinstance(v.generators[0].target, ast.Name):
            g = v.generators[0]
            fld = self_attr_chain(g.iter)
            p = rel_path(v.elt, g.target.id)
            if fld is not None and p is not None:
                self.columns[col] = (fld, norm_path(p), "series", v)
                return
        fld = self_attr_chain(v)
        if fld is not None:
            self.columns[col] = (fld, "", "scalar" if scalar else "series", v)
            return
        if isinstance(v, ast.Constant):
            self.columns[col] = ("<constant>", repr(v.value), "scalar", v)
            return
        self.unparsed.append((col, v))


def column_refs(expr: ast.AST, frame_var: str):
    """All frame_var["col"] occurrences inside expr, with whether they are reduced to a scalar by .iloc[<const>]."""
    out = []
    parents = {}
    for n in ast.walk(expr):
        for c in ast.iter_child_nodes(n):
            parents[c] = n
    for n in ast.walk(expr):
        if isinstance(n, ast.Subscript) and isinstance(n.value, ast.Name) and n.value.id == frame_var and isinstance(n.slice, ast.Constant) \
                and isinstance(n.slice.value, str):
            scalar = False
            rowwise = False
            p = parents.get(n)
            if isinstance(p, ast.Attribute) and p.attr == "iloc":
                pp = parents.get(p)
                if isinstance(pp, ast.Subscript):
                    if isinstance(pp.slice, ast.Constant):
                        scalar = True
                    else:
                        rowwise = True
            out.append((n.slice.value, scalar, rowwise, n))
    return out


class ReaderTable:
    """field -> list of (column, selector path inside the field's element, shape) extracted from a loader.

    shape: 'series' (whole column or one value per row), 'scalar' (.iloc[const])"""

    def __init__(self, func: FuncInfo, frame_var: str, ctor_names=("cls",)):
        self.func = func
        self.frame_var = frame_var
        self.fields: Dict[str, List[Tuple[str, str, str]]] = {}
        self.field_nodes: Dict[str, ast.AST] = {}
        self.extra: Dict[str, List[str]] = {}
        self.ctor = None
        for n in ast.walk(func.node):
            if isinstance(n, ast.Return) and isinstance(n.value, ast.Call) and ast.unparse(n.value.func) in ctor_names:
                self.ctor = n.value
        if self.ctor is None:
            return
        for kw in self.ctor.keywords:
            if kw.arg is None:
                continue
            self.field_nodes[kw.arg] = kw.value
            self.fields[kw.arg] = self._refs(kw.value, "", set())

    def _local_defs(self, name):
        out = []
        for n in ast.walk(self.func.node):
            if isinstance(n, ast.Assign) and any(isinstance(t, ast.Name) and t.id == name for t in n.targets):
                out.append(("assign", n.value))
            elif isinstance(n, ast.Call) and isinstance(n.func, ast.Attribute) and n.func.attr == "append" \
                    and isinstance(n.func.value, ast.Name) and n.func.value.id == name and n.args:
                out.append(("append", n.args[0]))
        return out

    def _refs(self, expr, path, seen) -> List[Tuple[str, str, str]]:
        out = []
        if isinstance(expr, ast.Name) and expr.id != self.frame_var:
            if expr.id in seen:
                return out
            seen = seen | {expr.id}
            for kind, d in self._local_defs(expr.id):
                if isinstance(d, ast.Constant) and d.value is None:
                    continue
                if isinstance(d, ast.List) and not d.elts:
                    continue
                out.extend(self._refs(d, path, seen) if kind == "assign" else self._elem_refs(d, path, seen, rowwise=True))
            return out
        if isinstance(expr, ast.ListComp):
            return self._elem_refs(expr.elt, path, seen, rowwise=True)
        if isinstance(expr, ast.IfExp):
            return self._refs(expr.body, path, seen) + self._refs(expr.orelse, path, seen)
        if isinstance(expr, ast.Tuple):
            for i, e in enumerate(expr.elts):
                out.extend(self._refs(e, path + "[%d]" % i, seen))
            return out
        for col, scalar, rowwise, node in column_refs(expr, self.frame_var):
            out.append((col, path, "scalar" if scalar else "series"))
        return out

    def _elem_refs(self, elt, path, seen, rowwise):
        """References inside one element of a per-row list."""
        out = []
        if isinstance(elt, ast.Tuple):
            for i, e in enumerate(elt.elts):
                out.extend(self._elem_refs(e, path + "[%d]" % i, seen, rowwise))
            return out
        # Constructor(...)[.method(...)]: keyword arguments name sub-fields
        e = elt
        while isinstance(e, ast.Call) and isinstance(e.func, ast.Attribute) and not isinstance(e.func.value, ast.Name):
            e = e.func.value   # strip .convert(...) / .to_weight(...)
        if isinstance(e, ast.Call) and isinstance(e.func, ast.Name):
            for kw in e.keywords:
                for col, scalar, rw, node in column_refs(kw.value, self.frame_var):
                    out.append((col, path + "." + kw.arg, "series" if (rw or not scalar) else "series-const"))
            for i, a in enumerate(e.args):
                for col, scalar, rw, node in column_refs(a, self.frame_var):
                    out.append((col, path + ".<arg%d>" % i, "series" if rw else "series-const"))
            return out
        for col, scalar, rw, node in column_refs(elt, self.frame_var):
            out.append((col, path, "series" if (rw or not scalar) else "scalar"))
        return out


def dict_literal_keys(func: FuncInfo, var: str) -> Dict[str, ast.AST]:
    for n in ast.walk(func.node):
        if isinstance(n, ast.Assign) and any(isinstance(t, ast.Name) and t.id == var for t in n.targets) and isinstance(n.value, ast.Dict):
            return {k.value: v for k, v in zip(n.value.keys, n.value.values) if isinstance(k, ast.Constant)}
    return {}


def json_reads(func: FuncInfo, var: str) -> Dict[str, List[ast.AST]]:
    out: Dict[str, List[ast.AST]] = {}
    for n in ast.walk(func.node):
        if isinstance(n, ast.Subscript) and isinstance(n.value, ast.Name) and n.value.id == var and isinstance(n.slice, ast.Constant):
            out.setdefault(n.slice.value, []).append(n)
    return out
