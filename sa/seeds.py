"""Catalogue of seeded edits (must fire) and behaviour-preserving rewrites (must stay silent) used by the
thorough tier to validate the checkers themselves.  Each edit is located by source text in the tree under test; an
edit whose anchor text is absent is skipped and counted."""

PV = "pyvaporation/pervaporation/pervaporation.py"
MX = "pyvaporation/mixtures/mixture.py"
DC = "pyvaporation/diffusion_curve/diffusion_curve.py"
OP = "pyvaporation/optimizer/optimizer.py"
PR = "pyvaporation/process/process.py"
MB = "pyvaporation/membrane/membrane.py"
CO = "pyvaporation/components/component.py"
PE = "pyvaporation/permeance/permeance.py"
CN = "pyvaporation/conditions/conditions.py"
UF = "pyvaporation/mixtures/uniquac_fitting.py"


def S(sid, props, file, old, new, nth=1, note=""):
    return {"id": sid, "props": props, "file": file, "old": old, "new": new, "nth": nth, "note": note}


SEEDS = [
    # ---- C01 / C11 / C03: balances --------------------------------------------------------------------------------
    S("mass-drop-d2", ["C01"], PV, "feed_mass.append(feed_mass[step] - d_mass_1 - d_mass_2)", "feed_mass.append(feed_mass[step] - d_mass_1)"),
    S("d2-from-flux0", ["C01"], PV, "d_mass_2 = partial_fluxes[step][1] * conditions.membrane_area * delta_hours",
      "d_mass_2 = partial_fluxes[step][0] * conditions.membrane_area * delta_hours"),
    S("divisor-current-mass", ["C01"], PV, "/ feed_mass[step + 1],", "/ feed_mass[step],", nth=2),
    S("time-grid-shift", ["C01"], PV, "delta_hours * step for step in range(number_of_steps)", "delta_hours * (step + 1) for step in range(number_of_steps)", nth=3),
    S("missing-pop", ["C01"], PV, "feed_mass.pop(-1)", "pass", nth=2),
    S("feed-mass-bound-to-time", ["C01"], PV, "feed_mass=feed_mass,", "feed_mass=time,", nth=4),
    S("area-missing-d1", ["C01", "C11"], PV, "d_mass_1 = partial_fluxes[step][0] * conditions.membrane_area * delta_hours",
      "d_mass_1 = partial_fluxes[step][0] * delta_hours", nth=4),
    S("cond-heat-times-dt", ["C11", "C03"], PV, "* (feed_temperature[step] - conditions.permeate_temperature)",
      "* (feed_temperature[step] - conditions.permeate_temperature) * delta_hours"),
    S("cooling-by-initial-mass", ["C03"], PV, "/ (feed_heat_capacity * feed_mass[step])", "/ (feed_heat_capacity * feed_mass[0])"),
    S("cp-weights-swapped", ["C03", "C06"], PV, "feed_composition[step].first * heat_capacity_1", "feed_composition[step].second * heat_capacity_1"),
    S("programme-at-old-time", ["C03"], PV, "conditions.temperature_program.program(time[step] + delta_hours)",
      "conditions.temperature_program.program(time[step])"),
    S("evap-heat-wrong-mw", ["C03", "C06"], PV,
      "/ self.mixture.second_component.molecular_weight\n            * 1000\n        )\n        if conditions.permeate_temperature is None:",
      "/ self.mixture.first_component.molecular_weight\n            * 1000\n        )\n        if conditions.permeate_temperature is None:"),
    # ---- C02: solver ------------------------------------------------------------------------------------------------
    S("df-plus", ["C02"], PV, "* (feed_nrtl_partial_pressures[0] - permeate_nrtl_partial_pressures[0])",
      "* (feed_nrtl_partial_pressures[0] + permeate_nrtl_partial_pressures[0])"),
    S("pressure-arm-first-twice", ["C02", "C06"], PV, "permeate_pressure * permeate_composition.second", "permeate_pressure * permeate_composition.first"),
    S("permeate-side-model-dropped", ["C02", "C08"], PV, "permeate_temperature, self.mixture, permeate_composition, calculation_type,",
      "permeate_temperature, self.mixture, permeate_composition,"),
    S("precision-times-10", ["C02"], PV, "while d >= precision", "while d >= precision * 10"),
    S("iterate-not-updated", ["C02"], PV, "                permeate_composition = permeate_composition_new", "                pass"),
    S("distance-mixed", ["C02"], PV, "abs(permeate_composition_new.second - permeate_composition.second)",
      "abs(permeate_composition_new.second - permeate_composition.first)"),
    S("mode-chain-elif", ["C02", "C19"], PV, "elif permeate_pressure is not None and permeate_temperature is None", "elif permeate_pressure is not None"),
    S("final-call-nrtl", ["C02", "C08"], PV, "calculation_type=calculation_type,", 'calculation_type="NRTL",', nth=2),
    S("membrane-permeance-wrong-component", ["C02", "C06"], PV, "feed_temperature, self.mixture.second_component", "feed_temperature, self.mixture.first_component"),
    # ---- C04 / C06 / C07: thermodynamics ------------------------------------------------------------------------------
    S("nrtl-index", ["C04", "C06"], MX, "/ (composition.first + composition.second * g_exp[1]) ** 2", "/ (composition.first + composition.second * g_exp[0]) ** 2"),
    S("nrtl-square-dropped", ["C04"], MX, "(composition.first**2)", "(composition.first)"),
    S("gamma-dropped", ["C04", "C06"], MX, "        * activity_coefficients[1]\n        * composition.second", "        * composition.second"),
    S("activity-guard-removed", ["C04"], MX,
      "    if composition.type == CompositionType.weight:\n        composition = composition.to_molar(mixture=mixture)\n\n    if calculation_type",
      "    if calculation_type"),
    S("pp-guard-removed", ["C07", "C04"], MX,
      "    if composition.type == CompositionType.weight:\n        composition = composition.to_molar(mixture=mixture)\n\n    activity_coefficients",
      "    activity_coefficients"),
    S("uniquac-log-phi", ["C04", "C06"], MX, "* numpy.log(theta_2_geometric / phi_2)", "* numpy.log(theta_2_geometric / phi_1)"),
    # ---- C05 ----------------------------------------------------------------------------------------------------------------
    S("fit-at-second-fraction", ["C05"], PV,
      "x=feed_composition[step + 1].first,\n                            t=feed_temperature[step + 1],\n                        )\n                        * facilitation_rate_first",
      "x=feed_composition[step + 1].second,\n                            t=feed_temperature[step + 1],\n                        )\n                        * facilitation_rate_first"),
    S("fit-at-old-temperature", ["C05"], PV,
      "x=feed_composition[step + 1].first,\n                            t=feed_temperature[step + 1],\n                        )\n                        * facilitation_rate_second",
      "x=feed_composition[step + 1].first,\n                            t=feed_temperature[step],\n                        )\n                        * facilitation_rate_second"),
    S("arrhenius-b0-without-R", ["C05"], PV, "pervaporation_function_second.b[0] = activation_energy_second / R",
      "pervaporation_function_second.b[0] = activation_energy_second", nth=3),
    S("component-index-swapped", ["C05"], PV, "component_index=1,", "component_index=0,", nth=5),
    S("arrhenius-sign", ["C05"], PV, "+ activation_energy_first / (R * pervaporation_function_temperature)",
      "- activation_energy_first / (R * pervaporation_function_temperature)", nth=2),
    S("fit2-on-first-measurements", ["C05"], PV, "data=measurements_second,", "data=measurements_first,", nth=3),
    S("facilitation-molar", ["C05", "C07"], PV, "                x=feed_composition[0].first,\n                t=conditions.initial_feed_temperature,",
      "                x=conditions.initial_feed_composition.first,\n                t=conditions.initial_feed_temperature,", nth=3),
    # ---- C07 / C08 -------------------------------------------------------------------------------------------------------------
    S("sf-raw-composition", ["C07", "C08"], PV, "feed_comp = composition.to_weight(self.mixture)", "feed_comp = composition"),
    S("curve-sf-raw", ["C07", "C08"], DC, "feed_composition = [c.to_weight(self.mixture) for c in self.feed_compositions]", "feed_composition = self.feed_compositions"),
    S("measurement-raw-x", ["C07"], OP, "x=curve.feed_compositions[i].to_weight(curve.mixture).first,", "x=curve.feed_compositions[i].first,", nth=2),
    S("initial-not-weight", ["C07", "C01"], PV, "            conditions.initial_feed_composition.to_weight(self.mixture)\n        ]",
      "            conditions.initial_feed_composition\n        ]", nth=2),
    S("positional-model", ["C08", "C06"], PV, "            calculation_type=calculation_type,\n        )\n        return Composition(x[0]",
      "            calculation_type,\n        )\n        return Composition(x[0]"),
    S("step-uses-initial-composition", ["C08"], PV, "composition=feed_composition[step],", "composition=feed_composition[0],", nth=2),
    S("precision-default", ["C08"], PV, "precision=precision,", "precision=5e-5,", nth=3),
    S("permeate-comp-second", ["C08"], PV, "return Composition(x[0] / numpy.sum(x), type=CompositionType.weight)",
      "return Composition(x[1] / numpy.sum(x), type=CompositionType.weight)"),
    S("activity-model-hardcoded", ["C08"], MX, "calculation_type=calculation_type)", "calculation_type=ActivityCoefficientModel.NRTL)"),
    # ---- C09 -------------------------------------------------------------------------------------------------------------------
    S("curve-flux-wrong-pressure", ["C09", "C06"], DC, "self.permeances[i][1].value * feed_partial_pressures[i][1],",
      "self.permeances[i][1].value * feed_partial_pressures[i][0],"),
    S("curve-else-no-convert", ["C09"], DC,
      "        else:\n            self.permeances = [\n                (\n                    self.permeances[i][0].convert(\n                        to_units=Units.kg_m2_h_kPa,\n                        component=self.mixture.first_component,\n                    ),",
      "        else:\n            self.permeances = [\n                (\n                    self.permeances[i][0],"),
    # ---- C10 -----------------------------------------------------------------------------------------------------------------------
    S("cap-no-increment", ["C10"], PV, "            iteration += 1\n", "            iteration += 0\n"),
    S("cap-infinite", ["C10"], PV, "if iteration > 10000:", "if iteration > numpy.inf:"),
    S("cap-conditional", ["C10"], PV, "if iteration > 10000:", "if iteration > 10000 and d < 0.5:"),
    S("recursion", ["C10"], PV, "        feed_comp = composition.to_weight(self.mixture)",
      "        self.calculate_separation_factor(feed_temperature, composition)\n        feed_comp = composition.to_weight(self.mixture)"),
    # ---- C12 / C13 / C14 / C15 ---------------------------------------------------------------------------------------------------------
    S("arrhenius-reversed", ["C12"], MB, "* (1 / temperature - 1 / temperature_list[index])", "* (1 / temperature_list[index] - 1 / temperature)"),
    S("reference-first-experiment", ["C12"], MB, "given_permeance = component_experiments.experiments[index].permeance.convert(",
      "given_permeance = component_experiments.experiments[0].permeance.convert("),
    S("argmax", ["C12"], MB, "index = min(", "index = max("),
    S("ea-sign", ["C12"], MB, "return -activation_energy", "return activation_energy"),
    S("pure-flux-same-temperature", ["C12"], MB, "- component.get_vapor_pressure(permeate_temperature)", "- component.get_vapor_pressure(temperature)"),
    S("selectivity-wrong-component", ["C12"], MB, ".convert(to_units=Units().SI, component=second_component)", ".convert(to_units=Units().SI, component=first_component)"),
    S("frost-2c", ["C13"], CO, "+ 2 * self.vapour_pressure_constants.c / temperature", "+ self.vapour_pressure_constants.c / temperature"),
    S("integral-third", ["C13"], CO, "/ 3", "/ 2"),
    S("unit-factor", ["C14"], PE, "3.6e3", "3.6e2"),
    S("unit-multiply", ["C14"], PE, "conversion_dict[self.units] / conversion_dict[to_units]", "conversion_dict[self.units] * conversion_dict[to_units]"),
    S("unit-get-default", ["C14"], PE, "conversion_dict[to_units]", "conversion_dict.get(to_units, 1)"),
    S("clamp-removed", ["C14"], PE, "x if x >= 0 else 0", "x"),
    S("to-molar-mw", ["C15"], MX, "+ (1 - self.p) / mixture.second_component.molecular_weight", "+ (1 - self.p) / mixture.first_component.molecular_weight"),
    S("validator-open", ["C15"], MX, "if not 0 <= value <= 1", "if not 0 < value <= 1"),
    # ---- C16 / C20 -------------------------------------------------------------------------------------------------------------------------
    S("shallow-copy", ["C16", "C20"], OP, "    _data = Measurements(data=list(data.data))", "    _data = copy(data)"),
    S("no-copy", ["C16", "C20"], OP, "    _data = Measurements(data=list(data.data))", "    _data = data"),
    S("loss-on-subset", ["C16"], OP, "                    for measurement in data\n                ]\n            )\n\n            if loss",
      "                    for measurement in data[:3]\n                ]\n            )\n\n            if loss"),
    S("only-one-accumulator", ["C16"], OP, "                best_curve = curve\n                best_loss = loss", "                best_curve = curve"),
    S("random-start", ["C16"], OP, "x0=numpy.array([0] * (2 + _n + _m)),", "x0=numpy.random.rand(2 + _n + _m),"),
    S("sort-callers-data", ["C16", "C20"], OP, "    _n, _m = _suggest_n_m(data, n, m)", "    _n, _m = _suggest_n_m(data, n, m)\n    data.data.sort(key=lambda d: d.x)"),
    S("mul-adds", ["C16"], OP, "alpha=self.alpha * constant,", "alpha=self.alpha + constant,"),
    S("conditions-normalised-in-place", ["C20"], PV,
      "        partial_fluxes: typing.List[typing.Tuple[float, float]] = []\n\n        first_component_permeance",
      "        conditions.initial_feed_composition = conditions.initial_feed_composition.to_weight(self.mixture)\n        partial_fluxes: typing.List[typing.Tuple[float, float]] = []\n\n        first_component_permeance"),
    S("experiments-sorted-in-place", ["C20"], MB, "        component_experiments = self.get_penetrant_data(component)\n\n        temperature_list",
      "        self.ideal_experiments.experiments.sort(key=lambda e: e.temperature)\n        component_experiments = self.get_penetrant_data(component)\n\n        temperature_list"),
    S("module-cache", ["C20"], OP, "def find_best_fit(", "_CACHE = {}\n\n\ndef find_best_fit("),
    S("mul-in-place", ["C20", "C16"], OP, '    def __mul__(self, constant: float) -> "PervaporationFunction":\n        return PervaporationFunction(',
      '    def __mul__(self, constant: float) -> "PervaporationFunction":\n        self.alpha = self.alpha * constant\n        return PervaporationFunction('),
    S("clock-in-flux", ["C20"], PV, "first_component_permeance.value\n            * (feed_nrtl_partial_pressures[0]",
      "first_component_permeance.value * (1 + 0 * hash(datetime.now()))\n            * (feed_nrtl_partial_pressures[0]"),
    # ---- C17 ---------------------------------------------------------------------------------------------------------------------------------
    S("flux2-from-0", ["C17"], PR, '"partial_flux_2": [f[1] for f in self.partial_fluxes],', '"partial_flux_2": [f[0] for f in self.partial_fluxes],'),
    S("mass-from-time", ["C17"], PR, '"feed_mass": [m for m in self.feed_mass],', '"feed_mass": [m for m in self.time],'),
    S("exist-ok", ["C17"], PR, "process_path.mkdir(parents=True, exist_ok=False)", "process_path.mkdir(parents=True, exist_ok=True)"),
    S("fits-swapped-on-load", ["C17"], PR,
      "            pv_0 = PervaporationFunction.load(pv_0_filenames[0])\n            pv_1 = PervaporationFunction.load(pv_1_filenames[0])",
      "            pv_0 = PervaporationFunction.load(pv_1_filenames[0])\n            pv_1 = PervaporationFunction.load(pv_0_filenames[0])"),
    S("json-key-renamed", ["C17"], OP, '"alpha": self.alpha,', '"alfa": self.alpha,'),
    S("csv-outside-process-dir", ["C17"], PR, 'process_frame.to_csv(process_path / "process_model.csv", index=False)',
      'process_frame.to_csv(results_path / "process_model.csv", index=False)'),
    S("load-wrong-component", ["C17"], PR, "                            component=mixture.second_component,", "                            component=mixture.first_component,"),
    S("conditions-json-wrong-field", ["C17"], CN, '"initial_feed_amount": self.initial_feed_amount,', '"initial_feed_amount": self.initial_feed_temperature,'),
    S("load-scalar-permeate-temperature", ["C17"], PR, 'permeate_temperature = list(process_frame["permeate_temperature"])',
      'permeate_temperature = process_frame["permeate_temperature"].iloc[0]'),
    # ---- C18 / C19 -------------------------------------------------------------------------------------------------------------------------------
    S("mass-guard-weak", ["C18"], PV, "if not feed_mass[step] > 0:", "if not feed_mass[step] > -1:", nth=2),
    S("mass-guard-flipped", ["C18"], PV, "if not feed_mass[step] > 0:", "if feed_mass[step] > 0:", nth=3),
    S("temperature-guard-no-upper", ["C18"], PV, "if not 0 < feed_temperature[step] < numpy.inf:", "if not 0 < feed_temperature[step]:"),
    S("validator-removed", ["C18", "C15"], MX, "p: float = attr.ib(validator=_is_in_0_to_1_range)", "p: float"),
    S("df-else-default", ["C19", "C02"], PV,
      '        else:\n            raise ValueError(\n                "Either permeate temperature or permeate pressure could be stated not both"\n            )\n\n        return (',
      "        else:\n            permeate_nrtl_partial_pressures = (0, 0)\n\n        return ("),
    S("pure-flux-elif", ["C19"], MB, "elif permeate_pressure is not None and permeate_temperature is None:", "elif permeate_pressure is not None:"),
    S("mixture-or", ["C19"], MX, "if self.nrtl_params is None and self.uniquac_params is None:", "if self.nrtl_params is None or self.uniquac_params is None:"),
    S("curve-none-none-default", ["C19"], DC,
      '        elif self.permeances is None and self.partial_fluxes is None:\n            raise ValueError(\n                "Either Permeances or Fluxes must be specified as functions of feed composition"\n            )',
      "        elif self.permeances is None and self.partial_fluxes is None:\n            self.permeances = []"),
]

# behaviour-preserving rewrites: every check must stay silent (exit 0)
REWRITES = [
    S("r-dmass-reassociated", [], PV, "d_mass_1 = partial_fluxes[step][0] * conditions.membrane_area * delta_hours",
      "d_mass_1 = (partial_fluxes[step][0] * delta_hours) * conditions.membrane_area"),
    S("r-mass-factored", [], PV, "feed_mass.append(feed_mass[step] - d_mass_1 - d_mass_2)", "feed_mass.append(feed_mass[step] - (d_mass_1 + d_mass_2))"),
    S("r-final-call-uses-new-iterate", [], PV, "permeate_composition=permeate_composition,", "permeate_composition=permeate_composition_new,", nth=2),
    S("r-validator-rewritten", [], MX, "if not 0 <= value <= 1", "if value < 0 or value > 1"),
    S("r-clamp-max", [], PE, "x if x >= 0 else 0", "max(x, 0)"),
    S("r-regression-constant", [], MB, "1,\n            [\n                ideal_experiment.temperature", "1.0 * 1,\n            [\n                ideal_experiment.temperature * 1"),
    S("r-keyword-to-positional", [], PV, "feed_temperature=conditions.initial_feed_temperature,\n                    composition=feed_composition[step],",
      "conditions.initial_feed_temperature,\n                    feed_composition[step],"),
    S("r-heat-distributed", [], PV, "evaporation_heat_1 * d_mass_1 + evaporation_heat_2 * d_mass_2", "evaporation_heat_2 * d_mass_2 + d_mass_1 * evaporation_heat_1"),
    S("r-sum-of-pair", [], PV, "p=fluxes[0] / sum(fluxes),", "p=fluxes[0] / (fluxes[0] + fluxes[1]),"),
    S("r-strict-or-equal", [], OP, "if loss < best_loss:", "if loss <= best_loss:"),
    S("r-local-renamed", [], PV, "feed_comp = composition.to_weight(self.mixture)\n        return (feed_comp.second / feed_comp.first)",
      "w = composition.to_weight(self.mixture)\n        return (w.second / w.first)"),
    S("r-comment-docstring", [], MX, "def get_partial_pressures(", "# reformatted\ndef get_partial_pressures("),
]
