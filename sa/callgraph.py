"""Resolved call graph of the package (E1) and reachability."""
from __future__ import annotations

import ast
from typing import Dict, List, Set, Tuple

from .repo import Repo, FuncInfo, ClassInfo, External
from .structural import type_env


def fkey(f: FuncInfo) -> str:
    return "%s:%s" % (f.module.name, f.qualname)


class CallGraph:
    def __init__(self, repo: Repo):
        self.repo = repo
        self.funcs: Dict[str, FuncInfo] = {fkey(f): f for f in repo.all_functions()}
        self.edges: Dict[str, Set[str]] = {k: set() for k in self.funcs}
        self.sites: Dict[Tuple[str, str], List[ast.AST]] = {}
        self.externals: Dict[str, List[Tuple[str, ast.AST]]] = {k: [] for k in self.funcs}
        self.unresolved: Dict[str, List[ast.AST]] = {k: [] for k in self.funcs}
        self.resolved_calls = 0
        self.total_calls = 0
        for k, f in self.funcs.items():
            env = type_env(repo, f)
            for n in ast.walk(f.node):
                if isinstance(n, ast.Call):
                    self.total_calls += 1
                    c = env.resolve_callee(n)
                    if isinstance(c, FuncInfo):
                        self._edge(k, c, n)
                        self.resolved_calls += 1
                    elif isinstance(c, ClassInfo):
                        self.resolved_calls += 1
                        for m in ("__attrs_post_init__", "__init__"):
                            if m in c.methods:
                                self._edge(k, c.methods[m], n)
                        for fld in c.fields:
                            for sub in (fld.converter, fld.validator):
                                if isinstance(sub, ast.Name):
                                    r = repo.resolve(c.module, sub.id)
                                    if isinstance(r, FuncInfo):
                                        self._edge(k, r, n)
                    elif isinstance(c, External):
                        self.resolved_calls += 1
                        self.externals[k].append((c.dotted, n))
                    else:
                        name = ast.unparse(n.func)
                        if isinstance(n.func, ast.Name) and n.func.id in __builtins__ if isinstance(__builtins__, dict) else hasattr(__builtins__, getattr(n.func, "id", "")):
                            self.resolved_calls += 1
                            self.externals[k].append(("builtins." + n.func.id, n))
                        else:
                            self.unresolved[k].append(n)
                elif isinstance(n, ast.Attribute) and isinstance(n.ctx, ast.Load):
                    bt = env.type_of(n.value).strip_opt()
                    if bt.kind == "cls" and n.attr in bt.cls.methods and bt.cls.methods[n.attr].is_property:
                        self._edge(k, bt.cls.methods[n.attr], n)
                elif isinstance(n, ast.BinOp):
                    lt = env.type_of(n.left).strip_opt()
                    dn = {ast.Add: "__add__", ast.Mult: "__mul__"}.get(type(n.op))
                    if lt.kind == "cls" and dn and dn in lt.cls.methods:
                        self._edge(k, lt.cls.methods[dn], n)
                elif isinstance(n, ast.AugAssign):
                    lt = env.type_of(n.target).strip_opt()
                    dn = {ast.Add: "__add__", ast.Mult: "__mul__"}.get(type(n.op))
                    if lt.kind == "cls" and dn and dn in lt.cls.methods:
                        self._edge(k, lt.cls.methods[dn], n)
                elif isinstance(n, (ast.For, ast.comprehension)):
                    it = env.type_of(n.iter).strip_opt()
                    if it.kind == "cls":
                        for m in ("__iter__", "__getitem__", "__len__"):
                            if m in it.cls.methods:
                                self._edge(k, it.cls.methods[m], n)

    def _edge(self, k, callee: FuncInfo, node):
        ck = fkey(callee)
        self.edges[k].add(ck)
        self.sites.setdefault((k, ck), []).append(node)

    def reachable(self, roots: List[FuncInfo]) -> Set[str]:
        seen = set()
        stack = [fkey(r) for r in roots]
        while stack:
            k = stack.pop()
            if k in seen or k not in self.edges:
                continue
            seen.add(k)
            stack.extend(self.edges[k])
        return seen

    def cycles(self) -> List[List[str]]:
        """Strongly connected components with more than one node, or self loops (Tarjan)."""
        index = {}
        low = {}
        on = set()
        st = []
        out = []
        counter = [0]

        def visit(v):
            index[v] = low[v] = counter[0]
            counter[0] += 1
            st.append(v)
            on.add(v)
            for w in self.edges.get(v, ()):
                if w not in index:
                    visit(w)
                    low[v] = min(low[v], low[w])
                elif w in on:
                    low[v] = min(low[v], index[w])
            if low[v] == index[v]:
                comp = []
                while True:
                    w = st.pop()
                    on.discard(w)
                    comp.append(w)
                    if w == v:
                        break
                if len(comp) > 1 or v in self.edges.get(v, ()):
                    out.append(sorted(comp))

        for v in self.edges:
            if v not in index:
                visit(v)
        return out
