"""Normal-form evaluator: computes, for a function of the repository, the
closed normal form of what it returns / raises on each syntactic path, over
uninterpreted atoms.  No number is ever computed; loops are summarised by one
application of their body at a symbolic index (inductive step) or by an
uninterpreted fix-point operator; nothing is handed to a solver.

Paths: a test whose truth value is not fixed by the configuration (finite
facts about None-ness / string modes) is explored both ways by re-evaluating
the function with a recorded decision prefix.
"""
from __future__ import annotations

import ast
from fractions import Fraction
from typing import Dict, List, Optional, Callable, Any, Tuple

from . import poly
from .poly import Rat, rat, Unmodelled, mk_fn, mk_exp, mk_log, mk_pow, mk_ite, key_str
from .repo import Repo, Module, ClassInfo, FuncInfo, Const, External, Ty, ANY, FLOAT, parse_type, AnalysisError
from .values import *


class RaiseSignal(Exception):
    def __init__(self, exc_type, msg="", node=None, frame=None):
        self.exc_type = exc_type
        self.msg = msg
        self.node = node
        self.where = frame.func.loc(node) if frame is not None and node is not None else None


class ReturnSignal(Exception):
    def __init__(self, value):
        self.value = value


class PathLimit(Exception):
    pass


# --------------------------------------------------------------------------
class Config:
    def __init__(self, facts=None, inline=None, post_init=None, max_depth=6, canon_arg=None,
                 ret_summary=None, assume_positive=True, str_domains=None):
        self.facts = dict(facts or {})
        user_inline = inline or (lambda f: False)
        known = _known_functions()
        # a function that did not exist when the checks were last validated (typically an extracted helper) is always inlined,
        # so that the refactoring stays invisible to every rule
        self.inline = (lambda f: user_inline(f) or (f.module.name + ":" + f.qualname) not in known) if known else user_inline
        self.post_init = post_init or (lambda c: False)
        self.max_depth = max_depth
        self.canon_arg = canon_arg
        self.ret_summary = ret_summary  # callable(FuncInfo, result Val) -> Val
        self.str_domains = str_domains or {}
        self.lenient = False  # True: an expression that cannot be normalised becomes an opaque fresh value (control-flow analyses)


_KNOWN_FUNCS = None


def _known_functions():
    global _KNOWN_FUNCS
    if _KNOWN_FUNCS is None:
        import json, os
        try:
            with open(os.path.join(os.path.dirname(os.path.abspath(__file__)), "floors.json")) as f:
                _KNOWN_FUNCS = set(json.load(f).get("known_functions", []))
        except (FileNotFoundError, ValueError):
            _KNOWN_FUNCS = set()
    return _KNOWN_FUNCS


_KNOWN_PARAMS = None


def new_parameters(func):
    """Parameters of func that did not exist when the checks were last validated (an injectable constant added with the old value
    as its default): callers of the existing API cannot pass them, so every analysis binds them to their default."""
    global _KNOWN_PARAMS
    if _KNOWN_PARAMS is None:
        import json, os
        try:
            with open(os.path.join(os.path.dirname(os.path.abspath(__file__)), "floors.json")) as f:
                _KNOWN_PARAMS = json.load(f).get("known_params", {})
        except (FileNotFoundError, ValueError):
            _KNOWN_PARAMS = {}
    old = _KNOWN_PARAMS.get(func.module.name + ":" + func.qualname)
    if old is None:
        return []
    return [p for p in list(func.params) + list(func.kwonly) if p not in old and p in func.defaults]


def is_new_function(func) -> bool:
    """func did not exist when the checks were last validated (an extracted helper): it is always inlined and, for every rule
    that asks 'who makes this call', it counts as part of its caller."""
    known = _known_functions()
    return bool(known) and (func.module.name + ":" + func.qualname) not in known


def called_from(rec, func) -> bool:
    """The call recorded in rec is made by func itself or by a helper extracted from it (see is_new_function)."""
    cf = rec.caller.func if rec.caller is not None else None
    return cf is func or (cf is not None and is_new_function(cf))


def in_function(rec_func, func) -> bool:
    """A loop / statement recorded in rec_func belongs to func: it is func itself or a helper extracted from it."""
    return rec_func is func or (rec_func is not None and is_new_function(rec_func))


class Event:
    def __init__(self, kind, data, where):
        self.kind = kind
        self.data = data
        self.where = where

    def __repr__(self):
        return "Event(%s, %s @%s)" % (self.kind, self.data, self.where)


class CallRec:
    def __init__(self, caller, node, callee, bound, inlined, result=None):
        self.caller = caller
        self.node = node
        self.callee = callee
        self.bound = bound
        self.inlined = inlined
        self.result = result
        self.in_loop = None

    @property
    def where(self):
        return self.caller.func.loc(self.node) if self.caller else "?"


class LoopRec:
    def __init__(self, node, frame):
        self.node = node
        self.func = frame.func
        self.kind = None
        self.guard = None
        self.init = {}
        self.transfer = {}
        self.post = {}
        self.k = None
        self.n = None
        self.series = {}
        self.entered = None


class Outcome:
    def __init__(self, kind, value, trace, ctx, exc=None):
        self.kind = kind  # 'return' | 'raise'
        self.value = value
        self.trace = trace
        self.exc = exc
        self.events = ctx.events
        self.calls = ctx.calls
        self.loops = ctx.loops
        self.facts = dict(ctx.facts)
        self.env = ctx.top_env
        self.assumptions = ctx.assumptions

    def __repr__(self):
        return "<Outcome %s %s | %s>" % (self.kind, self.value if self.kind == "return" else self.exc.exc_type,
                                         [(key_str(c), d) for c, d in self.trace])


class Ctx:
    def __init__(self, repo: Repo, cfg: Config, prefix):
        self.repo = repo
        self.cfg = cfg
        self.prefix = prefix
        self.trace = []
        self.pending = []
        self.facts = dict(cfg.facts)
        self.events: List[Event] = []
        self.calls: List[CallRec] = []
        self.loops: List[LoopRec] = []
        self.depth = 0
        self.bound_depth = 0
        self.top_env = None
        self.assumptions = set()
        self.loop_stack = []

    def decide(self, cond, where=None) -> bool:
        dry = getattr(self, "dry", None)
        if dry is not None:
            # trial execution of a loop body (see LoopMixin.invariant_state): decisions follow a private script, nothing is recorded
            j = dry["pos"]
            dry["pos"] += 1
            if j < len(dry["script"]):
                d = dry["script"][j]
            else:
                d = True
                dry["script"].append(True)
            self.refine(cond, d)
            return d
        # a condition this path has already decided (a stored test result used twice) keeps its outcome: no second, independent fork
        prev = self.decided(cond)
        if prev is not None:
            return prev
        i = len(self.trace)
        if i < len(self.prefix):
            d = self.prefix[i]
        else:
            d = True
            self.pending.append([x[1] for x in self.trace] + [False])
        self.trace.append((cond, d, where))
        self.refine(cond, d)
        return d

    def decided(self, cond) -> Optional[bool]:
        """Outcome this path already has for cond (the same test, its negation, or one implied by the numeric decisions so far)."""
        core, neg = cond, False
        while isinstance(core, tuple) and core and core[0] == "not" and len(core) == 2:
            core, neg = core[1], not neg
        if isinstance(core, tuple) and core and core[0] in ("eq", "ne", "lt", "le", "gt", "ge", "isnone", "streq"):
            for c, dprev, _ in self.trace:
                cneg = False
                while isinstance(c, tuple) and c and c[0] == "not" and len(c) == 2:
                    c, cneg = c[1], not cneg
                if c == core:
                    return dprev if cneg == neg else not dprev
            if core[0] in self._SIGNS and len(core) == 3 and isinstance(core[1], Rat) and isinstance(core[2], Rat):
                kr = self.known_rel(core[0], core[1] - core[2])
                if kr is not None:
                    return kr != neg
        return None

    def refine(self, cond, d):
        if not isinstance(cond, tuple) or not cond:
            return
        if cond[0] == "isnone":
            self.facts[cond[1]] = "none" if d else "notnone"
        elif cond[0] == "streq":
            if d:
                self.facts[cond[1]] = ("str", cond[2])
            else:
                prev = self.facts.get(cond[1])
                excl = set(prev[1]) if isinstance(prev, tuple) and prev[0] == "notstr" else set()
                excl.add(cond[2])
                dom = self.cfg.str_domains.get(cond[1])
                if dom and len(set(dom) - excl) == 1:
                    self.facts[cond[1]] = ("str", (set(dom) - excl).pop())
                else:
                    self.facts[cond[1]] = ("notstr", frozenset(excl))
        elif cond[0] == "not":
            self.refine(cond[1], not d)

    _SIGNS = {"eq": {0}, "ne": {-1, 1}, "lt": {-1}, "le": {-1, 0}, "gt": {1}, "ge": {0, 1}}

    def known_rel(self, op, d):
        """Truth of `d <op> 0` implied by the numeric decisions already taken on this path (None if open)."""
        allowed = {-1, 0, 1}
        seen = False
        for c, dec, _ in self.trace:
            neg = False
            while isinstance(c, tuple) and c and c[0] == "not":
                c, neg = c[1], not neg
            if not (isinstance(c, tuple) and len(c) == 3 and c[0] in self._SIGNS and isinstance(c[1], Rat) and isinstance(c[2], Rat)):
                continue
            dd = c[1] - c[2]
            s = set(self._SIGNS[c[0]])
            if dec == neg:
                s = {-1, 0, 1} - s
            if dd == d:
                pass
            elif dd == -d:
                s = {-x for x in s}
            else:
                continue
            allowed &= s
            seen = True
        if not seen:
            return None
        q = self._SIGNS[op]
        if allowed <= q:
            return True
        if not (allowed & q):
            return False
        return None

    def event(self, kind, data, where=None):
        self.events.append(Event(kind, data, where))


def signs_on_path(trace, d: Rat):
    """Allowed signs of the form d (a set within {-1, 0, 1}) given the numeric decisions (cond, taken) of a path."""
    allowed = {-1, 0, 1}
    S = Ctx._SIGNS
    for item in trace:
        c, dec = item[0], item[1]
        neg = False
        while isinstance(c, tuple) and c and c[0] == "not":
            c, neg = c[1], not neg
        if not (isinstance(c, tuple) and len(c) == 3 and c[0] in S and isinstance(c[1], Rat) and isinstance(c[2], Rat)):
            continue
        s = set(S[c[0]])
        if dec == neg:
            s = {-1, 0, 1} - s
        dd = c[1] - c[2]
        if dd == d:
            allowed &= s
        elif dd == -d:
            allowed &= {-x for x in s}
    return allowed


def path_rejects_nan(trace, atom) -> bool:
    """A comparison with NaN is never true: a path on which some comparison involving atom came out TRUE (as written: an even
    number of `not`s around it) cannot be taken when atom is NaN."""
    for item in trace:
        c, d = item[0], item[1]
        neg = False
        while isinstance(c, tuple) and c and c[0] == "not":
            c, neg = c[1], not neg
        if isinstance(c, tuple) and len(c) == 3 and c[0] in ("lt", "le", "gt", "ge", "eq") and isinstance(c[1], Rat) and isinstance(c[2], Rat) \
                and (atom.id in c[1].deps() or atom.id in c[2].deps()) and (d != neg):
            return True
    return False


def explore(repo: Repo, cfg: Config, runner: Callable[[Ctx], Val], max_paths=512) -> List[Outcome]:
    """Enumerate the syntactic paths of one evaluation."""
    pending = [[]]
    outs = []
    while pending:
        if len(outs) >= max_paths:
            raise PathLimit("more than %d paths" % max_paths)
        prefix = pending.pop()
        ctx = Ctx(repo, cfg, prefix)
        try:
            v = runner(ctx)
            out = Outcome("return", v, [(c, d) for c, d, _ in ctx.trace], ctx)
        except RaiseSignal as e:
            out = Outcome("raise", None, [(c, d) for c, d, _ in ctx.trace], ctx, exc=e)
        out.trace_where = [w for _, _, w in ctx.trace]
        outs.append(out)
        pending.extend(ctx.pending)
    return outs


# --------------------------------------------------------------------------
# keys of values (arguments of uninterpreted applications)
# --------------------------------------------------------------------------
def val_key(v: Val, ctx: Optional[Ctx] = None):
    if isinstance(v, Num):
        return v.r
    if v is NONE or isinstance(v, NoneV):
        return None
    if isinstance(v, StrV):
        return v.s if v.s is not None else ("str?", v.path)
    if isinstance(v, BoolV):
        return v.b if v.b is not None else ("bool?", v.cond)
    if isinstance(v, TupV):
        return ("tup",) + tuple(val_key(x, ctx) for x in v.items)
    if isinstance(v, ObjV):
        if v.path is not None:
            return ("obj", v.cls.name, v.path)
        if v.parent is not None:
            return ("objof", v.cls.name, Rat.atom(v.parent))
        return ("new", v.cls.name) + tuple((k, val_key(x, ctx)) for k, x in sorted(v.fields.items()))
    if isinstance(v, MaybeV):
        return ("maybe", v.path)
    if isinstance(v, ListV):
        if v.kind == "opaque":
            return ("list", v.path)
        if v.kind == "lit":
            return ("lit",) + tuple(val_key(x, ctx) for x in v.items)
        if v.kind == "rep":
            return ("rep", val_key(v.elem, ctx), v.n)
        if v.kind == "fam":
            return ("fam", Rat.atom(v.idx), v.lo, v.hi, val_key(v.elem, ctx))
        if v.kind == "series":
            return ("series", v.name)
        if v.kind == "slice":
            return ("slice", val_key(v.base, ctx), v.lo, v.hi)
        if v.kind == "concat":
            return ("concat",) + tuple(val_key(x, ctx) for x in v.parts)
        if v.kind == "range":
            return ("range", v.lo, v.hi)
    if isinstance(v, FuncV):
        if v.func is not None:
            return ("func", v.func.qualname)
        if v.kind == "lambda":
            return ("lambda", ast.unparse(v.node))
        return ("ext", v.dotted)
    if isinstance(v, ClassV):
        return ("class", v.cls.name)
    if isinstance(v, Opaque):
        return ("opaque", v.desc)
    if isinstance(v, DictV):
        return ("dict",) + tuple((k, val_key(x, ctx)) for k, x in sorted(v.items.items()))
    if isinstance(v, ModV):
        return ("mod", v.dotted or v.module.name)
    if isinstance(v, FrameV):
        return ("frame", v.source, v.name)
    if isinstance(v, JsonV):
        return ("json", v.name)
    raise Unmodelled("no key for value %r" % (v,))


PAIR_PATHS = set()   # paths of values that are 2-tuples (component pairs): [0]/[1] are roles there
NONNEG_FIELDS = {("Permeance", "value")}
POSITIVE_FIELDS = {("Component", "molecular_weight")}


def field_flags(cls_name, attr):
    flags = set()
    if (cls_name, attr) in NONNEG_FIELDS:
        flags |= {"nonneg"}
    if (cls_name, attr) in POSITIVE_FIELDS:
        flags |= {"nonneg", "pos"}
    if cls_name == "Composition" and attr == "p":
        flags |= {"nonneg", "comp_p"}
    return flags


def opaque_of(ty: Ty, path: str, ctx: Ctx, flags=()) -> Val:
    k = ty.kind
    if k in ("float", "int", "any"):
        fl = set(flags)
        if k == "int":
            fl.add("int")
        return Num(Rat.sym(path, fl))
    if k == "str":
        f = ctx.facts.get(path)
        if isinstance(f, tuple) and f[0] == "str":
            return StrV(f[1], path)
        return StrV(None, path)
    if k == "bool":
        f = ctx.facts.get(path)
        if isinstance(f, tuple) and f[0] == "bool":
            return BoolV(f[1])
        return BoolV(None, ("truth", path))
    if k == "none":
        return NONE
    if k == "cls":
        return ObjV(ty.cls, path=path)
    if k == "opt":
        f = ctx.facts.get(path)
        if f == "none":
            return NONE
        if f == "notnone":
            return opaque_of(ty.args[0], path, ctx, flags)
        return MaybeV(path, ty.args[0])
    if k == "list":
        return ListV("opaque", path=path, ty=ty.args[0] if ty.args else ANY)
    if k == "tuple":
        if len(ty.args) == 2:
            PAIR_PATHS.add(path)
        return TupV([opaque_of(t, "%s[%d]" % (path, i), ctx) for i, t in enumerate(ty.args)])
    if k == "frame":
        return FrameV("read", path)
    if k in ("path", "dict"):
        return Opaque(path)
    raise Unmodelled("no opaque value for type %r" % ty)


def opaque_result(ty: Ty, atom, ctx: Ctx) -> Val:
    """Typed view of an uninterpreted application's result."""
    k = ty.kind
    if k in ("float", "int", "any"):
        return Num(Rat.atom(atom))
    if k == "cls":
        return ObjV(ty.cls, parent=atom)
    if k == "tuple":
        out = []
        for i, t in enumerate(ty.args):
            a = poly.T.app("fn", "idx", (Rat.atom(atom), i), meta={"pair": len(ty.args) == 2})
            out.append(opaque_result(t, a, ctx))
        return TupV(out)
    if k == "opt":
        return opaque_result(ty.args[0], atom, ctx)
    if k == "list":
        return ListV("opaque", path=poly.atom_str(atom), ty=ty.args[0] if ty.args else ANY, parent=atom)
    if k == "str":
        return StrV(None, poly.atom_str(atom))
    if k == "none":
        return NONE
    if k == "bool":
        return BoolV(None, ("truth", poly.atom_str(atom)))
    if k in ("path", "dict"):
        return Opaque(poly.atom_str(atom))
    if k == "frame":
        return FrameV("read", poly.atom_str(atom))
    raise Unmodelled("no result view for type %r" % ty)
