"""Abstract values of the normal-form evaluator."""
from __future__ import annotations

from typing import Dict, List, Optional, Any

from .poly import Rat, rat, T, key_str


class Val:
    pass


class Num(Val):
    """Numeric normal form. `addends` (optional) keeps the top-level sum apart so
    that linear operations (d/dx, zero tests) can work term by term."""
    __slots__ = ("_r", "addends")

    def __init__(self, r=None, addends=None):
        self._r = rat(r) if r is not None else None
        self.addends = addends

    @property
    def r(self):
        if self._r is None:
            acc = Rat.const(0)
            for a in self.addends:
                acc = acc + a
            self._r = acc
        return self._r

    def __repr__(self):
        return "Num(%s)" % self.r


class NoneV(Val):
    def __repr__(self):
        return "None"


NONE = NoneV()


class StrV(Val):
    __slots__ = ("s", "path")

    def __init__(self, s: Optional[str], path: Optional[str] = None):
        self.s = s
        self.path = path

    def __repr__(self):
        return repr(self.s) if self.s is not None else "Str?<%s>" % self.path


class BoolV(Val):
    __slots__ = ("b", "cond")

    def __init__(self, b: Optional[bool], cond=None):
        self.b = b
        self.cond = cond

    def __repr__(self):
        return str(self.b) if self.b is not None else "Bool?<%s>" % (key_str(self.cond),)


class TupV(Val):
    __slots__ = ("items", "is_array")

    def __init__(self, items, is_array=False):
        self.items = list(items)
        self.is_array = is_array

    def __repr__(self):
        return "(%s)" % ", ".join(map(repr, self.items))


class ListV(Val):
    """kind:
    lit    items
    rep    elem, n
    fam    idx (Atom), lo, hi, elem   -- [elem(idx) for idx in range(lo, hi)]
    opaque path, ty
    series name, init (list), per_iter (list of Val appended per iteration, as fn of k), k (Atom), n (Rat), popped
    slice  base, lo, hi
    """

    def __init__(self, kind, **kw):
        self.kind = kind
        self.__dict__.update(kw)

    def __repr__(self):
        d = {k: v for k, v in self.__dict__.items() if k != "kind"}
        return "List<%s %s>" % (self.kind, d)


class DictV(Val):
    def __init__(self, items: Dict[str, Val]):
        self.items = items


class ObjV(Val):
    """Instance of a repo class. Constructed objects carry a field map; opaque
    ones a path (or a parent atom) from which fields are created on demand."""

    def __init__(self, cls, fields=None, path=None, parent=None):
        self.cls = cls
        self.fields: Dict[str, Val] = fields if fields is not None else {}
        self.path = path
        self.parent = parent  # Atom of a ucall result this object stands for
        self.constructed = path is None and parent is None

    def __repr__(self):
        if self.path:
            return "<%s %s>" % (self.cls.name, self.path)
        if self.parent is not None:
            return "<%s of %s>" % (self.cls.name, self.parent)
        return "%s(%s)" % (self.cls.name, ", ".join("%s=%r" % kv for kv in self.fields.items()))


class MaybeV(Val):
    """Optional value whose None-ness is not known yet."""

    def __init__(self, path, ty):
        self.path = path
        self.ty = ty

    def __repr__(self):
        return "Maybe<%s>" % self.path


class FuncV(Val):
    def __init__(self, kind, func=None, self_val=None, node=None, env=None, frame=None, dotted=None):
        self.kind = kind  # 'repo' | 'lambda' | 'ext'
        self.func = func
        self.self_val = self_val
        self.node = node
        self.env = env
        self.frame = frame
        self.dotted = dotted

    def __repr__(self):
        return "<fn %s>" % (self.func.qualname if self.func else (self.dotted or "lambda"))


class ClassV(Val):
    def __init__(self, cls):
        self.cls = cls

    def __repr__(self):
        return "<class %s>" % self.cls.name


class ModV(Val):
    def __init__(self, module=None, dotted=None):
        self.module = module
        self.dotted = dotted

    def __repr__(self):
        return "<module %s>" % (self.module.name if self.module else self.dotted)


class Opaque(Val):
    """A value the evaluator does not interpret (strings built at run time,
    time stamps, paths...).  Numeric use of it is an analysis error."""

    def __init__(self, desc, ambient=False):
        self.desc = desc
        self.ambient = ambient

    def __repr__(self):
        return "Opaque<%s>" % self.desc


def famify(v):
    """View of a list built by an explicit `for ...: xs.append(e)` loop (empty start, one append per iteration, no pop) as the
    indexed family [e(i) for i in range(lo, hi)] a comprehension would have produced; other values are returned unchanged."""
    if isinstance(v, ListV) and v.kind == "series" and getattr(v, "closed", False) and not v.init and len(v.per_iter) == 1 and not v.popped:
        return ListV("fam", idx=v.k, lo=v.lo, hi=v.lo + v.n, elem=v.per_iter[0])
    return v


class FrameV(Val):
    """A pandas DataFrame: either built from a mapping (columns known) or read from a file (columns are symbolic)."""

    def __init__(self, source, name, columns=None):
        self.source = source      # 'built' | 'read'
        self.name = name
        self.columns = columns if columns is not None else {}
        self.scalar = set()       # columns assigned from a scalar (broadcast)
        self.order = None

    def __repr__(self):
        return "Frame<%s %s %s>" % (self.source, self.name, sorted(self.columns))


class JsonV(Val):
    """The object returned by json.load: a mapping whose values are symbolic."""

    def __init__(self, name):
        self.name = name

    def __repr__(self):
        return "Json<%s>" % self.name
