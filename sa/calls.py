"""Calls: repository functions (inlined or uninterpreted), constructors, externals."""
from __future__ import annotations

import ast
from fractions import Fraction

from . import poly
from .poly import Rat, rat, Unmodelled, mk_fn, mk_exp, mk_log, mk_pow, mk_ite, key_str, key_equiv
from .repo import ClassInfo, FuncInfo, Const, External, Module, Ty, ANY, parse_type
from .values import *
from .symeval import RaiseSignal, ReturnSignal, CallRec, val_key, opaque_of, opaque_result
from .interp import Frame, bind_args, BUILTIN_EXC

PURE_EXTERNALS = {
    "scipy.optimize.minimize", "numpy.linalg.lstsq", "numpy.vstack", "numpy.ones", "numpy.linspace",
    "numpy.floor", "numpy.log10", "numpy.zeros", "numpy.meshgrid", "numpy.round", "numpy.mean",
}


def canon_bound(idx, body: Rat):
    """Alpha-normalise the bound index of a SUM/argmin/MAX atom: rename it to #s<d>, d = nesting depth."""
    d = 0
    for i in body.deps():
        n = poly.T.get(i).name if poly.T.get(i).kind == "sym" else ""
        if n.startswith("#s") and n[2:].isdigit():
            d = max(d, int(n[2:]) + 1)
    new = poly.T.sym("#s%d" % d, ("int", "nonneg", "bound"))
    if new.id == idx.id:
        return idx, body
    return new, poly.subst(body, {idx.id: Rat.atom(new)})


class CallMixin:
    def ex_Call(self, node, frame):
        fv = self.eval(node.func, frame)
        args = []
        for a in node.args:
            if isinstance(a, ast.Starred):
                v = self.eval(a.value, frame)
                items = self.as_items(v, frame, node)
                if items is None:
                    raise Unmodelled("star-argument at %s" % frame.loc(node))
                args.extend(items)
            else:
                args.append(self.eval(a, frame))
        kwargs = {}
        for kw in node.keywords:
            if kw.arg is None:
                dv = self.eval(kw.value, frame)
                if isinstance(dv, DictV):
                    kwargs.update(dv.items)
                    continue
                raise Unmodelled("**kwargs call with a non-literal mapping at %s" % frame.loc(node))
            kwargs[kw.arg] = self.eval(kw.value, frame)
        return self.call_function(fv, args, kwargs, frame, node)

    def call_function(self, fv, args, kwargs, frame, node, force_inline=False):
        if isinstance(fv, MaybeV):
            fv = self.force(fv, frame, node)
        if isinstance(fv, ClassV):
            return self.construct(fv.cls, args, kwargs, frame, node)
        if isinstance(fv, FuncV):
            if fv.kind == "repo":
                return self.call_repo(fv.func, fv.self_val, args, kwargs, frame, node, force_inline)
            if fv.kind == "lambda":
                return self.call_lambda(fv, args, kwargs, frame, node)
            if fv.kind == "ext":
                return self.call_ext(fv.dotted, fv.self_val, args, kwargs, frame, node)
        if isinstance(fv, ObjV) and "__call__" in fv.cls.methods:
            return self.call_repo(fv.cls.methods["__call__"], fv, args, kwargs, frame, node, force_inline)
        if isinstance(fv, Opaque):
            amb = fv.ambient or any(isinstance(a, Opaque) and a.ambient for a in args)
            ad = ", ".join((a.desc if isinstance(a, Opaque) else key_str(val_key(a))) for a in args)
            self.ctx.event("opaque-call", (fv.desc, list(args), dict(kwargs)), frame.loc(node))
            return Opaque("%s(%s)" % (fv.desc, ad), ambient=amb)
        if isinstance(fv, ModV) and fv.dotted:
            return self.call_ext(fv.dotted, None, args, kwargs, frame, node)
        if isinstance(fv, Num) and fv.r.single_atom() is not None:
            # method of an uninterpreted (library) result, e.g. numpy.arange(...).tolist(): an uninterpreted pure function of it
            keys = (fv.r,) + tuple(val_key(self.resolve_maybe(a)) for a in args) + tuple((k, val_key(self.resolve_maybe(v))) for k, v in sorted(kwargs.items()))
            return Num(Rat.atom(poly.T.app("fn", "call", keys)))
        raise Unmodelled("call of %r at %s" % (fv, frame.loc(node)))

    # -- lambdas and nested defs --------------------------------------------
    def call_lambda(self, fv: FuncV, args, kwargs, frame, node):
        n = fv.node
        a = n.args
        names = [p.arg for p in a.posonlyargs + a.args]
        env = {}
        for p, v in zip(names, args):
            env[p] = v
        for k, v in kwargs.items():
            env[k] = v
        nd = len(a.defaults)
        dvals = getattr(fv, "defaults", None)
        for i, (p, d) in enumerate(zip(names[len(names) - nd:], a.defaults)):
            if p not in env:
                env[p] = dvals[i] if dvals is not None else self.eval(d, fv.frame)
        if a.vararg is not None:
            env[a.vararg.arg] = TupV(list(args[len(names):]))
        for kwo, kd in zip(a.kwonlyargs, a.kw_defaults):
            if kwo.arg not in env and kd is not None:
                env[kwo.arg] = self.eval(kd, fv.frame)
        missing = [p for p in names if p not in env]
        if missing:
            raise RaiseSignal("TypeError", "lambda missing %s" % missing, node, frame)
        f2 = Frame(fv.frame.func, fv.frame.module, env, fv.frame.cls, parent=fv.frame)
        if isinstance(n, ast.Lambda):
            return self.eval(n.body, f2)
        try:
            self.exec_block(n.body, f2)
        except ReturnSignal as r:
            return r.value
        return NONE

    # -- repository functions ---------------------------------------------------
    def call_repo(self, func: FuncInfo, self_val, args, kwargs, frame, node, force_inline=False):
        if func.is_staticmethod:
            self_val = None
        try:
            bound, defaulted = bind_args(func, args, kwargs, self_val)
        except RaiseSignal as e:
            e.node, e.where = node, frame.loc(node)
            raise
        for p in defaulted:
            dv = self.eval(func.defaults[p], Frame(None, func.module, {}, func.cls))
            bound[p] = dv
        inline = force_inline or self.cfg.inline(func)
        rec = CallRec(frame, node, func, dict(bound), inline)
        rec.defaulted = defaulted
        rec.in_loop = self.ctx.loop_stack[-1] if self.ctx.loop_stack else None
        self.ctx.calls.append(rec)
        if inline and self.ctx.depth < self.cfg.max_depth + (20 if force_inline else 0):
            r = self.run_function(func, bound)
            rec.result = r
            return r
        r = self.uninterpreted(func, bound, frame, node)
        rec.result = r
        return r

    def may_raise(self, func: FuncInfo, depth=0):
        """Names of the exception classes func can raise by explicit `raise` statements (its own and, two levels down, those
        of the repository functions it calls by name)."""
        cache = self.__dict__.setdefault("_may_raise", {})
        k = func.module.name + ":" + func.qualname
        if k in cache:
            return cache[k]
        cache[k] = set()
        out = set()
        for n in ast.walk(func.node):
            if isinstance(n, ast.Raise) and n.exc is not None:
                e = n.exc.func if isinstance(n.exc, ast.Call) else n.exc
                out.add(ast.unparse(e).split(".")[-1])
            elif isinstance(n, ast.Call) and depth < 2:
                name = n.func.attr if isinstance(n.func, ast.Attribute) else (n.func.id if isinstance(n.func, ast.Name) else None)
                if name:
                    for g in self.repo.all_functions():
                        if g.name == name and g is not func:
                            out |= self.may_raise(g, depth + 1)
                            break
        cache[k] = out
        return out

    def uninterpreted(self, func: FuncInfo, bound, frame, node):
        # a callee that is kept uninterpreted may still reject its arguments: inside a try block that would catch the
        # rejection, the path on which it does is explored too (otherwise a handler that swallows it would never be seen)
        for caught in reversed(getattr(self.ctx, "try_stack", []) or []):
            if not caught:
                continue
            kinds = self.may_raise(func)
            hit = [c for c in caught if c in kinds or (c in ("*", "Exception", "BaseException") and kinds)]
            if hit:
                exc = hit[0] if hit[0] not in ("*", "Exception", "BaseException") else sorted(kinds)[0]
                if self.ctx.decide(("raises", func.qualname, exc), frame.loc(node)):
                    raise RaiseSignal(exc, "raised by %s" % func.qualname, node, frame)
            break
        keys = []
        for p in func.params + func.kwonly:
            v = bound.get(p)
            if self.cfg.canon_arg is not None:
                v = self.cfg.canon_arg(self, func, p, v, frame, node)
            keys.append(val_key(self.resolve_maybe(v)) if v is not None else None)
        ty = parse_type(self.repo, func.module, func.returns, func.cls)
        atom = poly.T.app("ucall", func.qualname, tuple(keys), meta={"func": func})
        res = opaque_result(ty, atom, self.ctx)
        if self.cfg.ret_summary is not None:
            res = self.cfg.ret_summary(self, func, res, bound)
        return res

    # -- constructors -------------------------------------------------------------
    def construct(self, cls: ClassInfo, args, kwargs, frame, node):
        if not cls.is_attrs:
            obj = ObjV(cls, {})
            init = cls.methods.get("__init__")
            if init is None:
                if args or kwargs:
                    raise RaiseSignal("TypeError", "%s() takes no arguments" % cls.name, node, frame)
                return obj
            # a plain class: the object is what its (own or inherited) __init__ makes of it
            self.ctx.event("construct", (cls.name, obj), frame.loc(node))
            self.call_repo(init, obj, args, kwargs, frame, node, force_inline=True)
            return obj
        names = [f.name for f in cls.fields]
        if len(args) > len(names):
            raise RaiseSignal("TypeError", "%s() takes %d positional arguments but %d were given"
                              % (cls.name, len(names), len(args)), node, frame)
        vals = {}
        for n, a in zip(names, args):
            vals[n] = a
        for k, v in kwargs.items():
            if k not in names:
                raise RaiseSignal("TypeError", "%s() got an unexpected keyword argument %r" % (cls.name, k), node, frame)
            if k in vals:
                raise RaiseSignal("TypeError", "%s() got multiple values for argument %r" % (cls.name, k), node, frame)
            vals[k] = v
        obj = ObjV(cls, {})
        cframe = Frame(None, cls.module, {}, cls)
        for f in cls.fields:
            if f.name in vals:
                v = vals[f.name]
            elif f.default is not None:
                v = self.eval(f.default, cframe)
            else:
                raise RaiseSignal("TypeError", "%s() missing required argument %r" % (cls.name, f.name), node, frame)
            if f.converter is not None:
                cv = self.eval(f.converter, cframe)
                v = self.call_merged(cv, [v], frame, node)
            obj.fields[f.name] = v
        for f in cls.fields:
            if f.validator is not None:
                self.ctx.event("validated", (cls.name, f.name, obj.fields[f.name], ast.unparse(f.validator)), frame.loc(node))
        self.ctx.event("construct", (cls.name, obj), frame.loc(node))
        rec = CallRec(frame, node, cls, dict(obj.fields), False, obj)
        rec.in_loop = self.ctx.loop_stack[-1] if self.ctx.loop_stack else None
        rec.defaulted = set(n for n in names if n not in vals)
        self.ctx.calls.append(rec)
        if "__attrs_post_init__" in cls.methods and self.cfg.post_init(cls):
            self.run_function(cls.methods["__attrs_post_init__"], {"self": obj})
        return obj

    def call_merged(self, fv, args, frame, node):
        """Call a small pure function (attrs converter) and merge a two-way numeric branch into one ite form, so that a
        converter written with an `if` statement is the same value as one written with a conditional expression."""
        from .symeval import Ctx, explore
        if not (isinstance(fv, FuncV) and fv.kind == "repo"):
            return self.call_function(fv, args, {}, frame, node, force_inline=True)
        outer = self

        def runner(ctx):
            from .evaluator import Evaluator
            ev = Evaluator(ctx)
            ctx.facts.update(outer.ctx.facts)
            ctx.bound_depth = outer.ctx.bound_depth
            return ev.call_function(fv, list(args), {}, frame, node, force_inline=True)
        try:
            outs = explore(self.repo, self.cfg, runner, max_paths=8)
        except Exception:
            return self.call_function(fv, args, {}, frame, node, force_inline=True)
        rets = [o for o in outs if o.kind == "return"]
        if len(outs) == 1 and rets:
            return rets[0].value
        if len(outs) == 2 and len(rets) == 2 and all(len(o.trace) == 1 for o in outs) and all(isinstance(o.value, Num) for o in outs):
            (c1, d1), (c2, d2) = outs[0].trace[0], outs[1].trace[0]
            if isinstance(c1, tuple) and len(c1) == 3 and isinstance(c1[1], Rat) and poly.key_equiv(c1, c2) and d1 != d2:
                a, b = (outs[0].value.r, outs[1].value.r) if d1 else (outs[1].value.r, outs[0].value.r)
                return Num(mk_ite(c1, a, b))
        return self.call_function(fv, args, {}, frame, node, force_inline=True)

    # -- externals ----------------------------------------------------------------
    def sum_of(self, v, frame, node) -> Val:
        v = self.force(v, frame, node)
        items = self.as_items(v, frame, node)
        if items is not None:
            acc = Num(0)
            for x in items:
                acc = self.binop(ast.Add(), acc, x, frame, node)
            return acc
        if isinstance(v, Num):
            v = self.num_as_list(v)
        if isinstance(v, ListV):
            if v.kind == "rep" and isinstance(v.elem, Num):
                return Num(v.elem.r * v.n)
            if v.kind != "fam":
                idx, elem = self.generic_elem(v, frame, node)
                v = ListV("fam", idx=idx, lo=Rat.const(0), hi=self.length(v, frame, node), elem=elem)
            if not isinstance(v.elem, Num):
                raise Unmodelled("sum of non-numeric family at %s" % frame.loc(node))
            if not poly.mentions(v.elem.r, v.idx):
                return Num(v.elem.r * (v.hi - v.lo))
            ci, cb = canon_bound(v.idx, v.elem.r)
            return Num(Rat.atom(poly.T.app("fn", "SUM", (Rat.atom(ci), v.lo, v.hi, cb))))
        raise Unmodelled("sum of %r at %s" % (v, frame.loc(node)))

    def call_ext(self, dotted, self_val, args, kwargs, frame, node):
        d = dotted
        if d.startswith("builtins.") and d[9:] in BUILTIN_EXC:
            return Opaque("exception")
        if d.startswith("typing."):
            return Opaque("typing")
        # ---- list methods
        if d.startswith("list."):
            return self.list_method(d[5:], self_val, args, kwargs, frame, node)
        if d.startswith("dict."):
            m = d[5:]
            if m == "get" and args:
                key = self.const_key(args[0], frame, node)
                if key is not None:
                    return self_val.items.get(key, args[1] if len(args) > 1 else NONE)
            if m in ("keys", "values", "items"):
                vals = {"keys": [StrV(k) for k in self_val.items], "values": list(self_val.items.values()),
                        "items": [TupV([StrV(k), v]) for k, v in self_val.items.items()]}[m]
                return ListV("lit", items=vals)
            if m == "update":
                new = dict(kwargs)
                if args:
                    a0 = self.force(args[0], frame, node)
                    if isinstance(a0, DictV):
                        new = dict(a0.items, **new)
                    else:
                        its = self.as_items(a0, frame, node)
                        if its is None:
                            raise Unmodelled("dict.update of a collection of unknown length at %s" % frame.loc(node))
                        pairs = {}
                        for it in its:
                            kv = self.as_items(it, frame, node)
                            k = kv[0] if kv and len(kv) == 2 else None
                            if isinstance(k, StrV) and k.s is None:
                                k = self.concretize_str(k, frame, node) or k
                            if not (isinstance(k, StrV) and k.s is not None):
                                raise Unmodelled("dict.update with a non-constant key at %s" % frame.loc(node))
                            pairs[k.s] = kv[1]
                        new = dict(pairs, **new)
                self.ctx.event("item-store", (val_key(self_val), "update", None), frame.loc(node))
                self_val.items.update(new)
                return NONE
            if m == "copy":
                return DictV(dict(self_val.items))
            if m == "setdefault" and isinstance(args[0], StrV) and args[0].s is not None:
                return self_val.items.setdefault(args[0].s, args[1] if len(args) > 1 else NONE)
            raise Unmodelled("dict method %s at %s" % (m, frame.loc(node)))
        if d.startswith("str."):
            return Opaque("str." + d[4:])
        unary = {"numpy.exp": mk_exp, "numpy.log": mk_log, "math.exp": mk_exp, "math.log": mk_log,
                 "numpy.sqrt": lambda r: mk_fn("sqrt", r), "math.sqrt": lambda r: mk_fn("sqrt", r),
                 "numpy.abs": lambda r: mk_fn("abs", r), "builtins.abs": lambda r: mk_fn("abs", r),
                 "numpy.absolute": lambda r: mk_fn("abs", r), "math.fabs": lambda r: mk_fn("abs", r),
                 "numpy.log10": lambda r: mk_log(r) / mk_log(Rat.const(10)), "math.log10": lambda r: mk_log(r) / mk_log(Rat.const(10)),
                 "numpy.log2": lambda r: mk_log(r) / mk_log(Rat.const(2)), "math.log2": lambda r: mk_log(r) / mk_log(Rat.const(2)),
                 "numpy.square": lambda r: r * r, "numpy.reciprocal": lambda r: Rat.const(1) / r, "numpy.negative": lambda r: -r,
                 "numpy.cbrt": lambda r: mk_pow(r, Rat.const(1) / 3), "operator.neg": lambda r: -r, "operator.abs": lambda r: mk_fn("abs", r),
                 "numpy.floor": lambda r: mk_fn("floor", r), "math.floor": lambda r: mk_fn("floor", r),
                 "builtins.float": lambda r: r, "numpy.float64": lambda r: r,
                 "builtins.int": lambda r: r if r.as_int() is not None or _is_int(r) else mk_fn("int", r),
                 "builtins.round": lambda r: r if r.as_int() is not None else mk_fn("round", r)}
        if d in unary and len(args) == 1 and not kwargs:
            a0 = self.force(args[0], frame, node)
            if isinstance(a0, (StrV, Opaque)):
                return Opaque(d, ambient=getattr(a0, "ambient", False))
            if d in ("numpy.exp", "math.exp") and isinstance(a0, Num) and a0.addends and len(a0.addends) > 1:
                res = mk_exp(a0.r)
                sa = res.single_atom()
                if sa is not None:
                    sa.meta["addends"] = list(a0.addends)
                return Num(res)
            return self.map_num(a0, unary[d], frame, node)
        binary = {"numpy.multiply": ast.Mult(), "numpy.divide": ast.Div(), "numpy.subtract": ast.Sub(), "numpy.true_divide": ast.Div(),
                  "numpy.add": ast.Add(), "numpy.power": ast.Pow(), "builtins.pow": ast.Pow(), "math.pow": ast.Pow(), "numpy.float_power": ast.Pow(),
                  "operator.mul": ast.Mult(), "operator.truediv": ast.Div(), "operator.sub": ast.Sub(), "operator.add": ast.Add(), "operator.pow": ast.Pow()}
        if d in binary and len(args) == 2:
            return self.binop(binary[d], args[0], args[1], frame, node)
        if d in ("math.log", "numpy.log") and len(args) == 2 and not kwargs:
            a0, a1 = self.force(args[0], frame, node), self.force(args[1], frame, node)
            if isinstance(a0, Num) and isinstance(a1, Num):
                return Num(mk_log(a0.r) / mk_log(a1.r))
        if d == "numpy.hypot" and len(args) == 2:
            a0, a1 = self.force(args[0], frame, node), self.force(args[1], frame, node)
            if isinstance(a0, Num) and isinstance(a1, Num):
                return Num(mk_fn("sqrt", a0.r * a0.r + a1.r * a1.r))
        if d in ("numpy.mean", "numpy.average", "statistics.mean", "statistics.fmean") and len(args) == 1 and not kwargs:
            a0 = self.force(args[0], frame, node)
            if isinstance(a0, (ListV, TupV)):
                tot = self.sum_of(a0, frame, node)
                n = self.length(a0, frame, node)
                if isinstance(tot, Num):
                    return Num(tot.r / n)
        if d in ("numpy.prod", "math.prod") and len(args) == 1 and not kwargs:
            items = self.as_items(self.force(args[0], frame, node), frame, node)
            if items is not None and all(isinstance(x, Num) for x in items):
                r = Rat.const(1)
                for x in items:
                    r = r * x.r
                return Num(r)
        if d in ("numpy.dot", "numpy.inner", "numpy.vdot") and len(args) == 2 and not kwargs:
            la = self.as_items(self.force(args[0], frame, node), frame, node)
            lb = self.as_items(self.force(args[1], frame, node), frame, node)
            if la is not None and lb is not None and len(la) == len(lb) and all(isinstance(x, Num) for x in la + lb):
                r = Rat.const(0)
                for x, y in zip(la, lb):
                    r = r + x.r * y.r
                return Num(r)
        if d in ("builtins.sum", "numpy.sum", "math.fsum", "numpy.add.reduce"):
            r = self.sum_of(args[0], frame, node)
            if len(args) > 1:
                r = self.binop(ast.Add(), r, args[1], frame, node)
            return r
        if d == "builtins.len":
            return Num(self.length(args[0], frame, node))
        if d == "builtins.range":
            if len(args) == 1:
                lo, hi = Rat.const(0), self.force(args[0], frame, node).r
            elif len(args) == 2:
                lo, hi = self.force(args[0], frame, node).r, self.force(args[1], frame, node).r
            else:
                raise Unmodelled("range with step at %s" % frame.loc(node))
            return ListV("range", lo=lo, hi=hi)
        if d in ("builtins.max", "builtins.min", "numpy.maximum", "numpy.minimum"):
            name = "max" if "max" in d else "min"
            if "key" in kwargs:
                if len(args) != 1:
                    raise Unmodelled("min/max with key and several arguments at %s" % frame.loc(node))
                lo, hi, idx, elem = self.iter_family(self.force(args[0], frame, node), frame, node)
                try:
                    kv = self.call_function(kwargs["key"], [elem], {}, frame, node)
                finally:
                    self.release_bound()
                if not isinstance(kv, Num):
                    raise Unmodelled("non-numeric key in min/max at %s" % frame.loc(node))
                ci, ck_ = canon_bound(idx, kv.r)
                a = poly.T.app("fn", "arg" + name, (Rat.atom(ci), lo, hi, ck_), flags=("int", "nonneg"))
                if isinstance(elem, Num) and elem.r == Rat.atom(idx) and lo.is_zero():
                    return Num(Rat.atom(a))
                return self.subst_val(elem, {idx.id: Rat.atom(a)})
            vals = args
            if len(args) == 1:
                a0 = self.force(args[0], frame, node)
                items = self.as_items(a0, frame, node)
                if items is None:
                    if isinstance(a0, ListV):
                        idx, elem = self.generic_elem(a0, frame, node)
                        if isinstance(elem, Num):
                            return Num(Rat.atom(poly.T.app("fn", name.upper(), (Rat.atom(idx), self.length(a0, frame, node), elem.r))))
                    return Opaque(name + "(" + key_str(val_key(a0)) + ")")
                vals = items
            nums = [self.force(v, frame, node) for v in vals]
            if not all(isinstance(v, Num) for v in nums):
                raise Unmodelled("max/min of non-numeric values at %s" % frame.loc(node))
            return Num(mk_fn(name, *[v.r for v in nums]))
        if d in ("builtins.list", "builtins.tuple", "numpy.array", "numpy.asarray"):
            if not args:
                return ListV("lit", items=[])
            a0 = self.force(args[0], frame, node)
            if isinstance(a0, ListV) and a0.kind == "range":
                idx = self.fresh_bound()
                self.release_bound()
                return ListV("fam", idx=idx, lo=a0.lo, hi=a0.hi, elem=Num(Rat.atom(idx)))
            if d.startswith("numpy") and isinstance(a0, (TupV, ListV)) and self.as_items(a0, frame, node) is not None:
                return TupV(list(self.as_items(a0, frame, node)), is_array=True)
            if isinstance(a0, ListV) and a0.kind == "lit":
                return TupV(list(a0.items)) if d == "builtins.tuple" else ListV("lit", items=list(a0.items))
            if isinstance(a0, TupV):
                return ListV("lit", items=list(a0.items)) if d == "builtins.list" else a0
            if isinstance(a0, Num):
                return self.num_as_list(a0)
            if d == "builtins.list" and isinstance(a0, ListV) and a0.kind in ("opaque", "fam", "rep", "concat", "slice"):
                c = ListV(a0.kind)          # list(xs) is a NEW list with the same elements: growing it must not grow xs
                c.__dict__.update(a0.__dict__)
                if getattr(a0, "appended", None) is not None:
                    c.appended = list(a0.appended)
                return c
            return a0
        if d == "itertools.product" and args and not kwargs:
            cols = [self.as_items(self.force(a, frame, node), frame, node) for a in args]
            if all(c is not None for c in cols):
                import itertools as _it
                total = 1
                for c in cols:
                    total *= max(len(c), 1)
                if total <= 64:
                    return ListV("lit", items=[TupV(list(t)) for t in _it.product(*cols)])
            return ListV("opaque", path="product(%s)" % ", ".join(key_str(val_key(self.force(a, frame, node))) for a in args), ty=Ty("tuple", [ANY] * len(args)),
                         factors=[self.force(a, frame, node) for a in args])
        if d in ("builtins.enumerate", "builtins.zip"):
            seqs = [self.force(a, frame, node) for a in args]
            if all(self.as_items(q, frame, node) is not None for q in seqs if not (isinstance(q, ObjV) and not getattr(q.cls, "is_namedtuple", False))) and not any((isinstance(q, ObjV) and not getattr(q.cls, "is_namedtuple", False)) for q in seqs):
                cols = [self.as_items(q, frame, node) for q in seqs]
                nmin = min(len(c) for c in cols)
                if d.endswith("enumerate"):
                    start = kwargs.get("start", args[1] if len(args) > 1 else Num(0))
                    return ListV("lit", items=[TupV([Num(Rat.const(i) + start.r), cols[0][i]]) for i in range(len(cols[0]))])
                return ListV("lit", items=[TupV([c[i] for c in cols]) for i in range(nmin)])
            idx = self.fresh_bound()
            try:
                elems = []
                n = None
                for q in (seqs[:1] if d.endswith("enumerate") else seqs):
                    elems.append(self.index(q, Num(Rat.atom(idx)), frame, node) if not isinstance(q, ObjV) else
                                 self.call_function(FuncV("repo", func=q.cls.methods["__getitem__"], self_val=q), [Num(Rat.atom(idx))], {}, frame, node, force_inline=True))
                    ln = self.length(q, frame, node)
                    n = ln if n is None else n   # zip of equally long series (the usual case); the first length is used
            finally:
                self.release_bound()
            if d.endswith("enumerate"):
                start = kwargs.get("start", args[1] if len(args) > 1 else Num(0))
                return ListV("fam", idx=idx, lo=Rat.const(0), hi=n, elem=TupV([Num(Rat.atom(idx) + start.r), elems[0]]))
            return ListV("fam", idx=idx, lo=Rat.const(0), hi=n, elem=TupV(elems))
        if d in ("record._replace", "record._asdict"):
            cur = {f.name: self.obj_attr(self_val, f.name, frame, node) for f in self_val.cls.fields}
            if d.endswith("_asdict"):
                return DictV(cur)
            cur.update(kwargs)
            return self.construct(self_val.cls, [], cur, frame, node)
        if d in ("builtins.all", "builtins.any") and len(args) == 1:
            # all(...) / any(...) over a literal collection of conditions: the short-circuit chain it stands for
            a0 = self.force(args[0], frame, node)
            items = self.as_items(a0, frame, node)
            if items is None and isinstance(a0, ListV) and a0.kind == "lazy":
                items = None
            if items is not None:
                want = d.endswith("all")
                for x in items:
                    t = self.truth(x, frame, node)
                    if t != want:
                        return BoolV(not want)
                return BoolV(want)
            return BoolV(None, (d[9:], key_str(val_key(a0))))
        if d == "builtins.dict":
            items = {}
            if args:
                a0 = self.force(args[0], frame, node)
                if isinstance(a0, DictV):
                    items.update(a0.items)
                else:
                    its = self.as_items(a0, frame, node)
                    if its is None:
                        raise Unmodelled("dict() of a non-literal at %s" % frame.loc(node))
                    for it in its:
                        kv = self.as_items(it, frame, node)
                        if not (kv and len(kv) == 2 and isinstance(kv[0], StrV) and kv[0].s is not None):
                            raise Unmodelled("dict() of non-constant keys at %s" % frame.loc(node))
                        items[kv[0].s] = kv[1]
            items.update(kwargs)
            return DictV(items)
        if d in ("builtins.set", "builtins.frozenset"):
            a0 = self.force(args[0], frame, node) if args else ListV("lit", items=[])
            if isinstance(a0, ListV) and a0.kind == "lit" and all(isinstance(x, (Num, StrV)) for x in a0.items) \
                    and all((isinstance(x, Num) and x.r.is_const()) or (isinstance(x, StrV) and x.s is not None) for x in a0.items):
                return ListV("lit", items=list(a0.items), is_set=True)   # a set of constants: the literal it was written as
            return ListV("opaque", path="set(%s)" % key_str(val_key(a0)), ty=ANY, is_set=True)
        if d in ("operator.add", "operator.sub", "operator.mul", "operator.truediv", "operator.pow") and len(args) == 2 and not kwargs:
            opn = {"add": ast.Add(), "sub": ast.Sub(), "mul": ast.Mult(), "truediv": ast.Div(), "pow": ast.Pow()}[d.split(".")[1]]
            return self.binop(opn, args[0], args[1], frame, node)
        if d in ("builtins.staticmethod", "builtins.classmethod") and len(args) == 1:
            return args[0]      # the plain function: how it is bound is decided where it is looked up
        if d == "operator.methodcaller" and args:
            nm = self.resolve_maybe(args[0])
            if not (isinstance(nm, StrV) and nm.s is not None):
                raise Unmodelled("methodcaller of a non-constant name at %s" % frame.loc(node))
            return FuncV("ext", dotted="operator.methodcaller()", self_val=(nm.s, list(args[1:]), dict(kwargs)))
        if d == "operator.methodcaller()" and len(args) == 1 and not kwargs:
            nm, margs, mkw = self_val
            return self.call_function(self.getattr(args[0], nm, frame, node), list(margs), dict(mkw), frame, node)
        if d == "functools.reduce" and len(args) in (2, 3) and not kwargs:
            seq = self.force(args[1], frame, node)
            items = self.as_items(seq, frame, node) if not (isinstance(seq, ObjV) and not getattr(seq.cls, "is_namedtuple", False)) else None
            if items is not None:
                # a fold over a literal collection is the chain of calls it abbreviates
                items = list(items)
                if len(args) == 3:
                    acc = args[2]
                elif items:
                    acc = items.pop(0)
                else:
                    raise RaiseSignal("TypeError", "reduce() of empty iterable with no initial value", node, frame)
                for x in items:
                    acc = self.call_function(args[0], [acc, x], {}, frame, node)
                return acc
        if d == "functools.partial" and args:
            fv = FuncV("ext", dotted="functools.partial()", self_val=(args[0], list(args[1:]), dict(kwargs)))
            return fv
        if d == "functools.partial()":
            f0, pargs, pkw = self_val
            return self.call_function(f0, list(pargs) + list(args), dict(pkw, **kwargs), frame, node)
        if d == "builtins.reversed" and len(args) == 1 and not kwargs:
            a0 = self.force(args[0], frame, node)
            items = self.as_items(a0, frame, node) if not (isinstance(a0, ObjV) and not getattr(a0.cls, "is_namedtuple", False)) else None
            if items is not None:
                return ListV("lit", items=list(reversed(items)))
        if d in ("operator.attrgetter", "operator.itemgetter") and args and not kwargs:
            keys = [self.resolve_maybe(a) for a in args]
            if d.endswith("attrgetter") and not all(isinstance(k, StrV) and k.s is not None for k in keys):
                raise Unmodelled("attrgetter of a non-constant name at %s" % frame.loc(node))
            return FuncV("ext", dotted=d + "()", self_val=keys)
        if d in ("operator.attrgetter()", "operator.itemgetter()") and len(args) == 1 and not kwargs:
            vals = []
            for k in self_val:
                if d.startswith("operator.attrgetter"):
                    v = args[0]
                    for part in k.s.split("."):
                        v = self.getattr(v, part, frame, node)
                else:
                    v = self.index(self.force(args[0], frame, node), k, frame, node)
                vals.append(v)
            return vals[0] if len(vals) == 1 else TupV(vals)
        if d == "builtins.map" and len(args) >= 2 and not kwargs:
            # map(f, xs, ...) is the comprehension [f(x, ...) for x, ... in zip(xs, ...)]
            seqs = [self.force(a, frame, node) for a in args[1:]]
            if not any((isinstance(q, ObjV) and not getattr(q.cls, "is_namedtuple", False)) for q in seqs) and all(self.as_items(q, frame, node) is not None for q in seqs):
                cols = [self.as_items(q, frame, node) for q in seqs]
                return ListV("lit", items=[self.call_function(args[0], [c[i] for c in cols], {}, frame, node) for i in range(min(len(c) for c in cols))])
            if len(seqs) != 1:
                # several sequences walked in step, as zip does: element i of each, over the length of the first
                # (sequences of equal length, the usual case — the same convention as for zip)
                z = self.call_ext("builtins.zip", None, list(seqs), {}, frame, node)
                if not (isinstance(z, ListV) and z.kind == "fam" and isinstance(z.elem, TupV)):
                    raise Unmodelled("map over several sequences of unknown length at %s" % frame.loc(node))
                val = self.call_function(args[0], list(z.elem.items), {}, frame, node)
                return ListV("fam", idx=z.idx, lo=z.lo, hi=z.hi, elem=val)
            lo, hi, idx, elem = self.iter_family(seqs[0], frame, node)
            try:
                val = self.call_function(args[0], [elem], {}, frame, node)
            finally:
                self.release_bound()
            out = ListV("fam", idx=idx, lo=lo, hi=hi, elem=val)
            if isinstance(seqs[0], ListV) and seqs[0].kind == "series":
                out.over_series = seqs[0]
            return out
        if d == "builtins.filter":
            base = self.force(args[1], frame, node)
            lo, hi, idx, elem = self.iter_family(base, frame, node, prefix="#f")
            try:
                pv = self.call_function(args[0], [elem], {}, frame, node)
            finally:
                self.release_bound()
            ty = base.ty if isinstance(base, ListV) and base.kind == "opaque" else ANY
            path = "filter(%s | %s)" % (key_str(val_key(base)), key_str(val_key(pv)))
            return ListV("opaque", path=path, ty=ty, filtered=(base, val_key(pv)))
        if d == "builtins.getattr":
            obj, name = args[0], self.resolve_maybe(args[1])
            if isinstance(name, StrV) and name.s is not None:
                try:
                    return self.getattr(obj, name.s, frame, node)
                except RaiseSignal:
                    if len(args) > 2:
                        return args[2]
                    raise
            if isinstance(obj, ClassV):
                # lookup of a registry entry by run-time name
                ty = Ty("cls", cls=self._registry_elem_class(obj.cls))
                if ty.cls is not None:
                    return ObjV(ty.cls, path="%s[%s]" % (obj.cls.name, key_str(val_key(name))))
                return Opaque("getattr(%s)" % obj.cls.name)
            if isinstance(obj, ObjV) and isinstance(name, StrV):
                return FuncV("ext", dotted="dynattr", self_val=(obj, name))
            raise Unmodelled("getattr with unknown name at %s" % frame.loc(node))
        if d == "dynattr":
            obj, name = self_val
            cands = [m for m in obj.cls.methods.values() if not m.name.startswith("_") and m.name not in ("program",)]
            a = poly.T.app("ucall", "dyn:" + obj.cls.name, (val_key(obj), val_key(name)) + tuple(val_key(x) for x in args))
            self.ctx.event("dynamic-dispatch", (obj.cls.name, name.path, [m.name for m in cands]), frame.loc(node))
            return Num(Rat.atom(a))
        if d in ("builtins.type", "builtins.isinstance", "builtins.hasattr"):
            return BoolV(None, (d, ) + tuple(key_str(val_key(a)) for a in args)) if d != "builtins.type" else Opaque("type")
        if d in ("logging.getLogger", "logging.getLoggerClass", "logging.LoggerAdapter"):
            return Opaque("logger")     # an object whose methods only emit diagnostics
        if d.startswith(("logging.", "warnings.")) or (isinstance(self_val, Opaque) and self_val.desc.startswith(("logging.", "logger"))):
            self.ctx.event("log", d, frame.loc(node))
            return NONE    # diagnostics: no value, no effect on the model
        if d == "builtins.print":
            return NONE
        if d == "builtins.str" or d == "builtins.repr":
            a0 = args[0] if args else StrV("")
            return Opaque("str", ambient=isinstance(a0, Opaque) and a0.ambient)
        if d == "builtins.hash":
            a0 = args[0]
            return Opaque("hash", ambient=True)
        if d == "builtins.bool":
            t = self.truth(args[0], frame, node, fork=False)
            return BoolV(t) if t is not None else BoolV(None, ("truth", key_str(val_key(args[0]))))
        r = self.io_call(d, self_val, args, kwargs, frame, node)
        if r is not None:
            return r
        if d in ("builtins.open",) or d.startswith(("json.", "joblib.", "pandas.", "pathlib.")):
            self.ctx.event("io", d, frame.loc(node))
            return Opaque(d)
        if d in ("copy.copy", "copy.deepcopy"):
            a0 = self.force(args[0], frame, node)
            self.ctx.event(d, val_key(a0), frame.loc(node))
            if d == "copy.copy" and isinstance(a0, ObjV):
                o = ObjV(a0.cls, a0.fields if False else dict(a0.fields), path=a0.path, parent=a0.parent)
                o.constructed = a0.constructed
                if not a0.constructed:
                    # opaque original: materialise fields lazily from the same path (aliases)
                    o.fields = a0.fields
                return o
            return a0
        if d.startswith("datetime.") or d.startswith("time.") or d.startswith("random.") or d.startswith("numpy.random."):
            self.ctx.event("ambient", d, frame.loc(node))
            return Opaque(d, ambient=True)
        if d in PURE_EXTERNALS or d.startswith(("scipy.", "numpy.", "math.", "bisect.", "operator.", "statistics.", "cmath.")) \
                or d in ("builtins.round", "builtins.divmod", "builtins.sorted", "builtins.reversed", "functools.reduce", "builtins.float.is_integer"):
            if d.startswith("numpy.random"):
                self.ctx.event("ambient", d, frame.loc(node))
                return Opaque(d, ambient=True)
            keys = tuple(val_key(self.resolve_maybe(a)) for a in args) + tuple((k, val_key(self.resolve_maybe(v))) for k, v in sorted(kwargs.items()))
            a = poly.T.app("ucall", d, keys)
            self.ctx.event("external", d, frame.loc(node))
            return Num(Rat.atom(a))
        if isinstance(self_val, Opaque) or d.split(".")[0] in ("Opaque",):
            return Opaque(d)
        raise Unmodelled("external call %s at %s" % (d, frame.loc(node)))

    def _registry_elem_class(self, cls: ClassInfo):
        for name, v in cls.class_attrs.items():
            if isinstance(v, ast.Call):
                r = self.repo.resolve(cls.module, ast.unparse(v.func))
                if isinstance(r, ClassInfo):
                    return r
        return None

    def list_method(self, m, lst, args, kwargs, frame, node):
        if isinstance(lst, TupV):
            raise Unmodelled("method %s on tuple at %s" % (m, frame.loc(node)))
        self.ctx.event("list-mutate" if m in ("append", "pop", "extend", "insert", "sort", "reverse", "remove", "clear") else "list-read",
                       (m, val_key(lst)), frame.loc(node))
        if m == "append":
            if lst.kind == "series":
                return self.series_append(lst, args[0], frame, node)
            if lst.kind == "lit":
                lst.items.append(args[0])
                return NONE
            # symbolic list: remember the extension
            ext = getattr(lst, "appended", None)
            if ext is None:
                ext = lst.appended = []
            ext.append(args[0])
            return NONE
        if m == "pop":
            if lst.kind == "series":
                return self.series_pop(lst, args, frame, node)
            if lst.kind == "lit":
                i = -1
                if args:
                    i = args[0].r.as_int()
                return lst.items.pop(i)
            raise Unmodelled("pop on list kind %s at %s" % (lst.kind, frame.loc(node)))
        if m == "copy":
            if lst.kind == "lit":
                return ListV("lit", items=list(lst.items))
            return lst
        if m == "extend" and len(args) == 1 and lst.kind != "series":
            other = self.force(args[0], frame, node)
            items = self.as_items(other, frame, node) if not (isinstance(other, ObjV) and not getattr(other.cls, "is_namedtuple", False)) else None
            if lst.kind == "lit" and items is not None:
                lst.items.extend(items)
                return NONE
            if isinstance(other, ListV):
                # the list object itself becomes (what it was) + (the extension); aliases of it see the same change
                old = ListV(lst.kind)
                old.__dict__.update(lst.__dict__)
                lst.__dict__.clear()
                lst.kind = "concat"
                lst.parts = [old, other]
                return NONE
        raise Unmodelled("list method %s at %s" % (m, frame.loc(node)))


def _is_int(r: Rat):
    sa = r.single_atom()
    return sa is not None and "int" in sa.flags
