"""Obligations, violations, known findings, evidence and exit codes."""
from __future__ import annotations

import json
import os
import sys
import time
from typing import Optional

from .repo import Repo, AnalysisError

VERIF = os.path.dirname(os.path.dirname(os.path.abspath(__file__)))
EVIDENCE_DIR = os.environ.get("VERIF_EVIDENCE_DIR", os.path.join(VERIF, "evidence"))
KNOWN_FILE = os.path.join(VERIF, "known_findings.json")


def load_known():
    try:
        with open(KNOWN_FILE) as f:
            return json.load(f)
    except FileNotFoundError:
        return {"known": [], "fixed": []}


class Check:
    def __init__(self, pid: str, tier: str, repo: Repo, seed: int = 0):
        self.pid = pid
        self.tier = tier
        self.repo = repo
        self.seed = seed
        self.t0 = time.time()
        self.obligations = []
        self.violations = []
        self.known_hits = []
        self.notes = []
        self.floors = {}
        self.analysed = {"functions": set(), "call_sites": 0, "paths": 0, "configs": 0}
        self.assumptions = []
        self.not_decided = []
        self.explanation = ""
        self.technique = ""
        self.extra = {}
        self.known = [k for k in load_known().get("known", []) if k.get("property") == pid]
        self.samples = []
        self.exhaustive = None

    # -- bookkeeping ---------------------------------------------------------
    def analysed_function(self, func):
        self.analysed["functions"].add("%s (%s:%d)" % (func.qualname, func.file, func.lineno))

    def assume(self, text):
        if text not in self.assumptions:
            self.assumptions.append(text)

    def undecided(self, text):
        if text not in self.not_decided:
            self.not_decided.append(text)

    def note(self, text):
        self.notes.append(text)

    def floor(self, name, count, minimum):
        self.floors[name] = {"found": count, "floor": minimum}
        if count < minimum:
            raise AnalysisError("instance floor not met for %s: found %d, confirmed by hand %d — the rule no longer "
                                "sees the constructs it was written for" % (name, count, minimum))

    # -- obligations -----------------------------------------------------------
    def ob(self, rule: str, func: str, construct: str, where: str, ok: bool, detail: str = "",
           expected: str = None, found: str = None, sample=False, config: str = None):
        """Register one obligation. (rule, func, construct) is the key of the finding."""
        sample = bool(sample) and len(self.samples) < 12
        if callable(expected):
            expected = expected() if (not ok or sample) else None
        if callable(found):
            found = found() if (not ok or sample) else None
        if callable(detail):
            detail = detail() if not ok else ""
        rec = {"rule": rule, "function": func, "construct": construct, "where": where, "ok": bool(ok)}
        if detail:
            rec["detail"] = detail
        if expected is not None:
            rec["expected"] = expected
        if found is not None:
            rec["found"] = found
        if config is not None:
            rec["config"] = config
        self.obligations.append(rec)
        if not ok:
            kf = self.match_known(rule, func, construct)
            if kf is not None:
                rec["known"] = True
                self.known_hits.append((kf, rec))
            else:
                for v in self.violations:
                    if (v["rule"], v["function"], v["construct"]) == (rule, func, construct):
                        v.setdefault("also_in_configs", []).append(config or "")
                        break
                else:
                    self.violations.append(dict(rec))
        elif sample or len(self.samples) < 6:
            self.samples.append(rec)
        return ok

    def match_known(self, rule, func, construct):
        for k in self.known:
            if k.get("rule") == rule and k.get("function") == func and k.get("construct") == construct:
                return k
        return None

    def scoped(self, config):
        return _Scoped(self, config)

    # -- output ------------------------------------------------------------------
    def finish(self) -> int:
        os.makedirs(EVIDENCE_DIR, exist_ok=True)
        os.makedirs(os.path.join(EVIDENCE_DIR, "replay"), exist_ok=True)
        rdir = os.path.join(EVIDENCE_DIR, "replay")
        for fn in os.listdir(rdir):
            if fn.startswith(self.pid + "-") and fn.endswith(".json"):
                try:
                    os.remove(os.path.join(rdir, fn))   # stale replays of earlier runs of this property
                except OSError:
                    pass
        wall = time.time() - self.t0
        n_ob = len(self.obligations)
        n_ok = sum(1 for o in self.obligations if o["ok"])
        printed = set()
        for kf, rec in self.known_hits:
            line = "KNOWN-FINDING: property=%s %s [%s @ %s, %s]" % (self.pid, kf.get("what", ""), rec["rule"], rec["function"], rec["construct"])
            if line not in printed:
                print(line)
                printed.add(line)
        replay_paths = []
        for i, v in enumerate(self.violations):
            path = os.path.join(EVIDENCE_DIR, "replay", "%s-%d.json" % (self.pid, i))
            with open(path, "w") as f:
                json.dump({"property": self.pid, **v}, f, indent=1)
            replay_paths.append(path)
            print("%s: rule %s violated in %s [%s]%s" % (v["where"], v["rule"], v["function"], v["construct"],
                                                       (": " + v["detail"]) if v.get("detail") else ""))
            if v.get("expected") is not None:
                print("    expected: %s" % v["expected"])
            if v.get("found") is not None:
                print("    found:    %s" % v["found"])
            if v.get("config"):
                print("    configuration: %s (and %d more)" % (v["config"], len(v.get("also_in_configs", []))))
            print("VIOLATION property=%s replay=%s" % (self.pid, path))
        cov = {
            "explanation": self.explanation,
            "obligations": n_ob,
            "discharged": n_ok,
            "known_findings_matched": len(self.known_hits),
            "samples": self.samples[:8] + [r for _, r in self.known_hits][:4],
            "rule": self.technique,
            "functions_analysed": sorted(self.analysed["functions"]),
            "paths_evaluated": self.analysed["paths"],
            "configurations": self.analysed["configs"],
            "call_sites": self.analysed["call_sites"],
            "floors": self.floors,
            "not_decided": self.not_decided,
            "notes": self.notes[:40],
            "modules_digest": self.repo.digest(),
            "violating_obligations": self.violations[:20],
        }
        if self.exhaustive is not None:
            cov["exhaustive"] = bool(self.exhaustive)
        cov.update(self.extra)
        ev = {
            "property_id": self.pid,
            "tier": self.tier,
            "seed": int(self.seed),
            "level": "other",
            "coverage": cov,
            "assumptions": self.assumptions,
            "wall_s": round(wall, 3),
            "violations": len(self.violations),
        }
        with open(os.path.join(EVIDENCE_DIR, "%s.json" % self.pid), "w") as f:
            json.dump(ev, f, indent=1, default=str)
        print("%s %s: %d obligations, %d discharged, %d known finding(s), %d violation(s); %d functions, %d paths; %.2fs"
              % (self.pid, self.tier, n_ob, n_ok, len(self.known_hits), len(self.violations),
                 len(self.analysed["functions"]), self.analysed["paths"], wall))
        return 1 if self.violations else 0


class _Scoped:
    """View of a Check that stamps every obligation with one configuration label."""

    def __init__(self, ck, config):
        self._ck = ck
        self._config = config

    def ob(self, *a, **kw):
        kw.setdefault("config", self._config)
        return self._ck.ob(*a, **kw)

    def __getattr__(self, name):
        return getattr(self._ck, name)
