#!/venv/bin/python
"""CLI: check.py <property id> [--tier quick|thorough] | --replay <file>

exit 0  property held on everything analysed (KNOWN-FINDING lines possible)
exit 1  VIOLATION property=<id> replay=<path>
exit 2  ANALYSIS-ERROR (anchor vanished, unmodelled construct, floor not met)
"""
import importlib
import json
import os
import sys
import traceback

sys.path.insert(0, os.path.dirname(os.path.dirname(os.path.abspath(__file__))))
sys.setrecursionlimit(20000)


def main(argv):
    from sa.repo import Repo, AnalysisError
    from sa.poly import Unmodelled
    from sa.report import Check
    tier = os.environ.get("VERIF_TIER", "quick")
    seed = int(os.environ.get("VERIF_SEED", "0") or 0)
    pid = None
    replay = None
    i = 0
    while i < len(argv):
        a = argv[i]
        if a == "--tier":
            tier = argv[i + 1]
            i += 2
        elif a == "--replay":
            replay = argv[i + 1]
            i += 2
        else:
            pid = a
            i += 1
    if replay:
        with open(replay) as f:
            rp = json.load(f)
        pid = rp["property"]
        print("replaying %s: rule %s in %s [%s] at %s" % (pid, rp["rule"], rp["function"], rp["construct"], rp["where"]))
    if pid is None:
        print(__doc__)
        return 2
    if tier not in ("quick", "thorough"):
        tier = "quick"
    ck = None
    try:
        repo = Repo()
        ck = Check(pid, tier, repo, seed)
        mod = importlib.import_module("sa.props.%s" % pid.lower())
        mod.run(ck)
        if replay:
            hits = [o for o in ck.obligations if o["rule"] == rp["rule"] and o["function"] == rp["function"]
                    and o["construct"] == rp["construct"]]
            for h in hits:
                print(json.dumps(h, indent=1, default=str))
            bad = [h for h in hits if not h["ok"]]
            print("replay: %d matching obligation(s), %d violated" % (len(hits), len(bad)))
            return 1 if bad else 0
        if tier == "thorough":
            if hasattr(mod, "thorough"):
                mod.thorough(ck)
            from sa import selfval
            selfval.run_for(ck, pid)
        return ck.finish()
    except (Unmodelled, AnalysisError) as e:
        # A construct outside the fragment the checker decides, or a construct the rules are anchored in that is no longer
        # there. On the tree whose digest was frozen at the last clean run this means the checker itself is broken (exit 2).
        # On any other tree the code under analysis has changed into something for which the property's obligations can no
        # longer be discharged: that is reported as an unproven obligation (a violation of the static argument), naming the
        # construct, rather than silently skipped or left without a verdict.
        frozen = None
        try:
            with open(os.path.join(os.path.dirname(os.path.abspath(__file__)), "floors.json")) as f:
                frozen = json.load(f).get("clean_digest")
        except FileNotFoundError:
            pass
        try:
            cur = Repo().digest()
        except Exception:
            cur = None
        if frozen is not None and cur is not None and cur != frozen and not replay:
            ck2 = ck if ck is not None else Check(pid, tier, Repo(), seed)   # keep what was already found before the analysis stopped
            if isinstance(e, Unmodelled):
                ck2.explanation = (getattr(ck2, "explanation", "") or "") + " [The analysis stopped at a construct it cannot normalise; the remaining obligations of the property are not discharged for this tree.]"
                ck2.ob("UNPROVEN", "analysis", "construct outside the decidable fragment", str(e).split(" at ")[-1] if " at " in str(e) else "pyvaporation/",
                       False, "the changed code uses a construct for which the property's identities cannot be decided: %s" % e)
            else:
                ck2.explanation = (getattr(ck2, "explanation", "") or "") + " [A construct the rules of this property are anchored in is no longer found; the remaining obligations of the property are not discharged for this tree.]"
                ck2.ob("UNPROVEN", "analysis", "anchor of the property's rules is missing", "pyvaporation/",
                       False, "the changed code no longer contains what the property's argument rests on: %s" % e)
            ck2.technique = getattr(ck2, "technique", None) or "n/a (unproven)"
            return ck2.finish()
        print("ANALYSIS-ERROR property=%s %s: %s" % (pid, type(e).__name__, e))
        return 2
    except Exception as e:  # the checker itself failed: never a verdict
        traceback.print_exc()
        print("ANALYSIS-ERROR property=%s internal error %s: %s" % (pid, type(e).__name__, e))
        return 2


if __name__ == "__main__":
    sys.exit(main(sys.argv[1:]))
