"""The assembled normal-form evaluator and its entry points."""
from __future__ import annotations

from typing import Callable, Dict, List, Optional

from .interp import Interp, Frame, bind_args
from .exprs import ExprMixin
from .calls import CallMixin
from .loops import LoopMixin
from .iolib import IoMixin
from .symeval import Config, Ctx, Outcome, explore, RaiseSignal, val_key, opaque_of
from .repo import Repo, FuncInfo
from .values import *


class Evaluator(Interp, ExprMixin, CallMixin, LoopMixin, IoMixin):
    pass


def analyse(repo: Repo, func: FuncInfo, cfg: Config, setup: Optional[Callable] = None,
            self_path="self", max_paths=512) -> List[Outcome]:
    """All syntactic paths of func under cfg; arguments are opaque symbols
    unless setup(ev) returns overrides."""

    def runner(ctx: Ctx):
        ev = Evaluator(ctx)
        ov = setup(ev) if setup is not None else None
        bound = ev.opaque_args(func, self_path=self_path, overrides=ov)
        ctx.entry_bound = bound
        return ev.run_function(func, bound, top=True)

    return explore(repo, cfg, runner, max_paths=max_paths)


def eval_expr_src(repo: Repo, cfg: Config, src: str, env_setup: Callable, module=None):
    """Normalise a Python expression written in the checker (an oracle) with the
    same engine, in an environment of atoms built by env_setup(ev)."""
    import ast
    ctx = Ctx(repo, cfg, [])
    ev = Evaluator(ctx)
    env = env_setup(ev)
    mod = module or next(iter(repo.modules.values()))
    fr = Frame(None, mod, env)
    return ev.eval(ast.parse(src, mode="eval").body, fr)
