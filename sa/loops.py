"""Loops: one symbolic iteration (inductive step) for `for`, an uninterpreted
fix-point operator for `while`; append-once series model (E4)."""
from __future__ import annotations

import ast

from . import poly
from .poly import Rat, rat, Unmodelled, key_str, key_equiv
from .repo import parse_type, ANY
from .values import *
from .symeval import RaiseSignal, ReturnSignal, LoopRec, val_key, opaque_of, field_flags
from .interp import Frame


def assigned_names(stmts):
    out = set()
    for st in stmts:
        for n in ast.walk(st):
            if isinstance(n, ast.Name) and isinstance(n.ctx, ast.Store):
                out.add(n.id)
            elif isinstance(n, ast.AugAssign) and isinstance(n.target, ast.Name):
                out.add(n.target.id)
    return out


def appended_names(stmts):
    out = {}
    for st in stmts:
        for n in ast.walk(st):
            if isinstance(n, ast.Call) and isinstance(n.func, ast.Attribute) and n.func.attr in ("append",) \
                    and isinstance(n.func.value, ast.Name):
                out.setdefault(n.func.value.id, []).append(n)
    return out


def carried_append_pairs(body, carried, assigned):
    """[(statement, list name, variable name)] for top-level `xs.append(v)` statements of a loop body where v is a loop-carried
    variable that is not assigned earlier in the body and is re-assigned (at the top level) later on."""
    out = []
    assigned_so_far = set()
    for i, st in enumerate(body):
        if isinstance(st, ast.Expr) and isinstance(st.value, ast.Call) and isinstance(st.value.func, ast.Attribute) and st.value.func.attr == "append" \
                and isinstance(st.value.func.value, ast.Name) and len(st.value.args) == 1 and not st.value.keywords \
                and (isinstance(st.value.args[0], ast.Name) or (isinstance(st.value.args[0], ast.Attribute)
                                                                 and isinstance(st.value.args[0].value, ast.Name))):
            a0 = st.value.args[0]
            # xs.append(cur)  or  xs.append(cur.field) for a carried record `cur` (reported below as the name 'cur.field')
            sname, vname = st.value.func.value.id, (a0.id if isinstance(a0, ast.Name) else a0.value.id)
            dotted = vname if isinstance(a0, ast.Name) else "%s.%s" % (vname, a0.attr)
            later = set()
            for x in body[i + 1:]:
                if isinstance(x, ast.Assign):
                    for t in x.targets:
                        for n in ast.walk(t):
                            if isinstance(n, ast.Name):
                                later.add(n.id)
            other_uses = sum(1 for x in body for n in ast.walk(x) if isinstance(n, ast.Name) and n.id == sname)
            if vname in carried and vname not in assigned_so_far and vname in later and other_uses == 1:
                out.append((st, sname, dotted))
        for n in ast.walk(st):
            if isinstance(n, ast.Name) and isinstance(n.ctx, ast.Store):
                assigned_so_far.add(n.id)
    return out


def indexed_stores(body, target):
    """{list name: offset c} for statements `xs[v + c] = ...` / `xs[v] = ...` in a loop body (not inside nested loops or
    functions), v being a name bound by the loop target.  None as offset: an index of another form."""
    names = {n.id for n in ast.walk(target) if isinstance(n, ast.Name)}
    out = {}

    def walk(stmts):
        for st in stmts:
            if isinstance(st, (ast.For, ast.While, ast.FunctionDef, ast.ClassDef)):
                continue
            if isinstance(st, ast.Assign):
                for t in st.targets:
                    if isinstance(t, ast.Subscript) and isinstance(t.value, ast.Name) and not isinstance(t.slice, ast.Slice):
                        used = {n.id for n in ast.walk(t.slice) if isinstance(n, ast.Name)}
                        if not (used & names):
                            continue
                        e = t.slice
                        c = None
                        if isinstance(e, ast.Name):
                            c = 0
                        elif isinstance(e, ast.BinOp) and isinstance(e.op, ast.Add):
                            if isinstance(e.left, ast.Name) and isinstance(e.right, ast.Constant) and isinstance(e.right.value, int):
                                c = e.right.value
                            elif isinstance(e.right, ast.Name) and isinstance(e.left, ast.Constant) and isinstance(e.left.value, int):
                                c = e.left.value
                        prev = out.get(t.value.id)
                        if c is None or prev is None and t.value.id in out:
                            out[t.value.id] = None
                        elif prev is None:
                            out[t.value.id] = c
                        elif prev == c:
                            pass
                        elif {prev, c} == {0, 1} or prev == "0+1":
                            out[t.value.id] = "0+1"    # the record of the current step is completed and the next one is started
                        else:
                            out[t.value.id] = None
            for fld in ("body", "orelse", "finalbody"):
                sub = getattr(st, fld, None)
                if isinstance(sub, list) and sub and isinstance(sub[0], ast.stmt):
                    walk(sub)
    walk(body)
    return out


def upward_exposed(stmts, candidates):
    """Names of `candidates` that may be read in the block before being assigned."""
    exposed = set()
    definite = set()

    def reads(node):
        r = set()
        for n in ast.walk(node):
            if isinstance(n, ast.Name) and isinstance(n.ctx, ast.Load):
                r.add(n.id)
        return r

    def walk(block, definite):
        definite = set(definite)
        for st in block:
            if isinstance(st, ast.If):
                exposed.update((reads(st.test) & candidates) - definite)
                d1 = walk(st.body, definite)
                d2 = walk(st.orelse, definite)
                definite = d1 & d2
            elif isinstance(st, (ast.For, ast.While)):
                exposed.update((reads(st.iter if isinstance(st, ast.For) else st.test) & candidates) - definite)
                walk(st.body, definite)
                walk(st.orelse, definite)
            elif isinstance(st, ast.Try):
                d1 = walk(st.body, definite)
                for h in st.handlers:
                    walk(h.body, definite)
                d1 = walk(st.orelse, d1)
                definite = definite | (d1 if not st.handlers else set())
                definite = walk(st.finalbody, definite)
            elif isinstance(st, ast.AugAssign):
                if isinstance(st.target, ast.Name):
                    if st.target.id in candidates and st.target.id not in definite:
                        exposed.add(st.target.id)
                exposed.update((reads(st.value) & candidates) - definite)
            elif isinstance(st, (ast.Assign, ast.AnnAssign)):
                val = st.value
                if val is not None:
                    exposed.update((reads(val) & candidates) - definite)
                targets = st.targets if isinstance(st, ast.Assign) else [st.target]
                for t in targets:
                    for n in ast.walk(t):
                        if isinstance(n, ast.Name) and isinstance(n.ctx, ast.Store):
                            definite.add(n.id)
                        elif isinstance(n, ast.Name):
                            if n.id in candidates and n.id not in definite:
                                exposed.add(n.id)
            else:
                exposed.update((reads(st) & candidates) - definite)
        return definite

    walk(stmts, definite)
    return exposed


class BreakSignal(Exception):
    pass


def _has_continue(st) -> bool:
    """A `continue` belonging to the enclosing loop occurs in st (not inside a nested loop or function)."""
    if isinstance(st, ast.Continue):
        return True
    if isinstance(st, (ast.For, ast.While, ast.FunctionDef, ast.Lambda, ast.ClassDef)):
        return False
    for ch in ast.iter_child_nodes(st):
        if isinstance(ch, ast.stmt) and _has_continue(ch):
            return True
    return False


def _desugar(stmts, rest):
    """stmts followed by rest, with every `continue` of the enclosing loop turned into 'skip rest':
    `if c: A; continue` + R  ==  `if c: A else: R`.  Returns None when a continue sits in a statement kind that is not an if."""
    out = []
    for i, st in enumerate(stmts):
        if isinstance(st, ast.Continue):
            return out
        if _has_continue(st):
            if not isinstance(st, ast.If):
                return None
            tail = _desugar(stmts[i + 1:], rest)
            if tail is None:
                return None
            b = _desugar(st.body, tail)
            e = _desugar(st.orelse, tail)
            if b is None or e is None:
                return None
            new = ast.If(test=st.test, body=b or [ast.Pass()], orelse=e)
            ast.copy_location(new, st)
            for x in new.body:
                if not hasattr(x, "lineno"):
                    ast.copy_location(x, st)
            out.append(new)
            return out
        out.append(st)
    return out + list(rest)


_BODY_CACHE = {}


def loop_body(st):
    """The loop body with its `continue` statements expressed as if/else nesting (cached per loop node)."""
    r = _BODY_CACHE.get(id(st))
    if r is not None and r[0] is st:
        return r[1]
    body = st.body
    if any(_has_continue(x) for x in st.body):
        d = _desugar(st.body, [])
        if d is not None:
            body = d or [ast.copy_location(ast.Pass(), st)]
    _BODY_CACHE[id(st)] = (st, body)
    return body


_HEAD_CACHE = {}


def while_head(st):
    """(test, body) of a while loop with the breaks at the head of its body folded into the test:
    `while G: if X: break; REST`  is  `while G and not X: REST`  (and `while True: if X: break; ...` is `while not X: ...`)."""
    r = _HEAD_CACHE.get(id(st))
    if r is not None and r[0] is st:
        return r[1], r[2]
    test, body = st.test, list(loop_body(st))
    while body and isinstance(body[0], ast.If) and not body[0].orelse and len(body[0].body) == 1 and isinstance(body[0].body[0], ast.Break):
        x = body[0].test
        neg = x.operand if isinstance(x, ast.UnaryOp) and isinstance(x.op, ast.Not) else ast.UnaryOp(op=ast.Not(), operand=x)
        ast.copy_location(neg, x)
        if isinstance(test, ast.Constant) and test.value is True:
            test = neg
        else:
            test = ast.BoolOp(op=ast.And(), values=[test, neg])
            ast.copy_location(test, x)
        ast.fix_missing_locations(test)
        body = body[1:]
    if not body:
        body = [ast.copy_location(ast.Pass(), st)]
    _HEAD_CACHE[id(st)] = (st, test, body)
    return test, body


class LoopMixin:
    # ------------------------------------------------------------------
    # for
    # ------------------------------------------------------------------
    def st_For(self, st, frame: Frame):
        it = self.force(self.eval(st.iter, frame), frame, st)
        items = self.as_items(it, frame, st) if not (isinstance(it, ObjV) and not getattr(it.cls, "is_namedtuple", False)) else None
        body = loop_body(st)
        if items is not None and len(items) <= 16:
            broke = False
            for x in items:
                self.assign(st.target, x, frame)
                self.ctx.unrolled = getattr(self.ctx, "unrolled", 0) + 1
                try:
                    self.exec_block(body, frame)
                except BreakSignal:
                    broke = True
                    break
                finally:
                    self.ctx.unrolled -= 1
            if st.orelse and not broke:
                self.exec_block(st.orelse, frame)
            return
        if st.orelse:
            raise Unmodelled("for-else at %s" % frame.loc(st))
        rec = LoopRec(st, frame)
        rec.kind = "for"
        self.ctx.loops.append(rec)
        lo, hi, idx, elem = self.iter_family(it, frame, st)
        rec.k, rec.lo, rec.hi, rec.n = idx, lo, hi, hi - lo
        rec.iter_val, rec.elem = it, elem
        rec.carried_before, rec.carried_after, rec.placeholders = {}, {}, {}
        try:
            assigned = assigned_names(st.body)
            apps = appended_names(st.body)
            carried = upward_exposed(st.body, assigned)
            state = {"rec": rec, "k": idx, "lo": lo, "series": {}, "aug": {}}
            # a state variable that is recorded and then advanced ( xs.append(cur); ...; cur = next ) is the same sequence as
            # xs = [cur0]; ...; xs.append(next); ...; xs.pop(-1): it is analysed in that indexed form
            recorded = {}
            def look(vn):
                """value of a recorded state variable: 'cur' or the field 'cur.field' of a carried record"""
                if "." not in vn:
                    return frame.lookup(vn)
                b, a = vn.split(".", 1)
                bv = frame.lookup(b)
                return self.getattr(bv, a, frame, st) if isinstance(bv, ObjV) else None
            for stx, sname, vname in carried_append_pairs(body, carried, assigned):
                curl, curv = frame.lookup(sname), look(vname)
                if isinstance(curl, ListV) and curl.kind == "lit" and curv is not None and curv is not NONE and not isinstance(curv, (ListV, Opaque)) \
                        and sname not in recorded and vname not in [v for _, v in recorded.values()]:
                    recorded[sname] = (stx, vname)
                    curl.items.append(curv)
            if recorded:
                skip = {id(stx) for stx, _ in recorded.values()}
                body = [x for x in body if id(x) not in skip]
            # preallocated lists that the body fills by index (xs[step + 1] = ...): the same series as one grown by append
            filled = {}
            for name, c in indexed_stores(body, st.target).items():
                cur = frame.lookup(name)
                if not isinstance(cur, ListV) or cur.kind == "series" or name in recorded:
                    continue
                both = c == "0+1"
                if both:
                    c = 1
                if c is None or c < 0 or c > 2:
                    raise Unmodelled("list %s is filled at an index that is not loop variable + constant at %s" % (name, frame.loc(st)))
                try:
                    total = self.length(cur, frame, st)
                    head = [self.index(cur, Num(j), frame, st) for j in range(c)]
                except RaiseSignal:
                    raise Unmodelled("preallocated list %s is shorter than its first filled slot at %s" % (name, frame.loc(st)))
                if total != (hi - lo) + c:
                    raise Unmodelled("preallocated list %s has %s slots but the loop fills %s at %s" % (name, total, (hi - lo) + c, frame.loc(st)))
                filled[name] = head
                if both:
                    state.setdefault("overwrite_current", set()).add(name)
                frame_owner = frame
                self._set_var(frame_owner, name, ListV("lit", items=list(head)))
            # series: lists appended in the body
            for name in sorted(set(apps) | set(recorded) | set(filled)):
                cur = frame.lookup(name)
                if isinstance(cur, ListV) and cur.kind == "lit":
                    s = ListV("series", name=name, init=list(cur.items), appended=[], k=idx, lo=lo, n=hi - lo,
                              popped=0, closed=False, elem_k=None, func=frame.func)
                    if name in filled:
                        s.filled_by_index = True
                        if name in state.get("overwrite_current", ()):
                            s.overwrite_current = True
                    self._set_var(frame, name, s)
                    state["series"][name] = s
                    rec.series[name] = s
                elif isinstance(cur, ListV) and cur.kind == "series" and not cur.closed:
                    pass
                elif cur is None or not isinstance(cur, ListV):
                    pass   # not a list: an object with its own append method (evaluated as the call it is)
                else:
                    raise Unmodelled("append in a loop to the non-literal list %s at %s" % (name, frame.loc(st)))
            # lists owned by a helper object and grown through its methods ( rec.withdraw(...) -> self.fluxes.append(...) ):
            # the same append-once series as a local list, named after where it is held
            for hname, hl in self.held_appends(body, frame).items():
                if hname in state["series"] or hl.kind != "lit":
                    continue
                items = list(hl.items)
                hl.__dict__.clear()
                hl.kind = "series"
                hl.__dict__.update(dict(name=hname, init=items, appended=[], k=idx, lo=lo, n=hi - lo, popped=0, closed=False,
                                        elem_k=None, func=frame.func))
                state["series"][hname] = hl
                rec.series[hname] = hl
            # loop-carried scalars
            saved = {}
            rec_vars = {v: sname for sname, (_, v) in recorded.items()}
            invariant = self.invariant_state(st, body, frame, state, idx, lo, elem, carried, rec_vars)
            rec.invariant = dict(invariant)
            for n in state.pop("constant_series", []):
                sr = state["series"][n]
                sr.elem_k = sr.init[-1]     # every element is the first one; re-checked when the series is closed
                sr.constant = True
            for name in carried:
                cur = frame.lookup(name)
                if cur is None:
                    continue
                if name in invariant:
                    continue   # keeps its value: checked again at the end of the body on every path
                if name in rec_vars:
                    sr = state["series"][rec_vars[name]]
                    self._set_var(frame, name, self.series_read(sr, Rat.atom(idx) - lo + (len(sr.init) - 1), frame, st))
                    continue
                saved[name] = cur
                rec.carried_before[name] = cur
                # a local that shadows the current last element of a list the body also grows ( cur = xs[0]; loop: nxt = f(cur);
                # xs.append(nxt); cur = nxt ): it IS element k of that list — checked again at the end of the body
                twin = None
                if isinstance(cur, (Num, ObjV, TupV)):
                    for sname, sr in state["series"].items():
                        if sr.init and not getattr(sr, "filled_by_index", False) and sname not in rec_vars.values() and sr.init[-1] is cur:
                            twin = sname
                            break
                if twin is not None:
                    sr = state["series"][twin]
                    ph = self.series_read(sr, Rat.atom(idx) - lo + (len(sr.init) - 1), frame, st)
                    rec.placeholders[name] = ph
                    self._set_var(frame, name, ph)
                    state.setdefault("twins", []).append((name, twin))
                    continue
                # the value the variable has at the head of iteration k: an inductive element name[k], as for a list that is
                # indexed (so `cur = f(cur)` and `xs.append(f(xs[k]))` have the same normal form)
                if isinstance(cur, (Num, TupV, ObjV)) and not (isinstance(cur, ObjV) and cur.cls is None):
                    try:
                        ph = self.inductive_like(cur, "%s[k]" % name)
                    except Unmodelled:
                        ph = Opaque("loop-carried %s" % name)
                else:
                    ph = Opaque("loop-carried %s" % name)
                rec.placeholders[name] = ph
                self._set_var(frame, name, ph)
                # fields of a carried record that the body records ( xs.append(cur.field) ): the field of the record at the head
                # of step k IS element k of that list
                for rv, sname in rec_vars.items():
                    if "." in rv and rv.split(".", 1)[0] == name and isinstance(ph, ObjV):
                        sr = state["series"][sname]
                        ph.fields[rv.split(".", 1)[1]] = self.series_read(sr, Rat.atom(idx) - lo + (len(sr.init) - 1), frame, st)
            rec.local_before = {name: frame.lookup(name) for name in assigned if name not in saved}
            rec.local_after = {}
            self.assign(st.target, elem, frame)
            self.ctx.loop_stack.append(state)
            saved_unrolled, self.ctx.unrolled = getattr(self.ctx, "unrolled", 0), 0
            try:
                self.exec_block(body, frame)
            finally:
                self.ctx.loop_stack.pop()
                self.ctx.unrolled = saved_unrolled
            for sname, (stx, vname) in recorded.items():
                self.series_append(state["series"][sname], look(vname), frame, stx)
            for name, twin in state.get("twins", []):
                sr = state["series"][twin]
                try:
                    same = len(sr.appended) == 1 and key_equiv(val_key(frame.lookup(name)), val_key(sr.appended[0]))
                except Unmodelled:
                    same = False
                if not same:
                    raise Unmodelled("local %s starts as the last element of %s but is not advanced to the element appended in the step at %s"
                                     % (name, twin, frame.loc(st)))
            for name, before_key in invariant.items():
                try:
                    same = key_equiv(val_key(frame.lookup(name)), before_key)
                except Unmodelled:
                    same = False
                if not same:
                    raise Unmodelled("loop variable %s keeps its value on one path and changes on another at %s" % (name, frame.loc(st)))
            self.ctx.assumptions.add("loop at %s executes at least once (its body is analysed as the inductive step)"
                                     % frame.loc(st))
            # close series
            for name, s in state["series"].items():
                self.close_series(s, frame, st)
                if getattr(s, "constant", False):
                    try:
                        okc = len(s.per_iter) == 1 and key_equiv(val_key(s.per_iter[0]), val_key(s.init[-1]))
                    except Unmodelled:
                        okc = False
                    if not okc:
                        raise Unmodelled("list %s repeats its first value on one path and not on another at %s" % (name, frame.loc(st)))
            for sname, (stx, vname) in recorded.items():
                self.series_pop(state["series"][sname], [Num(-1)], frame, stx)
                if "." not in vname:
                    self._set_var(frame, vname, Opaque("loop-carried %s" % vname))
            # accumulators
            for name, before in saved.items():
                after = frame.lookup(name)
                rec.carried_after[name] = after
                ph = rec.placeholders.get(name)
                if isinstance(before, Num) and isinstance(after, Num) and isinstance(ph, Num) and ph.r.single_atom() is not None:
                    acc = ph.r.single_atom()
                    delta = after.r - Rat.atom(acc)
                    # the step may not depend on another variable this same loop carries (then the sum has no closed form)
                    prefixes = tuple("%s[k]" % n2 for n2 in rec.placeholders if n2 != name)
                    state_dep = bool(prefixes) and any(poly.T.get(i).kind == "sym" and poly.T.get(i).name.startswith(prefixes)
                                                       for i in delta.deps() if i != acc.id)
                    if acc.id in delta.deps() or state_dep:
                        self._set_var(frame, name, Opaque("loop-carried %s (non-additive)" % name))
                    else:
                        if poly.mentions(delta, idx):
                            from .calls import canon_bound
                            ci, cb = canon_bound(idx, delta)
                            tot = Rat.atom(poly.T.app("fn", "SUM", (Rat.atom(ci), lo, hi, cb)))
                        else:
                            tot = delta * (hi - lo)
                        self._set_var(frame, name, Num(before.r + tot))
                else:
                    self._set_var(frame, name, Opaque("loop-carried %s" % name))
            for name in assigned - set(saved) - set(state["series"]):
                v = frame.lookup(name)
                rec.local_after[name] = v
                if v is not None and not isinstance(v, ListV):
                    rec.post[name] = v
                    self._set_var(frame, name, Opaque("value of loop-local %s after the loop" % name))
        finally:
            self.release_bound()

    def invariant_state(self, st, body, frame, state, idx, lo, elem, carried, rec_vars):
        """Loop-carried variables that every path through the body re-assigns to the value they already have, whatever the
        rest of the state is.  First all candidates are tried together at their initial values (cheap filter), then each
        survivor alone with everything else symbolic: `p = fit(x)` is not constant just because p0 == fit(x0)."""
        first = self._invariant_trial(st, body, frame, state, idx, lo, elem, carried, rec_vars)
        if not state.get("had_candidates"):
            return first
        out = {}
        for name in first:
            r = self._invariant_trial(st, body, frame, state, idx, lo, elem, carried, rec_vars, only={name})
            if name in r:
                out[name] = r[name]
        # lists that repeat their first value: judged with the confirmed constants in place and everything else symbolic
        state.pop("constant_series", None)
        self._invariant_trial(st, body, frame, state, idx, lo, elem, carried, rec_vars, only=set(out))
        return out

    def _invariant_trial(self, st, body, frame, state, idx, lo, elem, carried, rec_vars, only=None):
        """Loop-carried variables that the body re-assigns to the value they already have (a unified driver that treats a
        constant as formal state: `T = next_T(...)` with next_T returning the constant).  Found by a trial execution of the
        body that records nothing; every real path re-checks it.  {name: key of the value}"""
        cands = {}
        for name in carried:
            cur = frame.lookup(name)
            if name in rec_vars or cur is None or not isinstance(cur, (Num, ObjV, TupV)):
                continue
            state["had_candidates"] = True
            if only is not None and name not in only:
                continue
            try:
                cands[name] = val_key(cur)
            except Unmodelled:
                continue
        # a list that starts with one value and gets one value per step may turn out to repeat that value (constant temperature
        # written as T.append(next_T(...)) by a driver shared with a model in which T evolves): worth a trial only if some
        # appended value is produced by a call of a function VALUE (a callback), never for the plain code of the clean tree
        series_cands = [n for n, sr in state["series"].items() if len(sr.init) >= 1 and not sr.appended]
        has_callback = any(isinstance(x, ast.Call) and isinstance(x.func, (ast.Name, ast.Attribute)) and
                           isinstance(frame.lookup(x.func.id) if isinstance(x.func, ast.Name) else None, FuncV)
                           for stx in body for x in ast.walk(stx)) or \
            any(isinstance(x, ast.Call) and isinstance(x.func, ast.Attribute) and isinstance(x.func.value, ast.Name)
                and isinstance(frame.lookup(x.func.value.id), ObjV) and getattr(frame.lookup(x.func.value.id).cls, "is_namedtuple", False)
                for stx in body for x in ast.walk(stx))
        if (not cands and not (series_cands and has_callback)) or getattr(self.ctx, "dry", None) is not None:
            return {}
        ctx = self.ctx
        snap_env = dict(frame.env)
        snap = (len(ctx.events), len(ctx.calls), len(ctx.loops), dict(ctx.facts), set(ctx.assumptions), ctx.bound_depth,
                getattr(ctx, "unrolled", 0), list(ctx.loop_stack))
        ser = {n: (len(s.appended), s.elem_k, list(getattr(s, "append_nodes", []))) for n, s in state["series"].items()}
        placeholders = {}
        result = None
        # every path through the body is tried (a variable that changes on any of them is not constant); paths that leave the loop
        # by raising do not count
        pending_scripts = [[]]
        results = []          # per completing path: ({name: value}, [constant series])
        runs = 0
        complete = True
        try:
            while pending_scripts:
                script = pending_scripts.pop()
                runs += 1
                if runs > 48:
                    complete = False
                    break
                ctx.dry = {"script": list(script), "pos": 0}
                frame.env.clear()
                frame.env.update(snap_env)
                ctx.facts.clear()
                ctx.facts.update(snap[3])
                for n, s in state["series"].items():
                    del s.appended[ser[n][0]:]
                    s.elem_k = ser[n][1]
                for name in carried:
                    cur = frame.lookup(name)
                    if cur is None or name in rec_vars:
                        continue
                    if isinstance(cur, (Num, TupV, ObjV)):
                        try:
                            ph = self.inductive_like(cur, "%s[k]" % name)
                        except Unmodelled:
                            ph = Opaque("loop-carried %s" % name)
                    else:
                        ph = Opaque("loop-carried %s" % name)
                    placeholders[name] = ph
                    if name not in cands:
                        self._set_var(frame, name, ph)
                self.assign(st.target, elem, frame)
                ctx.loop_stack.append(dict(state, dry=True))
                try:
                    self.exec_block(body, frame)
                    res = {n: frame.lookup(n) for n in cands}
                    const_series = []
                    for n, sr in state["series"].items():
                        new = sr.appended[ser[n][0]:]
                        if len(sr.init) >= 1 and ser[n][0] == 0 and len(new) == 1:
                            try:
                                kn = val_key(new[0])
                                same = key_equiv(kn, val_key(sr.init[-1])) or (sr.elem_k is not None and key_equiv(kn, val_key(sr.elem_k)))
                            except Unmodelled:
                                same = False
                            if same:
                                const_series.append(n)
                    results.append((res, const_series))
                except RaiseSignal:
                    pass    # this path leaves the loop
                except (ReturnSignal, Unmodelled, BreakSignal):
                    complete = False
                    break
                finally:
                    ctx.loop_stack.pop()
                taken = list(ctx.dry["script"][:ctx.dry["pos"]])
                for j in range(len(script), len(taken)):
                    if taken[j] is True:
                        pending_scripts.append(taken[:j] + [False])
            if complete and results:
                result = {}
                for n, k in cands.items():
                    try:
                        if all(key_equiv(val_key(r[n]), k) for r, _ in results):
                            result[n] = k
                    except Unmodelled:
                        pass
                cs = set(results[0][1])
                for _, c2 in results[1:]:
                    cs &= set(c2)
                state["constant_series"] = sorted(cs)
        finally:
            ctx.dry = None
            frame.env.clear()
            frame.env.update(snap_env)
            del ctx.events[snap[0]:]
            del ctx.calls[snap[1]:]
            del ctx.loops[snap[2]:]
            ctx.facts.clear()
            ctx.facts.update(snap[3])
            ctx.assumptions.clear()
            ctx.assumptions.update(snap[4])
            ctx.bound_depth = snap[5]
            ctx.unrolled = snap[6]
            ctx.loop_stack[:] = snap[7]
            for n, s in state["series"].items():
                del s.appended[ser[n][0]:]
                s.elem_k = ser[n][1]
                if hasattr(s, "append_nodes"):
                    s.append_nodes = ser[n][2]
        return result or {}

    def _set_var(self, frame, name, v):
        f = frame
        while f is not None:
            if name in f.env:
                f.env[name] = v
                return
            f = f.parent
        frame.env[name] = v

    # ------------------------------------------------------------------
    # series
    # ------------------------------------------------------------------
    def inductive_like(self, proto: Val, path: str) -> Val:
        """Shape copy of proto with fresh inductive atoms; discrete fields are
        kept as an inductive hypothesis (checked when the series is closed)."""
        if isinstance(proto, Num):
            flags = set()
            sa = proto.r.single_atom()
            if sa is not None:
                flags = set(sa.flags) & {"nonneg", "pos", "comp_p"}
            return Num(Rat.sym(path, flags))
        if isinstance(proto, TupV):
            if len(proto.items) == 2:
                from .symeval import PAIR_PATHS
                PAIR_PATHS.add(path)
            return TupV([self.inductive_like(x, "%s[%d]" % (path, i)) for i, x in enumerate(proto.items)])
        if isinstance(proto, ObjV):
            o = ObjV(proto.cls, path=path)
            self._inductive_facts(proto, path, 0)
            return o
        if proto is NONE or isinstance(proto, NoneV):
            return NONE
        if isinstance(proto, MaybeV):
            return MaybeV(path, proto.ty)
        raise Unmodelled("no inductive shape for %r" % (proto,))

    def _inductive_facts(self, proto: ObjV, path: str, depth: int):
        """Discrete facts of the first element assumed for element k (and re-checked on the element appended for k+1): string
        fields, which optional fields are filled, and the same one level down (a record holding a Composition)."""
        for f in proto.cls.fields:
            ty = parse_type(self.repo, proto.cls.module, f.ann, proto.cls)
            want = ty.kind == "str" or ty.kind == "opt" or (ty.kind == "cls" and depth < 2) or ty.kind == "any"
            if not want:
                continue
            if not proto.constructed and f.name not in proto.fields and ty.kind != "str":
                continue
            try:
                fv = self.resolve_maybe(self.obj_attr(proto, f.name, Frame(None, proto.cls.module, {}), f.node))
            except (RaiseSignal, Unmodelled):
                continue
            if isinstance(fv, StrV) and fv.s is not None:
                self.ctx.facts[path + "." + f.name] = ("str", fv.s)
            elif ty.kind == "opt" and proto.constructed:
                if fv is NONE or isinstance(fv, NoneV):
                    pass     # not filled in the first element: nothing is assumed about later ones
                elif not isinstance(fv, MaybeV):
                    self.ctx.facts[path + "." + f.name] = "notnone"
            if isinstance(fv, ObjV) and fv.cls is not None and depth < 2 and fv.cls.fields:
                self._inductive_facts(fv, path + "." + f.name, depth + 1)

    def held_appends(self, body, frame):
        """{'var.field': list} for literal lists that are fields of an object held in a local variable and that a method of
        the object, called in the loop body on that variable, grows with self.<field>.append(...)."""
        out = {}
        for st in body:
            for n in ast.walk(st):
                if isinstance(n, ast.Call) and isinstance(n.func, ast.Name):
                    # a bound method kept in a local ( add_mass = feed_mass.append  ...  add_mass(x) ): the list it belongs to
                    fv = frame.lookup(n.func.id)
                    if isinstance(fv, FuncV) and fv.kind == "ext" and fv.dotted == "list.append" and isinstance(fv.self_val, ListV) \
                            and fv.self_val.kind == "lit":
                        owner = [vn for vn, vv in frame.env.items() if vv is fv.self_val]
                        out[owner[0] if owner else "list of %s" % n.func.id] = fv.self_val
                    continue
                if not (isinstance(n, ast.Call) and isinstance(n.func, ast.Attribute) and isinstance(n.func.value, ast.Name)):
                    continue
                obj = frame.lookup(n.func.value.id)
                if not (isinstance(obj, ObjV) and obj.constructed and n.func.attr in obj.cls.methods):
                    continue
                m = obj.cls.methods[n.func.attr]
                if not m.params:
                    continue
                for x in ast.walk(m.node):
                    if isinstance(x, ast.Call) and isinstance(x.func, ast.Attribute) and x.func.attr == "append" \
                            and isinstance(x.func.value, ast.Attribute) and isinstance(x.func.value.value, ast.Name) \
                            and x.func.value.value.id == m.params[0]:
                        lst = obj.fields.get(x.func.value.attr)
                        if isinstance(lst, ListV) and lst.kind == "lit":
                            out["%s.%s" % (n.func.value.id, x.func.value.attr)] = lst
        return out

    def series_read(self, s: ListV, i: Rat, frame, node) -> Val:
        if not s.closed and i.as_int() is not None and i.as_int() < 0:
            i = self.series_len(s) + i      # xs[-1] while the list is growing: its current last element
        if s.closed and getattr(s, "extra_tail", 0) > 0 and i.as_int() is None:
            raise Unmodelled("record list %s is read with its look-ahead record still in place at %s" % (s.name, frame.loc(node)))
        if s.closed:
            j = i.as_int()
            if j is not None and 0 <= j < len(s.init):
                return s.init[j]
            if j is not None and j < 0:
                raise Unmodelled("negative index into series %s after its loop at %s" % (s.name, frame.loc(node)))
            # element appended at iteration i - len(init)
            if len(s.per_iter) == 1:
                kk = i - len(s.init) + s.lo
                return self.subst_val(s.per_iter[0], {s.k.id: kk})
            raise Unmodelled("read of closed series %s at %s" % (s.name, frame.loc(node)))
        rel = i - (Rat.atom(s.k) - s.lo)
        o = rel.as_int()
        if o is None:
            ci = i.as_int()
            if ci is not None and 0 <= ci < len(s.init):
                return s.init[ci]
            raise Unmodelled("series %s read at index %s (not k+const) at %s" % (s.name, i, frame.loc(node)))
        L = len(s.init)
        self.ctx.event("series-read", (s.name, o), frame.loc(node))
        if o < 0:
            raise RaiseSignal("IndexError", "negative-offset read of series %s" % s.name, node, frame)
        if o < L:
            if o == L - 1:
                if s.elem_k is None:
                    s.elem_k = self.inductive_like(s.init[-1], "%s[k]" % s.name)
                return s.elem_k
            raise Unmodelled("series %s read at k%+d with %d initial elements at %s" % (s.name, o, L, frame.loc(node)))
        j = o - L
        if j < len(s.appended):
            return s.appended[j]
        self.ctx.event("series-read-beyond", (s.name, o), frame.loc(node))
        raise RaiseSignal("IndexError", "series %s read at k%+d before that element is appended" % (s.name, o), node, frame)

    def series_append(self, s: ListV, v: Val, frame, node):
        if s.closed:
            raise Unmodelled("append to series %s after its loop at %s" % (s.name, frame.loc(node)))
        s.appended.append(v)
        s.append_nodes = getattr(s, "append_nodes", []) + [node]
        return NONE

    def series_pop(self, s: ListV, args, frame, node):
        if not s.closed:
            raise Unmodelled("pop inside the loop of series %s at %s" % (s.name, frame.loc(node)))
        if args:
            a = self.force(args[0], frame, node)
            if not (isinstance(a, Num) and a.r.as_int() == -1):
                raise Unmodelled("pop(%r) of series %s at %s" % (a, s.name, frame.loc(node)))
        if getattr(s, "extra_tail", 0) > 0:
            s.extra_tail -= 1          # the trailing look-ahead record of a completed record list
        else:
            s.popped += 1
        s.pop_nodes = getattr(s, "pop_nodes", []) + [node]
        return Opaque("popped element of %s" % s.name)

    def series_len(self, s: ListV) -> Rat:
        if s.closed:
            return Rat.const(len(s.init) - s.popped + getattr(s, "extra_tail", 0)) + s.n * len(s.per_iter)
        return Rat.const(len(s.init) + len(s.appended)) + (Rat.atom(s.k) - s.lo) * 1

    def close_series(self, s: ListV, frame, node):
        s.per_iter = list(s.appended)
        s.closed = True
        if getattr(s, "overwrite_current", False):
            fin = getattr(s, "final_k", None)
            if fin is None or len(s.init) != 1 or len(s.per_iter) != 1:
                raise Unmodelled("record list %s is not completed and advanced exactly once per step at %s" % (s.name, frame.loc(node)))
            # inside the loop the list carried the state (slot k+1 written at step k); afterwards slot k holds the completed
            # record of step k and one look-ahead record trails
            s.carrier = {"init": list(s.init), "per_iter": list(s.per_iter), "elem_k": s.elem_k}
            s.init, s.per_iter, s.appended, s.extra_tail = [], [fin], [fin], 1
            return
        # verify the discrete inductive hypothesis
        if s.elem_k is not None and len(s.per_iter) >= 1:
            self._check_shape(s, s.elem_k, s.per_iter[-1], "%s[k]" % s.name, frame, node)

    def _check_shape(self, s, hyp: Val, new: Val, path, frame, node):
        if isinstance(hyp, ObjV) and isinstance(new, ObjV):
            for f in hyp.cls.fields:
                fact = self.ctx.facts.get(path + "." + f.name)
                nv = None
                if fact is not None or any(k.startswith(path + "." + f.name + ".") for k in self.ctx.facts):
                    try:
                        nv = self.resolve_maybe(self.obj_attr(new, f.name, frame, node))
                    except (RaiseSignal, Unmodelled):
                        nv = None
                if isinstance(fact, tuple) and fact[0] == "str":
                    if not (isinstance(nv, StrV) and nv.s == fact[1]):
                        self.ctx.event("series-invariant-broken", (s.name, f.name, fact[1], nv), frame.loc(node))
                elif fact == "notnone":
                    if nv is None or nv is NONE or isinstance(nv, (NoneV, MaybeV)):
                        self.ctx.event("series-invariant-broken", (s.name, f.name, "filled", nv), frame.loc(node))
                if isinstance(nv, ObjV) and nv.cls is not None and path.count(".") < 3:
                    sub = ObjV(nv.cls, path=path + "." + f.name)
                    self._check_shape(s, sub, nv, path + "." + f.name, frame, node)
        elif isinstance(hyp, TupV) and isinstance(new, TupV) and len(hyp.items) == len(new.items):
            for i, (a, b) in enumerate(zip(hyp.items, new.items)):
                self._check_shape(s, a, b, "%s[%d]" % (path, i), frame, node)

    # ------------------------------------------------------------------
    # while: uninterpreted fix-point
    # ------------------------------------------------------------------
    def bound_like(self, proto: Val, path: str) -> Val:
        return self.inductive_like(proto, path)

    def leaves(self, v: Val, out, prefix=""):
        if isinstance(v, Num):
            out.append((prefix, v.r))
        elif isinstance(v, TupV):
            for i, x in enumerate(v.items):
                self.leaves(x, out, "%s[%d]" % (prefix, i))
        elif isinstance(v, ObjV):
            if v.constructed:
                for k, x in sorted(v.fields.items()):
                    self.leaves(x, out, prefix + "." + k)
            else:
                for f in v.cls.fields:
                    ty = parse_type(self.repo, v.cls.module, f.ann, v.cls)
                    if ty.kind in ("float", "int", "any"):
                        x = self.obj_attr(v, f.name, Frame(None, v.cls.module, {}), f.node)
                        self.leaves(x, out, prefix + "." + f.name)
        elif isinstance(v, StrV):
            out.append((prefix, v.s if v.s is not None else ("str?", v.path)))
        elif v is NONE or isinstance(v, NoneV):
            out.append((prefix, None))
        else:
            out.append((prefix, val_key(v)))

    def st_While(self, st, frame: Frame):
        if st.orelse:
            raise Unmodelled("while-else at %s" % frame.loc(st))
        rec = LoopRec(st, frame)
        rec.kind = "while"
        self.ctx.loops.append(rec)
        test, wbody = while_head(st)
        t0 = self.eval(test, frame)
        rec.guard0 = t0
        entered = self.truth(t0, frame, st.test)
        rec.entered = entered
        if not entered:
            return
        assigned = assigned_names(st.body)
        carried = {}
        for name in sorted(assigned):
            cur = frame.lookup(name)
            if cur is not None:
                carried[name] = cur
        rec.init = dict(carried)
        bound = {}
        for name, cur in carried.items():
            b = self.bound_like(cur, "#w.%s" % name)
            bound[name] = b
            self._set_var(frame, name, b)
        rec.bound = bound
        g = self.guard_value(test, frame)
        rec.guard = g
        state = {"rec": rec, "k": None, "series": {}, "aug": {}, "while": True}
        self.ctx.loop_stack.append(state)
        saved_unrolled, self.ctx.unrolled = getattr(self.ctx, "unrolled", 0), 0
        try:
            self.exec_block(wbody, frame)
        finally:
            self.ctx.loop_stack.pop()
            self.ctx.unrolled = saved_unrolled
        for name in carried:
            rec.transfer[name] = frame.lookup(name)
        for name in assigned - set(carried):
            v = frame.lookup(name)
            if v is not None:
                rec.transfer[name] = v
        # the loop's result: an uninterpreted function of (guard, transfer, init)
        gk = val_key(g)
        tl, il = [], []
        for name in sorted(carried):
            self.leaves(rec.transfer[name], tl, name)
            self.leaves(carried[name], il, name)
        loop_key = (gk, tuple(tl), tuple(il))
        rec.key = loop_key
        shared = []
        for name in sorted(rec.transfer, key=lambda n: (n not in carried, n)):
            proto = rec.transfer[name]
            lk = []
            self.leaves(proto, lk, "")
            post = None
            for k0, p0 in shared:
                if key_equiv(tuple(lk), k0):
                    post = p0   # same transfer => same value when the loop exits
                    break
            if post is None:
                post = self.fix_like(proto, name, loop_key)
                shared.append((tuple(lk), post))
            rec.post[name] = post
            self._set_var(frame, name, post)

    def guard_value(self, test, frame):
        """The loop test at the bound state as ONE condition: a conjunction `a and b` is the condition ('and', a, b) — evaluating
        it as an expression would decide `a` and hand back only `b`."""
        if isinstance(test, ast.BoolOp) and isinstance(test.op, ast.And):
            conds = []
            for v in test.values:
                pv = self.eval(v, frame)
                t = self.truth(pv, frame, v, fork=False)
                if t is True:
                    continue
                if t is False:
                    return BoolV(False)
                if not (isinstance(pv, BoolV) and pv.cond is not None):
                    return self.eval(test, frame)
                conds.append(pv.cond)
            if not conds:
                return BoolV(True)
            return BoolV(None, conds[0] if len(conds) == 1 else ("and",) + tuple(conds))
        return self.eval(test, frame)

    def fix_like(self, proto: Val, path: str, loop_key, flags=()) -> Val:
        if isinstance(proto, Num):
            return Num(Rat.atom(poly.T.app("fn", "loopfix", (path, loop_key), flags=flags)))
        if isinstance(proto, TupV):
            return TupV([self.fix_like(x, "%s[%d]" % (path, i), loop_key) for i, x in enumerate(proto.items)])
        if isinstance(proto, ObjV):
            o = ObjV(proto.cls, {})
            for f in proto.cls.fields:
                try:
                    fv = self.obj_attr(proto, f.name, Frame(None, proto.cls.module, {}), f.node)
                except (RaiseSignal, Unmodelled):
                    continue
                o.fields[f.name] = self.fix_like(fv, path + "." + f.name, loop_key, field_flags(proto.cls.name, f.name))
            return o
        if isinstance(proto, StrV):
            return proto
        if proto is NONE or isinstance(proto, NoneV):
            return NONE
        return Opaque("loop result %s" % path)
