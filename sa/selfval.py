"""Checker self-validation (thorough tier): seeded edits must fire, behaviour-preserving rewrites must stay silent.

Works on scratch copies of the tree under test made under $TMPDIR (never inside /repo or /verif) and removed as soon as
they are judged.  Executes no repository code: each variant is analysed by the same static check in a subprocess."""
from __future__ import annotations

import json
import os
import shutil
import subprocess
import sys
import tempfile
from concurrent.futures import ThreadPoolExecutor

from .repo import repo_root
from .seeds import SEEDS, REWRITES

HERE = os.path.dirname(os.path.abspath(__file__))


def apply_edit(src_root, seed, dst):
    rel = seed["file"]
    with open(os.path.join(src_root, rel)) as f:
        s = f.read()
    idx = -1
    for _ in range(seed["nth"]):
        idx = s.find(seed["old"], idx + 1)
        if idx < 0:
            return False
    shutil.copytree(os.path.join(src_root, "pyvaporation"), os.path.join(dst, "pyvaporation"), ignore=shutil.ignore_patterns("__pycache__"))
    s = s[:idx] + seed["new"] + s[idx + len(seed["old"]):]
    with open(os.path.join(dst, rel), "w") as f:
        f.write(s)
    return True


def apply_patch(src_root, seed, dst):
    shutil.copytree(os.path.join(src_root, "pyvaporation"), os.path.join(dst, "pyvaporation"), ignore=shutil.ignore_patterns("__pycache__"))
    r = subprocess.run(["patch", "-p1", "-s", "-d", dst, "-i", seed["patch"], "--no-backup-if-mismatch"], capture_output=True, text=True)
    return r.returncode == 0


def agent_seeds(pid):
    """Changes written by independent sub-agents against the property text alone and confirmed by hand (see /verif/seeded)."""
    root = os.path.join(os.path.dirname(HERE), "seeded")
    out = []
    if os.path.isdir(root):
        for d in sorted(os.listdir(root)):
            mp, pp = os.path.join(root, d, "meta.json"), os.path.join(root, d, "patch.diff")
            if os.path.exists(mp) and os.path.exists(pp):
                try:
                    m = json.load(open(mp))
                except ValueError:
                    continue
                if m.get("property") == pid:
                    out.append({"id": "agent:" + d, "props": [pid], "patch": pp})
    return out


def refactor_patches():
    """Behaviour-preserving refactorings written by independent sub-agents (tests pass, outputs identical): every check must stay silent."""
    root = os.path.join(os.path.dirname(HERE), "refactors")
    out = []
    if os.path.isdir(root):
        for d in sorted(os.listdir(root)):
            pp = os.path.join(root, d, "patch.diff")
            if os.path.exists(pp):
                out.append({"id": "refactor:" + d, "props": [], "patch": pp})
    return out


def judge(pid, seed, src_root):
    d = tempfile.mkdtemp(prefix="vsv_")
    try:
        ok = apply_patch(src_root, seed, d) if "patch" in seed else apply_edit(src_root, seed, d)
        if not ok:
            return seed["id"], "skipped (anchor text not in this tree)", None
        env = dict(os.environ, VERIF_REPO=d, VERIF_EVIDENCE_DIR=os.path.join(d, "evidence"), VERIF_TIER="quick")
        p = subprocess.run([sys.executable, os.path.join(HERE, "check.py"), pid, "--tier", "quick"], env=env, capture_output=True, text=True, timeout=600)
        first = next((l for l in p.stdout.splitlines() if ": rule " in l or l.startswith("ANALYSIS-ERROR")), "")
        return seed["id"], p.returncode, first[:240]
    finally:
        shutil.rmtree(d, ignore_errors=True)


def run_for(ck, pid):
    src = repo_root()
    seeds = [s for s in SEEDS if pid in s["props"]] + agent_seeds(pid)
    silent = list(REWRITES) + refactor_patches()
    jobs = [(pid, s, src) for s in seeds] + [(pid, r, src) for r in silent]
    with ThreadPoolExecutor(max_workers=int(os.environ.get("VERIF_JOBS", "16"))) as ex:
        res = list(ex.map(lambda a: judge(*a), jobs))
    matrix = []
    missed, noisy, skipped = [], [], 0
    for (p, s, _), (sid, rc, first) in zip(jobs, res):
        kind = "rewrite" if s in silent else "seed"
        matrix.append({"id": sid, "kind": kind, "exit": rc, "first_report": first})
        if isinstance(rc, str):
            skipped += 1
        elif kind == "seed" and rc != 1:
            missed.append(sid)
        elif kind == "rewrite" and rc != 0:
            noisy.append(sid)
    ck.extra["self_validation"] = {"seeds": len(seeds), "rewrites": len(silent), "skipped": skipped, "missed": missed,
                                   "false_alarms_on_rewrites": noisy, "matrix": matrix}
    # the verdict of the property itself is never changed by self-validation; a weaker-than-claimed checker is an analysis error
    # only on the tree whose digest was frozen at the last clean run
    frozen = None
    try:
        with open(os.path.join(HERE, "floors.json")) as f:
            frozen = json.load(f).get("clean_digest")
    except FileNotFoundError:
        pass
    if (missed or noisy) and frozen is not None and frozen == ck.repo.digest():
        from .repo import AnalysisError
        raise AnalysisError("self-validation on the frozen clean tree: missed seeds %s, false alarms on rewrites %s" % (missed, noisy))
    return missed, noisy
