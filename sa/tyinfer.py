"""Light static type inference for expressions inside a repo function
(flow-insensitive over locals; annotations first). Used by the structural
rules (who-may-write, effects, call resolution)."""
from __future__ import annotations

import ast
from typing import Dict, Optional

from .repo import Repo, FuncInfo, ClassInfo, Module, Const, External, Ty, ANY, parse_type


class TypeEnv:
    def __init__(self, repo: Repo, func: FuncInfo):
        self.repo = repo
        self.func = func
        self.module = func.module
        self.locals: Dict[str, Ty] = {}
        self._build()

    def _build(self):
        f = self.func
        params = list(f.params)
        if f.cls is not None and params and not f.is_staticmethod:
            first = params.pop(0)
            self.locals[first] = Ty("type", cls=f.cls) if f.is_classmethod else Ty("cls", cls=f.cls)
        for p in params + f.kwonly:
            self.locals[p] = parse_type(self.repo, self.module, f.annotations.get(p), f.cls)
        # two passes so that later definitions feed earlier uses in loops
        for _ in range(2):
            for node in ast.walk(f.node):
                if isinstance(node, ast.AnnAssign) and isinstance(node.target, ast.Name):
                    self.locals[node.target.id] = parse_type(self.repo, self.module, node.annotation, f.cls)
                elif isinstance(node, ast.Assign):
                    t = self.type_of(node.value)
                    for tg in node.targets:
                        self._bind(tg, t)
                elif isinstance(node, (ast.For, ast.comprehension)):
                    it = self.type_of(node.iter)
                    self._bind(node.target, self.elem_type(it))
                elif isinstance(node, ast.With):
                    for it in node.items:
                        if it.optional_vars is not None:
                            self._bind(it.optional_vars, ANY)

    def _bind(self, target, t: Ty):
        if isinstance(target, ast.Name):
            cur = self.locals.get(target.id)
            if cur is None or cur.kind == "any":
                self.locals[target.id] = t
        elif isinstance(target, (ast.Tuple, ast.List)):
            for i, e in enumerate(target.elts):
                if t.kind == "tuple" and i < len(t.args):
                    self._bind(e, t.args[i])
                else:
                    self._bind(e, ANY)

    def elem_type(self, t: Ty) -> Ty:
        t = t.strip_opt()
        if t.kind == "list" and t.args:
            return t.args[0]
        if t.kind == "cls" and "__getitem__" in t.cls.methods:
            m = t.cls.methods["__getitem__"]
            rt = parse_type(self.repo, t.cls.module, m.returns, t.cls)
            if rt.kind != "any":
                return rt
            # __getitem__ returning self.<list field>[item]
            for n in ast.walk(m.node):
                if isinstance(n, ast.Return) and isinstance(n.value, ast.Subscript):
                    b = n.value.value
                    if isinstance(b, ast.Attribute) and isinstance(b.value, ast.Name) and b.value.id == "self":
                        f = t.cls.field(b.attr)
                        if f is not None:
                            return self.elem_type(parse_type(self.repo, t.cls.module, f.ann, t.cls))
        if t.kind == "tuple" and t.args and all(a.kind == t.args[0].kind and a.cls is t.args[0].cls for a in t.args):
            return t.args[0]
        return ANY

    def type_of(self, e) -> Ty:
        if e is None:
            return ANY
        if isinstance(e, ast.Constant):
            v = e.value
            if v is None:
                return Ty("none")
            return Ty({bool: "bool", int: "int", float: "float", str: "str"}.get(type(v), "any"))
        if isinstance(e, ast.Name):
            if e.id in self.locals:
                return self.locals[e.id]
            r = self.repo.resolve(self.module, e.id)
            if isinstance(r, ClassInfo):
                return Ty("type", cls=r)
            if isinstance(r, FuncInfo):
                return Ty("func", cls=r)
            if isinstance(r, Module):
                return Ty("module", cls=r)
            if isinstance(r, External):
                return Ty("external", cls=r)
            if isinstance(r, Const):
                return TypeEnvConst(self.repo, r.module).type_of(r.node)
            return ANY
        if isinstance(e, ast.Attribute):
            bt = self.type_of(e.value).strip_opt()
            return self.attr_type(bt, e.attr)
        if isinstance(e, ast.Subscript):
            bt = self.type_of(e.value).strip_opt()
            if isinstance(e.slice, ast.Slice):
                return bt
            if bt.kind == "tuple":
                if isinstance(e.slice, ast.Constant) and isinstance(e.slice.value, int) and -len(bt.args) <= e.slice.value < len(bt.args):
                    return bt.args[e.slice.value]
                return self.elem_type(bt)
            return self.elem_type(bt)
        if isinstance(e, ast.Call):
            return self.call_type(e)
        if isinstance(e, (ast.List, ast.ListComp)):
            if isinstance(e, ast.List):
                return Ty("list", (self.type_of(e.elts[0]) if e.elts else ANY,))
            sub = TypeEnvComp(self, e)
            return Ty("list", (sub.type_of(e.elt),))
        if isinstance(e, ast.Tuple):
            return Ty("tuple", [self.type_of(x) for x in e.elts])
        if isinstance(e, ast.BinOp):
            lt = self.type_of(e.left)
            rt = self.type_of(e.right)
            if lt.kind == "list":
                return lt
            if rt.kind == "list" and isinstance(e.op, ast.Mult):
                return rt
            if lt.kind == "cls":
                dn = {ast.Add: "__add__", ast.Mult: "__mul__"}.get(type(e.op))
                if dn and dn in lt.cls.methods:
                    rt2 = parse_type(self.repo, lt.cls.module, lt.cls.methods[dn].returns, lt.cls)
                    return rt2 if rt2.kind != "any" else lt
            return Ty("float")
        if isinstance(e, ast.IfExp):
            t = self.type_of(e.body)
            return t if t.kind != "none" else self.type_of(e.orelse)
        if isinstance(e, ast.JoinedStr):
            return Ty("str")
        return ANY

    def attr_type(self, bt: Ty, attr: str) -> Ty:
        if bt.kind in ("cls", "type") and bt.cls is not None:
            c = bt.cls
            f = c.field(attr)
            if f is not None and bt.kind == "cls":
                return parse_type(self.repo, c.module, f.ann, c)
            if attr in c.methods:
                m = c.methods[attr]
                if m.is_property:
                    return parse_type(self.repo, c.module, m.returns, c)
                return Ty("method", cls=m)
            if attr in c.class_attrs and c.class_attrs[attr] is not None:
                return TypeEnvConst(self.repo, c.module).type_of(c.class_attrs[attr])
            return ANY
        if bt.kind == "module":
            r = self.repo.resolve(bt.cls, attr)
            if isinstance(r, ClassInfo):
                return Ty("type", cls=r)
            if isinstance(r, FuncInfo):
                return Ty("func", cls=r)
            return ANY
        if bt.kind == "external":
            return Ty("external", cls=bt.cls.attr(attr))
        return ANY

    def resolve_callee(self, call: ast.Call):
        """FuncInfo / ClassInfo / External / None for the callee of a call."""
        ft = self.type_of(call.func)
        if ft.kind in ("func", "method"):
            return ft.cls
        if ft.kind == "type":
            return ft.cls
        if ft.kind == "external":
            return ft.cls
        if ft.kind == "cls" and "__call__" in ft.cls.methods:
            return ft.cls.methods["__call__"]
        return None

    def call_type(self, e: ast.Call) -> Ty:
        c = self.resolve_callee(e)
        if isinstance(c, FuncInfo):
            rt = parse_type(self.repo, c.module, c.returns, c.cls)
            if rt.kind == "any" and c.is_classmethod and c.cls is not None:
                return Ty("cls", cls=c.cls)
            return rt
        if isinstance(c, ClassInfo):
            return Ty("cls", cls=c)
        if isinstance(c, External):
            d = c.dotted
            if d in ("copy.copy", "copy.deepcopy") and e.args:
                return self.type_of(e.args[0])
            return ANY
        if isinstance(e.func, ast.Name):
            n = e.func.id
            if n in ("list", "sorted", "tuple") and e.args:
                t = self.type_of(e.args[0])
                return t if t.kind == "list" else Ty("list", (self.elem_type(t),))
            if n == "filter" and len(e.args) == 2:
                return self.type_of(e.args[1])
            if n in ("len", "int", "round"):
                return Ty("int")
            if n in ("float", "sum", "abs", "max", "min"):
                return Ty("float")
            if n == "str":
                return Ty("str")
            if n == "getattr" and len(e.args) >= 2:
                bt = self.type_of(e.args[0])
                if bt.kind == "type" and bt.cls is not None:
                    # registry class: all attributes are instances of one class
                    for v in bt.cls.class_attrs.values():
                        if isinstance(v, ast.Call):
                            r = self.repo.resolve(bt.cls.module, ast.unparse(v.func))
                            if isinstance(r, ClassInfo):
                                return Ty("cls", cls=r)
                return ANY
        if isinstance(e.func, ast.Attribute):
            # method of a builtin container
            bt = self.type_of(e.func.value).strip_opt()
            if bt.kind == "list" and e.func.attr in ("copy",):
                return bt
            if bt.kind == "list" and e.func.attr == "pop":
                return self.elem_type(bt)
        return ANY


class TypeEnvConst(TypeEnv):
    def __init__(self, repo, module):
        self.repo = repo
        self.func = None
        self.module = module
        self.locals = {}


class TypeEnvComp(TypeEnv):
    def __init__(self, parent: TypeEnv, comp):
        self.repo = parent.repo
        self.func = parent.func
        self.module = parent.module
        self.locals = dict(parent.locals)
        for g in comp.generators:
            self._bind_force(g.target, parent.elem_type(TypeEnv.type_of(self, g.iter)))

    def _bind_force(self, target, t):
        if isinstance(target, ast.Name):
            self.locals[target.id] = t
        elif isinstance(target, (ast.Tuple, ast.List)):
            for e in target.elts:
                self._bind_force(e, ANY)
