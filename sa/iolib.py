"""Model of the persistence libraries (pandas frames, csv, json, joblib, pathlib) for the evaluator.

Nothing here reads or writes anything: a write becomes an event carrying the values written and a description of the target
path; a read becomes a symbolic frame / mapping whose cells are the atoms  csv.<column>[row]  and  json.<key>.
The kind of a cell read back (number, string with its finite domain, list) is configured by the check from what the
writer stores there (cfg.storage_kinds), so that the loader's own conversions (to_weight, convert) see typed values."""
from __future__ import annotations

from . import poly
from .poly import Rat, Unmodelled
from .tyinfer import Ty, ANY
from .values import *
from .symeval import RaiseSignal, key_str, val_key


def desc_of(v):
    if isinstance(v, Opaque):
        return v.desc
    if isinstance(v, StrV) and v.s is not None:
        return v.s
    return key_str(val_key(v))


class IoMixin:
    # -- helpers -----------------------------------------------------------
    def storage_kind(self, store, name):
        return getattr(self.cfg, "storage_kinds", {}).get((store, name), ("num", None))

    def frame_column(self, fr: FrameV, name: str, frame, node):
        if fr.source == "built":
            if name not in fr.columns:
                raise RaiseSignal("KeyError", name, node, frame)
            return fr.columns[name]
        self.ctx.event("column-read", (fr.name, name), frame.loc(node))
        kind, dom = self.storage_kind("csv", name)
        path = "%s.%s" % (fr.name, name)
        if kind == "str":
            if dom:
                self.cfg.str_domains.setdefault(path, list(dom))
            return ListV("opaque", path=path, ty=Ty("str"), column=(fr, name))
        return ListV("opaque", path=path, ty=Ty("float"), column=(fr, name))

    def json_value(self, js: JsonV, key: str, frame, node):
        self.ctx.event("json-read", (js.name, key), frame.loc(node))
        kind, dom = self.storage_kind("json", key)
        path = "%s.%s" % (js.name, key)
        if kind == "str":
            if dom:
                self.cfg.str_domains.setdefault(path, list(dom))
            return StrV(None, path)
        if kind == "list":
            return ListV("opaque", path=path, ty=Ty("float"))
        if kind == "int":
            return Num(Rat.sym(path, ("int", "nonneg")))
        return Num(Rat.sym(path))

    # -- attribute / index / store hooks -------------------------------------------
    def io_getattr(self, base, attr, frame, node):
        if isinstance(base, FrameV):
            if attr in ("to_csv", "groupby", "iterrows", "copy", "reset_index", "to_json", "to_pickle", "head", "dropna", "sort_values", "isna"):
                return FuncV("ext", dotted="frame." + attr, self_val=base)
            if attr == "columns":
                if base.source == "built":
                    names = base.order if base.order is not None else list(base.columns)
                    return ListV("lit", items=[StrV(n) for n in names])
                return ListV("opaque", path="%s.columns" % base.name, ty=Ty("str"), is_columns=base)
            if attr in ("iloc", "loc"):
                return base
            if attr == "empty":
                return BoolV(None, ("empty", base.name))
            if attr in ("shape",):
                return TupV([Num(self.length(base, frame, node)), Num(Rat.sym("ncols(%s)" % base.name, ("int", "nonneg")))])
            if base.source == "read" or attr in base.columns:
                return self.frame_column(base, attr, frame, node)
            raise Unmodelled("frame attribute %s at %s" % (attr, frame.loc(node)))
        if isinstance(base, ListV) and getattr(base, "column", None) is not None:
            if attr in ("iloc", "values", "loc", "array"):
                return base
            if attr in ("isna", "isnull", "notna", "mean", "any", "all", "sum", "tolist", "to_list", "to_numpy", "unique", "astype", "copy", "item", "max", "min"):
                return FuncV("ext", dotted="column." + attr, self_val=base)
            raise Unmodelled("column attribute %s at %s" % (attr, frame.loc(node)))
        if isinstance(base, JsonV):
            if attr in ("get", "keys", "items", "values", "pop"):
                return FuncV("ext", dotted="jsonobj." + attr, self_val=base)
            raise Unmodelled("json object attribute %s at %s" % (attr, frame.loc(node)))
        return None

    def io_index(self, base, idx, frame, node):
        if isinstance(base, FrameV):
            idx = self.resolve_maybe(idx)
            if isinstance(idx, StrV):
                if idx.s is None:
                    idx = self.concretize_str(idx, frame, node) or idx
                if idx.s is None:
                    raise Unmodelled("frame column with unknown name at %s" % frame.loc(node))
                return self.frame_column(base, idx.s, frame, node)
            items = self.as_items(idx, frame, node) if isinstance(idx, (ListV, TupV)) else None
            if items is not None and all(isinstance(x, StrV) and x.s is not None for x in items):
                names = [x.s for x in items]
                if base.source == "built":
                    for n in names:
                        if n not in base.columns:
                            raise RaiseSignal("KeyError", n, node, frame)
                    out = FrameV("built", base.name, {n: base.columns[n] for n in names})
                    out.scalar = set(base.scalar) & set(names)
                    out.order = names
                    return out
                return base
            if isinstance(idx, Num):
                # frame.iloc[i]: a row
                return Opaque("%s.row[%s]" % (base.name, idx.r))
            raise Unmodelled("frame subscript %r at %s" % (idx, frame.loc(node)))
        if isinstance(base, JsonV):
            idx = self.resolve_maybe(idx)
            if isinstance(idx, StrV) and idx.s is None:
                idx = self.concretize_str(idx, frame, node) or idx
            if isinstance(idx, StrV) and idx.s is not None:
                return self.json_value(base, idx.s, frame, node)
            raise Unmodelled("json object subscript with unknown key at %s" % frame.loc(node))
        return None

    def io_store(self, base, idx, v, frame, node):
        if isinstance(base, FrameV) and base.source == "built":
            idx = self.resolve_maybe(idx)
            if isinstance(idx, StrV) and idx.s is None:
                idx = self.concretize_str(idx, frame, node) or idx
            if not (isinstance(idx, StrV) and idx.s is not None):
                raise Unmodelled("frame column store with unknown name at %s" % frame.loc(node))
            base.columns[idx.s] = v
            if base.order is not None and idx.s not in base.order:
                base.order.append(idx.s)
            if isinstance(v, (ListV, TupV)):
                base.scalar.discard(idx.s)
            else:
                base.scalar.add(idx.s)
            return True
        return False

    def io_length(self, v, frame, node):
        if isinstance(v, FrameV):
            if v.source == "built":
                for name, col in v.columns.items():
                    if name not in v.scalar:
                        return self.length(col, frame, node)
                return Rat.const(0)
            return Rat.sym("len(%s)" % v.name, ("nonneg", "int"))
        return None

    # -- calls ---------------------------------------------------------------------
    def io_call(self, d, self_val, args, kwargs, frame, node):
        where = frame.loc(node)
        ev = self.ctx.event
        if d == "pandas.DataFrame":
            src = args[0] if args else kwargs.get("data")
            src = self.force(src, frame, node) if src is not None else DictV({})
            if isinstance(src, DictV):
                fr = FrameV("built", "frame@%s" % where, dict(src.items))
                fr.scalar = {k for k, v in src.items.items() if not isinstance(v, (ListV, TupV))}
                cols = kwargs.get("columns")
                if cols is not None:
                    items = self.as_items(self.force(cols, frame, node), frame, node)
                    if items is not None and all(isinstance(x, StrV) and x.s is not None for x in items):
                        fr = self.io_index(fr, ListV("lit", items=items), frame, node)
                return fr
            raise Unmodelled("DataFrame built from %r at %s" % (src, where))
        if d in ("pandas.read_csv", "pandas.read_table"):
            p = args[0] if args else kwargs.get("filepath_or_buffer")
            ev("read_csv", desc_of(p), where)
            return FrameV("read", getattr(self.cfg, "csv_name", "csv"))
        if d in ("pandas.isna", "pandas.isnull", "numpy.isnan", "math.isnan", "pandas.notna", "pandas.notnull"):
            a0 = self.force(args[0], frame, node)
            b = BoolV(None, ("isna", key_str(val_key(a0))))
            if d.endswith(("notna", "notnull")):
                return BoolV(None, ("not", ("isna", key_str(val_key(a0)))))
            return b
        if d == "frame.to_csv":
            p = args[0] if args else kwargs.get("path_or_buf", NONE)
            ev("to_csv", (self_val, p, desc_of(p), dict(kwargs)), where)
            return NONE
        if d == "frame.groupby":
            return ListV("opaque", path="%s.groupby(%s)" % (self_val.name, desc_of(args[0]) if args else "?"), ty=Ty("tuple", [ANY, Ty("frame")]),
                         groups=(self_val, args[0] if args else None))
        if d in ("frame.copy", "frame.reset_index", "frame.head", "frame.dropna", "frame.sort_values"):
            return self_val
        if d.startswith("frame."):
            raise Unmodelled("frame method %s at %s" % (d[6:], where))
        if d.startswith("column."):
            m = d[7:]
            col = self_val
            if m in ("isna", "isnull"):
                return ListV("opaque", path="isna(%s)" % col.path, ty=Ty("float"), column=col.column)
            if m in ("notna",):
                return ListV("opaque", path="notna(%s)" % col.path, ty=Ty("float"), column=col.column)
            if m in ("mean", "sum", "max", "min"):
                return Num(Rat.sym("%s(%s)" % (m, col.path)))
            if m in ("any", "all"):
                return BoolV(None, (m, col.path))
            if m in ("tolist", "to_list", "to_numpy", "copy", "astype", "unique"):
                return col
            if m == "item":
                return self.index(col, Num(0), frame, node)
            raise Unmodelled("column method %s at %s" % (m, where))
        if d == "json.load":
            ev("json.load", desc_of(args[0]) if args else "?", where)
            return JsonV(getattr(self.cfg, "json_name", "json"))
        if d in ("json.loads",):
            return JsonV(getattr(self.cfg, "json_name", "json"))
        if d in ("json.dump", "json.dumps"):
            obj = args[0] if args else kwargs.get("obj")
            fp = args[1] if len(args) > 1 else kwargs.get("fp", NONE)
            ev("json.dump", (self.force(obj, frame, node), fp, desc_of(fp)), where)
            return NONE if d == "json.dump" else Opaque("json.dumps")
        if d == "jsonobj.get":
            return self.io_index(self_val, args[0], frame, node)
        if d.startswith("jsonobj."):
            raise Unmodelled("json object method %s at %s" % (d[8:], where))
        if d == "joblib.dump":
            obj = args[0] if args else kwargs.get("value")
            fp = args[1] if len(args) > 1 else kwargs.get("filename", NONE)
            ev("joblib.dump", (obj, fp, desc_of(fp)), where)
            return NONE
        if d == "joblib.load":
            p = args[0] if args else kwargs.get("filename", NONE)
            ev("joblib.load", desc_of(p), where)
            want = getattr(self.cfg, "joblib_result", None)
            if want is not None:
                return want(self, desc_of(p))
            return Opaque("joblib.load(%s)" % desc_of(p))
        if d == "builtins.open":
            p = args[0] if args else kwargs.get("file", NONE)
            mode = args[1] if len(args) > 1 else kwargs.get("mode", StrV("r"))
            ev("open", (desc_of(p), desc_of(mode)), where)
            return Opaque("open(%s, %s)" % (desc_of(p), desc_of(mode)))
        if d in ("pathlib.Path", "pathlib.PurePath"):
            a0 = args[0] if args else StrV(".")
            if isinstance(a0, Opaque):
                return a0    # Path(p) of a path-like value is that path
            return Opaque("Path(%s)" % desc_of(a0))
        return None
