#!/venv/bin/python
"""Setup-time self test of the analyser's own primitives (no repository code involved)."""
import os, sys
sys.path.insert(0, os.path.dirname(os.path.dirname(os.path.abspath(__file__))))
from sa.poly import Rat, mk_exp, mk_log, diff, subst, T, mk_fn

x, y = Rat.sym("x"), Rat.sym("y")
assert (x + y) ** 2 == x * x + 2 * x * y + y * y
assert mk_exp(x) * mk_exp(y) == mk_exp(x + y)
assert mk_log(mk_exp(x) * y) == x + mk_log(y)
assert diff(mk_exp(x * x), T.sym("x")) == 2 * x * mk_exp(x * x)
assert subst(x / (x + y), {T.sym("x").id: y}) == Rat.const(1) / 2
assert not (x / y == y / x)
assert mk_fn("max", x, y) == mk_fn("max", y, x)
print("selftest ok")

# ---- evaluator and zero-count rules on a synthetic package (positive examples that must match on every run) ----------------
import shutil, tempfile, textwrap
d = tempfile.mkdtemp(prefix="vself_")
try:
    os.makedirs(os.path.join(d, "pyvaporation"))
    open(os.path.join(d, "pyvaporation", "__init__.py"), "w").write("")
    open(os.path.join(d, "pyvaporation", "t.py"), "w").write(textwrap.dedent('''
        import typing
        import attr
        import itertools


        def t_continue(xs: typing.List[float], flag: bool) -> typing.List[float]:
            out = []
            for x in xs:
                if flag:
                    out.append(x)
                    continue
                out.append(2 * x)
            return out


        def t_break() -> int:
            r = 0
            for k in (1, 2, 3):
                if k == 3:
                    break
                r += k
            else:
                r = 100
            return r


        def t_walrus(x: float) -> float:
            if (y := x * 2) > 3:
                return y
            return 0.0


        def t_state(x0: float, n: int) -> typing.List[float]:
            xs = []
            cur = x0
            for _ in range(n + 1):
                nxt = cur * 2
                xs.append(cur)
                cur = nxt
            return xs


        def t_indexed(x0: float, n: int) -> typing.List[float]:
            xs = [x0]
            for i in range(n + 1):
                xs.append(xs[i] * 2)
            xs.pop(-1)
            return xs


        def t_prealloc(x0: float, n: int) -> typing.List[float]:
            xs = [x0] + [None] * (n + 1)
            for i in range(n + 1):
                xs[i + 1] = xs[i] * 2
            xs.pop(-1)
            return xs


        def t_inv_a(x0: float, c: float, n: int) -> typing.List[float]:
            out = []
            cur = x0
            rate = c
            for _ in range(n):
                if not cur > 0:
                    raise ValueError("exhausted")
                out.append(cur * rate)
                cur = cur - rate
                rate = (lambda: c)()
            return out


        def t_inv_b(x0: float, c: float, n: int) -> typing.List[float]:
            out = []
            cur = x0
            for _ in range(n):
                if not cur > 0:
                    raise ValueError("exhausted")
                out.append(cur * c)
                cur = cur - c
            return out


        def t_match(mode: str, a: float, b: float) -> float:
            match mode:
                case "x":
                    return a
                case "y" | "z":
                    return b
                case _:
                    raise ValueError("bad")


        def t_match_pair(t: typing.Optional[float], p: typing.Optional[float]) -> int:
            match (t is not None, p is not None):
                case (True, True):
                    raise ValueError("both")
                case (True, False):
                    return 1
                case (False, True):
                    return 2
                case _:
                    return 0


        def t_late(a: float, b: float) -> float:
            fs = [lambda: v for v in (a, b)]
            return fs[0]()


        def t_early(a: float, b: float) -> float:
            fs = [lambda v=v: v for v in (a, b)]
            return fs[0]()


        def _gen(n: int):
            for i in range(n):
                yield i * 2


        def t_gen(n: int) -> typing.List[int]:
            return [x + 1 for x in _gen(n)]


        def t_twice(x: float) -> float:
            big = x > 1
            if big:
                y = x
            if big:
                return y
            return 0.0


        def t_countdown(x: float) -> float:
            left = 100
            while x > 1:
                if left == 0:
                    raise ValueError("no")
                left -= 1
                x = x / 2
            return x


        def t_switch_off():
            attr.validators.set_disabled(True)


        def t_forever(x: float) -> float:
            while x > 0:
                x = x / 2
            return x
    '''))
    os.environ["VERIF_REPO"] = d
    from sa.repo import Repo
    from sa.evaluator import analyse
    from sa.symeval import Config, val_key
    from sa.poly import key_equiv
    from sa.values import Num, famify
    repo = Repo(d)
    cfg = Config()
    o = analyse(repo, repo.find_function("t_continue"), cfg)
    assert len(o) == 2 and all(x.kind == "return" for x in o), o
    o = analyse(repo, repo.find_function("t_break"), cfg)
    assert len(o) == 1 and isinstance(o[0].value, Num) and o[0].value.r == Rat.const(3), o
    o = analyse(repo, repo.find_function("t_walrus"), cfg)
    assert len(o) == 2
    a = analyse(repo, repo.find_function("t_state"), cfg)[0].value
    b = analyse(repo, repo.find_function("t_indexed"), cfg)[0].value
    assert a.kind == b.kind == "series" and a.popped == b.popped == 1 and key_equiv(val_key(a.init[0]), val_key(b.init[0])) \
        and key_equiv(val_key(a.per_iter[0]), val_key(b.per_iter[0])), (a, b)
    c3 = analyse(repo, repo.find_function("t_prealloc"), cfg)[0].value
    assert c3.kind == "series" and c3.popped == 1 and key_equiv(val_key(c3.init[0]), val_key(b.init[0])) \
        and key_equiv(val_key(c3.per_iter[0]), val_key(b.per_iter[0])), c3
    ia = [x for x in analyse(repo, repo.find_function("t_inv_a"), cfg) if x.kind == "return"]
    ib = [x for x in analyse(repo, repo.find_function("t_inv_b"), cfg) if x.kind == "return"]
    assert len(ia) == len(ib) == 1 and key_equiv(val_key(ia[0].value.per_iter[0]), val_key(ib[0].value.per_iter[0])), (ia, ib)
    o = analyse(repo, repo.find_function("t_match"), cfg)
    assert sorted(x.kind for x in o) == ["raise", "return", "return", "return"], o
    o = analyse(repo, repo.find_function("t_match_pair"), cfg)
    assert sorted((x.kind, str(getattr(x.value, "r", ""))) for x in o) == [("raise", ""), ("return", "0"), ("return", "1"), ("return", "2")], o
    o = analyse(repo, repo.find_function("t_late"), cfg)
    assert len(o) == 1 and o[0].value.r == Rat.sym("b"), o          # closures in a comprehension see the LAST binding
    o = analyse(repo, repo.find_function("t_early"), cfg)
    assert len(o) == 1 and o[0].value.r == Rat.sym("a"), o          # default values are evaluated when the lambda is created
    o = analyse(repo, repo.find_function("t_gen"), cfg)
    g = famify(o[0].value)
    assert len(o) == 1 and g.kind == "fam" and "2" in str(g.elem.r), o
    o = analyse(repo, repo.find_function("t_twice"), cfg)
    assert len(o) == 2 and all(x.kind == "return" for x in o), o    # a stored test used twice is one decision, not two
    from sa.props.c18 import validator_switches
    assert len(validator_switches(repo)) == 1
    from sa.props.c10 import counter_bounded
    import ast as _ast
    f = repo.find_function("t_forever")
    w = [n for n in _ast.walk(f.node) if isinstance(n, _ast.While)][0]
    assert counter_bounded(f, w)[0] is False
    f = repo.find_function("t_countdown")
    w = [n for n in _ast.walk(f.node) if isinstance(n, _ast.While)][0]
    assert counter_bounded(f, w)[0] is True, counter_bounded(f, w)
finally:
    shutil.rmtree(d, ignore_errors=True)
    os.environ.pop("VERIF_REPO", None)
print("selftest (evaluator, zero-count rules) ok")
