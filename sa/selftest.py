#!/venv/bin/python
"""Setup-time self test of the analyser's own primitives (no repository code involved)."""
import os, sys
sys.path.insert(0, os.path.dirname(os.path.dirname(os.path.abspath(__file__))))
from sa.poly import Rat, mk_exp, mk_log, diff, subst, T, mk_fn

x, y = Rat.sym("x"), Rat.sym("y")
assert (x + y) ** 2 == x * x + 2 * x * y + y * y
assert mk_exp(x) * mk_exp(y) == mk_exp(x + y)
assert mk_log(mk_exp(x) * y) == x + mk_log(y)
assert diff(mk_exp(x * x), T.sym("x")) == 2 * x * mk_exp(x * x)
assert subst(x / (x + y), {T.sym("x").id: y}) == Rat.const(1) / 2
assert not (x / y == y / x)
assert mk_fn("max", x, y) == mk_fn("max", y, x)
print("selftest ok")
