"""Statement / expression transfer functions of the normal-form evaluator."""
from __future__ import annotations

import ast
from fractions import Fraction
from typing import Dict, List, Optional, Any

from . import poly
from .poly import Rat, rat, Unmodelled, mk_fn, mk_exp, mk_log, mk_pow, mk_ite, key_str, key_equiv
from .repo import Repo, Module, ClassInfo, FuncInfo, Const, External, Ty, ANY, FLOAT, parse_type
from .values import *
from .symeval import (Ctx, Config, RaiseSignal, ReturnSignal, CallRec, LoopRec, Event, val_key,
                      opaque_of, opaque_result, NONNEG_FIELDS, POSITIVE_FIELDS, explore, Outcome)


class Frame:
    def __init__(self, func: Optional[FuncInfo], module: Module, env: Dict[str, Val], cls=None, parent=None):
        self.func = func
        self.module = module
        self.env = env
        self.cls = cls
        self.parent = parent  # enclosing frame for lambdas / comprehensions

    def lookup(self, name):
        f = self
        while f is not None:
            if name in f.env:
                return f.env[name]
            f = f.parent
        return None

    def loc(self, node):
        if self.func is not None:
            return self.func.loc(node)
        return "%s:%d" % (self.module.relpath, getattr(node, "lineno", 0))


BUILTIN_EXC = {"ValueError", "KeyError", "TypeError", "FileExistsError", "AssertionError", "Exception",
               "IndexError", "AttributeError", "NotImplementedError", "RuntimeError", "ZeroDivisionError",
               "FileNotFoundError", "ArithmeticError", "OverflowError", "StopIteration"}


def bind_args(func: FuncInfo, args: list, kwargs: dict, self_val=None, where=None):
    """Bind call arguments to parameters exactly as CPython does.
    Returns (bound dict, defaulted set). Raises RaiseSignal(TypeError)."""
    params = list(func.params)
    bound = {}
    if self_val is not None and params:
        bound[params[0]] = self_val
        params = params[1:]
    if len(args) > len(params) and func.vararg is None:
        raise RaiseSignal("TypeError", "%s() takes %d positional arguments but %d were given"
                          % (func.qualname, len(params), len(args)))
    for p, a in zip(params, args):
        bound[p] = a
    if func.vararg is not None:
        bound[func.vararg] = TupV(list(args[len(params):]))
    extra = {}
    for k, v in kwargs.items():
        if k in bound:
            raise RaiseSignal("TypeError", "%s() got multiple values for argument %r" % (func.qualname, k))
        if k not in func.params and k not in func.kwonly:
            if func.kwarg is None:
                raise RaiseSignal("TypeError", "%s() got an unexpected keyword argument %r" % (func.qualname, k))
            extra[k] = v
            continue
        bound[k] = v
    if func.kwarg is not None:
        bound[func.kwarg] = DictV(extra)
    defaulted = set()
    for p in params + func.kwonly:
        if p not in bound:
            if p in func.defaults:
                defaulted.add(p)
            else:
                raise RaiseSignal("TypeError", "%s() missing required argument %r" % (func.qualname, p))
    return bound, defaulted


_GEN_CACHE = {}


def generator_body(func: FuncInfo):
    """A generator function that is consumed completely produces the list of the values it yields, in order: its body is run
    with every `yield v` statement read as `__gen__.append(v)` and the list handed back at the end (None for plain functions)."""
    k = id(func.node)
    if k in _GEN_CACHE:
        return _GEN_CACHE[k]
    own = []

    def scan(n):
        for c in ast.iter_child_nodes(n):
            if isinstance(c, (ast.FunctionDef, ast.AsyncFunctionDef, ast.Lambda, ast.ClassDef)):
                continue
            if isinstance(c, (ast.Yield, ast.YieldFrom)):
                own.append(c)
            scan(c)
    scan(func.node)
    if not own:
        _GEN_CACHE[k] = None
        return None

    class Tr(ast.NodeTransformer):
        def visit_FunctionDef(self, n):
            return n
        visit_Lambda = visit_AsyncFunctionDef = visit_ClassDef = visit_FunctionDef

        def visit_Expr(self, n):
            if isinstance(n.value, ast.Yield):
                val = n.value.value if n.value.value is not None else ast.Constant(value=None)
                call = ast.Call(func=ast.Attribute(value=ast.Name(id="__gen__", ctx=ast.Load()), attr="append", ctx=ast.Load()),
                                args=[val], keywords=[])
                return ast.copy_location(ast.Expr(value=ast.copy_location(call, n)), n)
            return n

        def visit_Return(self, n):
            return ast.copy_location(ast.Return(value=ast.Name(id="__gen__", ctx=ast.Load())), n)

    import copy
    body = [Tr().visit(copy.deepcopy(st)) for st in func.node.body]
    for st in body:
        for n in ast.walk(st):
            if isinstance(n, (ast.Yield, ast.YieldFrom)):
                _GEN_CACHE[k] = None   # a yield used as an expression / yield from: not modelled (the caller sees Unmodelled)
                return None
    first = func.node.body[0]
    init = ast.copy_location(ast.Assign(targets=[ast.Name(id="__gen__", ctx=ast.Store())], value=ast.List(elts=[], ctx=ast.Load())), first)
    ret = ast.copy_location(ast.Return(value=ast.Name(id="__gen__", ctx=ast.Load())), func.node.body[-1])
    out = [init] + body + [ret]
    for st in out:
        ast.fix_missing_locations(st)
    _GEN_CACHE[k] = out
    return out


class Interp:
    def __init__(self, ctx: Ctx):
        self.ctx = ctx
        self.repo = ctx.repo
        self.cfg = ctx.cfg

    # ------------------------------------------------------------------
    # entry
    # ------------------------------------------------------------------
    def run_function(self, func: FuncInfo, bound: Dict[str, Val], top=False) -> Val:
        frame = Frame(func, func.module, dict(bound), cls=func.cls)
        if top:
            self.ctx.top_env = frame.env
        self.ctx.depth += 1
        try:
            if self.ctx.depth > 40:
                raise Unmodelled("call depth exceeded at %s" % func.qualname)
            self.exec_block(generator_body(func) or func.node.body, frame)
        except ReturnSignal as r:
            return r.value
        finally:
            self.ctx.depth -= 1
        return NONE

    def opaque_args(self, func: FuncInfo, self_path="self", overrides=None) -> Dict[str, Val]:
        """Opaque (symbolic) arguments for a stand-alone analysis of func."""
        out = {}
        overrides = overrides or {}
        params = list(func.params)
        if func.cls is not None and not func.is_staticmethod and params:
            first = params.pop(0)
            if func.is_classmethod:
                out[first] = ClassV(func.cls)
            else:
                out[first] = overrides.get(first, ObjV(func.cls, path=self_path))
        from .symeval import new_parameters
        fresh = set(new_parameters(func))
        for p in params + func.kwonly:
            if p in overrides:
                out[p] = overrides[p]
                continue
            if p in fresh:
                # a parameter added after the checks were validated: existing callers cannot pass it, it has its default
                out[p] = self.eval(func.defaults[p], Frame(None, func.module, {}, func.cls))
                continue
            ty = parse_type(self.repo, func.module, func.annotations.get(p), func.cls)
            out[p] = opaque_of(ty, p, self.ctx)
        return out

    # ------------------------------------------------------------------
    # statements
    # ------------------------------------------------------------------
    def exec_block(self, stmts, frame: Frame):
        for st in stmts:
            self.exec_stmt(st, frame)

    def exec_stmt(self, st, frame: Frame):
        m = getattr(self, "st_" + type(st).__name__, None)
        if m is None:
            raise Unmodelled("statement %s at %s" % (type(st).__name__, frame.loc(st)))
        try:
            m(st, frame)
        except RaiseSignal as e:
            if e.where is None:
                e.where = frame.loc(st)
                e.node = st
            raise

    def st_Expr(self, st, frame):
        if isinstance(st.value, ast.Constant):
            return  # docstring
        self.eval(st.value, frame)

    def st_Pass(self, st, frame):
        pass

    def st_Import(self, st, frame):
        pass

    st_ImportFrom = st_Import

    def st_Return(self, st, frame):
        raise ReturnSignal(self.eval(st.value, frame) if st.value is not None else NONE)

    def st_Raise(self, st, frame):
        name, msg = "Exception", ""
        if st.exc is not None:
            e = st.exc
            if isinstance(e, ast.Call):
                name = ast.unparse(e.func)
                if e.args and isinstance(e.args[0], ast.Constant):
                    msg = str(e.args[0].value)
            else:
                name = ast.unparse(e)
        raise RaiseSignal(name, msg, st, frame)

    def st_Assert(self, st, frame):
        tv = self.eval(st.test, frame)
        v = self.truth(tv, frame, st.test, fork=False)
        if v is False:
            raise RaiseSignal("AssertionError", "", st, frame)
        if v is None:
            self.ctx.event("assert-assumed", ast.unparse(st.test), frame.loc(st))
            self.ctx.event("assert-cond", getattr(tv, "cond", None), frame.loc(st))

    def st_Assign(self, st, frame):
        v = self.eval(st.value, frame)
        for t in st.targets:
            self.assign(t, v, frame)

    def st_AnnAssign(self, st, frame):
        if st.value is not None:
            self.assign(st.target, self.eval(st.value, frame), frame)

    def st_AugAssign(self, st, frame):
        cur = self.eval(_as_load(st.target), frame)
        rhs = self.eval(st.value, frame)
        v = self.binop(st.op, cur, rhs, frame, st)
        if isinstance(st.target, ast.Name) and self.ctx.loop_stack:
            lp = self.ctx.loop_stack[-1]
            lp.setdefault("aug", {}).setdefault(st.target.id, []).append((st.op, rhs, st))
        self.assign(st.target, v, frame)

    def assign(self, target, v: Val, frame: Frame):
        if isinstance(target, ast.Name):
            frame.env[target.id] = v
            return
        if isinstance(target, (ast.Tuple, ast.List)):
            items = self.unpack(v, len(target.elts), frame, target)
            for t, x in zip(target.elts, items):
                self.assign(t, x, frame)
            return
        if isinstance(target, ast.Attribute):
            obj = self.eval(target.value, frame)
            if isinstance(obj, ObjV):
                self.ctx.event("attr-store", (val_key(obj), target.attr), frame.loc(target))
                obj.fields[target.attr] = v
                return
            raise Unmodelled("attribute store on %r at %s" % (obj, frame.loc(target)))
        if isinstance(target, ast.Subscript):
            base = self.eval(target.value, frame)
            idx = self.eval(target.slice, frame)
            self.ctx.event("item-store", (val_key(base), val_key(idx), v), frame.loc(target))
            if self.io_store(base, idx, v, frame, target):
                return
            if isinstance(base, DictV) and isinstance(idx, StrV) and idx.s is None:
                idx = self.concretize_str(idx, frame, target) or idx
            if isinstance(base, DictV) and isinstance(idx, StrV) and idx.s is not None:
                base.items[idx.s] = v
                return
            if isinstance(base, ListV) and base.kind == "lit" and isinstance(idx, Num) and idx.r.as_int() is not None:
                base.items[idx.r.as_int()] = v
                return
            if isinstance(base, ListV) and base.kind == "series" and not base.closed and getattr(base, "filled_by_index", False) and isinstance(idx, Num):
                # a preallocated list filled by index in its loop: the store at position len(init) + (k - lo) is this step's append
                want = Rat.atom(base.k) - base.lo + len(base.init)
                if getattr(base, "overwrite_current", False) and idx.r == want - 1:
                    if getattr(base, "final_k", None) is not None:
                        raise Unmodelled("second completion of the current record of %s at %s" % (base.name, frame.loc(target)))
                    base.final_k = v
                    return
                if idx.r == want:
                    if any(n is target for n in getattr(base, "append_nodes", [])):
                        raise Unmodelled("second store into the same slot of %s at %s" % (base.name, frame.loc(target)))
                    self.series_append(base, v, frame, target)
                    return
                raise Unmodelled("store into %s at an index that is not this step's slot at %s" % (base.name, frame.loc(target)))
            if isinstance(base, ListV):
                # element store into a symbolic list: remember it as an override
                ov = getattr(base, "overrides", None)
                if ov is None:
                    ov = base.overrides = []
                ov.append((idx, v))
                return
            raise Unmodelled("subscript store at %s" % frame.loc(target))
        raise Unmodelled("assignment target %s" % type(target).__name__)

    def unpack(self, v, n, frame, node):
        if isinstance(v, TupV) and len(v.items) == n:
            return v.items
        if isinstance(v, ListV) and v.kind == "lit" and len(v.items) == n:
            return v.items
        if isinstance(v, Num):
            sa = v.r.single_atom()
            if sa is not None:
                return [Num(Rat.atom(poly.T.app("fn", "idx", (v.r, i)))) for i in range(n)]
            # scalar * vector-valued atom (e.g. lstsq(...)[0] * R)
            cands = [i for i in v.r.atom_ids() if poly.T.get(i).kind != "sym" and (poly.T.get(i).kind == "ucall" or poly.T.get(i).name in ("idx", "attr"))]
            if len(cands) == 1:
                a = poly.T.get(cands[0])
                sc = v.r / Rat.atom(a)
                if a.id not in sc.deps():
                    return [Num(sc * Rat.atom(poly.T.app("fn", "idx", (Rat.atom(a), i)))) for i in range(n)]
        if isinstance(v, (Opaque,)):
            return [Opaque("%s[%d]" % (v.desc, i)) for i in range(n)]
        if isinstance(v, ObjV) and getattr(v.cls, "is_namedtuple", False) and len(v.cls.fields) == n:
            return [self.obj_attr(v, f.name, frame, node) for f in v.cls.fields]
        raise Unmodelled("cannot unpack %r into %d targets at %s" % (v, n, frame.loc(node)))

    def st_If(self, st, frame):
        t = self.truth(self.eval(st.test, frame), frame, st.test)
        self.exec_block(st.body if t else st.orelse, frame)

    def st_Match(self, st, frame):
        """match / case: the chain of tests it stands for (value patterns are `==`, None / True / False are `is`, sequence
        patterns compare element by element, `_` and bare names always match, `a | b` tries each in turn)."""
        subject = self.eval(st.subject, frame)
        for case in st.cases:
            if self.match_pattern(case.pattern, subject, frame, st):
                if case.guard is None or self.truth(self.eval(case.guard, frame), frame, case.guard):
                    self.exec_block(case.body, frame)
                    return

    def match_pattern(self, pat, val, frame, node) -> bool:
        if isinstance(pat, ast.MatchValue):
            return bool(self.truth(self.compare(ast.Eq(), val, self.eval(pat.value, frame), frame, node), frame, node))
        if isinstance(pat, ast.MatchSingleton):
            v0 = self.resolve_maybe(val)
            if isinstance(pat.value, bool):
                if isinstance(v0, BoolV):
                    return bool(self.truth(v0, frame, node)) == pat.value   # a comparison result is True or False, nothing else
                if isinstance(v0, (Num, StrV, NoneV, ObjV, TupV, ListV)) or v0 is NONE:
                    return False
            return bool(self.truth(self.compare(ast.Is(), val, self.eval(ast.Constant(value=pat.value), frame), frame, node), frame, node))
        if isinstance(pat, ast.MatchAs):
            if pat.pattern is not None and not self.match_pattern(pat.pattern, val, frame, node):
                return False
            if pat.name is not None:
                frame.env[pat.name] = val
            return True
        if isinstance(pat, ast.MatchOr):
            return any(self.match_pattern(p, val, frame, node) for p in pat.patterns)
        if isinstance(pat, ast.MatchSequence) and not any(isinstance(p, ast.MatchStar) for p in pat.patterns):
            v = self.force(val, frame, node)
            items = self.as_items(v, frame, node) if isinstance(v, (TupV, ListV)) else None
            if items is None:
                raise Unmodelled("sequence pattern against %r at %s" % (v, frame.loc(node)))
            if len(items) != len(pat.patterns):
                return False
            return all(self.match_pattern(p, x, frame, node) for p, x in zip(pat.patterns, items))
        raise Unmodelled("match pattern %s at %s" % (type(pat).__name__, frame.loc(node)))

    def st_Try(self, st, frame):
        caught = []
        for h in st.handlers:
            if h.type is None:
                caught.append("*")
            elif isinstance(h.type, ast.Tuple):
                caught.extend(ast.unparse(x) for x in h.type.elts)
            else:
                caught.append(ast.unparse(h.type))
        stack = getattr(self.ctx, "try_stack", None)
        if stack is None:
            stack = self.ctx.try_stack = []
        stack.append(caught)
        try:
            try:
                self.exec_block(st.body, frame)
            finally:
                stack.pop()
        except RaiseSignal as e:
            for h in st.handlers:
                if self.handler_matches(h, e):
                    self.exec_block(h.body, frame)
                    break
            else:
                raise
        else:
            self.exec_block(st.orelse, frame)
        finally:
            pass
        self.exec_block(st.finalbody, frame)

    def handler_matches(self, h, e: RaiseSignal):
        if h.type is None:
            return True
        if isinstance(h.type, ast.Tuple):
            names = [ast.unparse(x) for x in h.type.elts]
        else:
            names = [ast.unparse(h.type)]
        if "Exception" in names or "BaseException" in names:
            return True
        return e.exc_type in names

    def st_With(self, st, frame):
        for it in st.items:
            v = self.eval(it.context_expr, frame)
            if it.optional_vars is not None:
                self.assign(it.optional_vars, v, frame)
        self.exec_block(st.body, frame)

    def st_FunctionDef(self, st, frame):
        fv = FuncV("lambda", node=st, frame=frame)
        fv.defaults = [self.eval(d, frame) for d in st.args.defaults]   # default values are evaluated when the function is created
        frame.env[st.name] = fv

    def st_Continue(self, st, frame):
        raise Unmodelled("continue at %s" % frame.loc(st))

    def st_Break(self, st, frame):
        if getattr(self.ctx, "unrolled", 0) > 0:
            from .loops import BreakSignal
            raise BreakSignal()
        raise Unmodelled("break at %s" % frame.loc(st))

    def st_Global(self, st, frame):
        self.ctx.event("global-decl", st.names, frame.loc(st))

    st_Nonlocal = st_Global

    def st_Delete(self, st, frame):
        for t in st.targets:
            if isinstance(t, ast.Subscript) and not isinstance(t.slice, ast.Slice):
                # del xs[i] is xs.pop(i) with the value discarded
                lst = self.force(self.eval(t.value, frame), frame, t)
                if not isinstance(lst, ListV):
                    raise Unmodelled("del of an element of %r at %s" % (lst, frame.loc(st)))
                self.list_method("pop", lst, [self.eval(t.slice, frame)], {}, frame, t)
            elif isinstance(t, ast.Name):
                fr = frame
                while fr is not None and t.id not in fr.env:
                    fr = fr.parent
                if fr is not None:
                    del fr.env[t.id]
            else:
                raise Unmodelled("del at %s" % frame.loc(st))

    # ------------------------------------------------------------------
    # truth / decisions
    # ------------------------------------------------------------------
    def truth(self, v: Val, frame, node, fork=True) -> Optional[bool]:
        if isinstance(v, MaybeV):
            v = self.resolve_maybe(v)
        if isinstance(v, BoolV):
            if v.b is not None:
                return v.b
            if not fork:
                return self.ctx.decided(v.cond) if getattr(self.ctx, "dry", None) is None else None
            return self.ctx.decide(v.cond, frame.loc(node))
        if v is NONE or isinstance(v, NoneV):
            return False
        if isinstance(v, Num):
            if v.r.is_const():
                return v.r.const_value() != 0
            if not fork:
                return None
            return self.ctx.decide(("ne", v.r, Rat.const(0)), frame.loc(node))
        if isinstance(v, StrV) and v.s is not None:
            return bool(v.s)
        if isinstance(v, (ObjV, FuncV, ClassV)):
            return True
        if isinstance(v, ListV) and v.kind == "lit":
            return bool(v.items)
        if isinstance(v, TupV):
            return bool(v.items)
        if isinstance(v, MaybeV):
            if not fork:
                return None
            if self.ctx.decide(("isnone", v.path), frame.loc(node)):
                return False
            return self.truth(opaque_of(v.ty, v.path, self.ctx), frame, node, fork)
        if not fork:
            return None
        return self.ctx.decide(("truth", key_str(val_key(v))), frame.loc(node))

    def resolve_maybe(self, v: Val) -> Val:
        if isinstance(v, MaybeV):
            f = self.ctx.facts.get(v.path)
            if f == "none":
                return NONE
            if f == "notnone":
                return opaque_of(v.ty, v.path, self.ctx)
        if isinstance(v, StrV) and v.s is None and v.path is not None:
            f = self.ctx.facts.get(v.path)
            if isinstance(f, tuple) and f[0] == "str":
                return StrV(f[1], v.path)
        return v

    def force(self, v: Val, frame, node) -> Val:
        """Use of a value in a position that needs a non-None value."""
        v = self.resolve_maybe(v)
        if isinstance(v, MaybeV):
            self.ctx.event("maybe-none-deref", v.path, frame.loc(node))
            return opaque_of(v.ty, v.path, self.ctx)
        return v


def _as_load(node):
    n = ast.parse(ast.unparse(node), mode="eval").body
    ast.copy_location(n, node)
    for sub in ast.walk(n):
        if not hasattr(sub, "lineno"):
            ast.copy_location(sub, node)
    return n
