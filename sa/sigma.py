"""Role permutation sigma (component 1 <-> component 2) on normal forms.

sigma is a substitution: symbols are renamed by swapping role tokens in their
paths, the p-field of a composition goes to 1 - p, index selectors of pair
values swap, uninterpreted applications get their role-named parameters
permuted (assume/guarantee: the callee's own equivariance is checked where the
callee is analysed), known functions are rebuilt from the images of their
arguments."""
from __future__ import annotations

import re
from typing import Optional

from . import poly
from .poly import Rat, Atom, rewrite, rebuild_atom, T
from .symeval import PAIR_PATHS

_TOKEN = {"first": "second", "second": "first", "1": "2", "2": "1", "12": "21", "21": "12"}
_TAIL = re.compile(r"^([A-Za-z]+?)(12|21)$")


def swap_ident(ident: str) -> str:
    parts = ident.split("_")
    out = []
    for p in parts:
        if p in _TOKEN:
            out.append(_TOKEN[p])
            continue
        m = _TAIL.match(p)
        if m:
            out.append(m.group(1) + _TOKEN[m.group(2)])
            continue
        out.append(p)
    return "_".join(out)


_SEG = re.compile(r"[A-Za-z_][A-Za-z_0-9]*|\[[^\]]*\]|.")


def swap_path(path: str, fixed=()) -> str:
    """Swap role tokens in a dotted path; [0]/[1] swap only after a pair-typed prefix."""
    for f in fixed:
        if path == f or path.startswith(f + ".") or path.startswith(f + "["):
            return path
    segs = _SEG.findall(path)
    out = []
    prefix = ""
    for s in segs:
        if s.startswith("[") and s in ("[0]", "[1]") and prefix in PAIR_PATHS:
            t = "[1]" if s == "[0]" else "[0]"
            out.append(t)
            prefix += s   # the registry is keyed by original paths
            continue
        if re.match(r"[A-Za-z_]", s):
            out.append(swap_ident(s))
        else:
            out.append(s)
        prefix += s
    return "".join(out)


class Sigma:
    def __init__(self, repo, fixed_paths=(), fixed_params=None):
        self.repo = repo
        self.fixed = tuple(fixed_paths)
        self.cache = {}
        self.fixed_params = fixed_params or {}

    def path(self, p: str) -> str:
        return swap_path(p, self.fixed)

    def __call__(self, x):
        if isinstance(x, Rat):
            return rewrite(x, self.atom_fn, self.key_fn, self.cache)
        return self.key(x)

    def key(self, k):
        if isinstance(k, Rat):
            return self(k)
        if isinstance(k, tuple):
            r = self.key_fn(k)
            if r is not None:
                return r
            return tuple(self.key(e) for e in k)
        return k

    # -- atoms -----------------------------------------------------------
    def atom_fn(self, a: Atom) -> Optional[Rat]:
        if a.kind == "sym":
            if "bound" in a.flags and not a.name.startswith("#w."):
                return None
            n = self.path(a.name)
            r = Rat.atom(T.sym(n, a.flags, a.meta)) if n != a.name else Rat.atom(a)
            if "comp_p" in a.flags:
                return 1 - r
            return r
        if a.kind == "fn" and a.name == "idx":
            base, i = a.args
            nb = self(base)
            if a.meta.get("pair") and isinstance(i, int):
                i = 1 - i
            elif isinstance(i, Rat):
                i = self(i)
            return Rat.atom(T.app("fn", "idx", (nb, i), flags=a.flags, meta=a.meta))
        if a.kind == "fn" and a.name == "attr":
            base, name = a.args
            nb = self(base)
            r = Rat.atom(T.app("fn", "attr", (nb, name), flags=a.flags, meta=a.meta))
            if "comp_p" in a.flags:
                return 1 - r
            return r
        if a.kind == "fn" and a.name == "loopfix":
            path, key = a.args
            r = Rat.atom(T.app("fn", "loopfix", (path, self.key(key)), flags=a.flags, meta=a.meta))
            if "comp_p" in a.flags:
                return 1 - r
            return r
        if a.kind == "ucall":
            func = a.meta.get("func")
            args = list(a.args)
            if func is not None:
                names = func.params + func.kwonly
                fixed = self.fixed_params.get(func.qualname, ())
                perm = list(range(len(args)))
                for i, nme in enumerate(names):
                    if nme in fixed:
                        continue
                    sw = swap_ident(nme)
                    if sw != nme and sw in names:
                        perm[i] = names.index(sw)
                args = [args[perm[i]] if perm[i] < len(args) else args[i] for i in range(len(args))]
            new = [self.key(k) for k in args]
            return Rat.atom(T.app("ucall", a.name, tuple(new), flags=a.flags, meta=a.meta))
        return None

    # -- keys ----------------------------------------------------------------
    def key_fn(self, k):
        if not k:
            return None
        tag = k[0]
        if tag in ("obj", "list", "maybe", "str?") and isinstance(k[-1], str):
            return k[:-1] + (self.path(k[-1]),)
        if tag == "new" and len(k) >= 2 and k[1] == "Composition":
            out = [tag, k[1]]
            for item in k[2:]:
                fname, fv = item
                if fname == "p" and isinstance(fv, Rat):
                    out.append((fname, 1 - self(fv)))
                else:
                    out.append((fname, self.key(fv)))
            return tuple(out)
        if tag == "tup" and len(k) == 3:
            return ("tup", self.key(k[2]), self.key(k[1]))
        return None
