"""C12 — membrane permeance follows the Arrhenius law of its experiments (kinds S + T + A)."""
import itertools

from .. import poly
from ..poly import Rat, key_equiv, key_str
from ..evaluator import analyse
from ..procmodel import make_config, permeance_summary, KG, UNITS
from ..oracle import Oracle
from ..symeval import val_key, RaiseSignal
from ..values import *
from ..repo import AnalysisError

EXPL = ("Membrane.get_permeance is evaluated for every combination of (activation energy stated / not, initial permeance given / "
        "not, unit of the stored permeance) and both outcomes of the temperature comparison; on each path the returned permeance "
        "is compared, as a normal form over the experiments' fields as atoms, with the property's formula written once in the "
        "checker (nearest experiment by argmin |T_i - T| over the component's own experiments; measured value at T_exp; otherwise "
        "reference * exp(-Ea/R (1/T - 1/T_exp)) with the stated or regressed Ea). The regression's design matrix and response, the "
        "molar/mass selectivity relation and the pure-component flux in its four permeate cells are decided the same way.")

INL = ("Membrane.get_penetrant_data", "IdealExperiments.__len__")
SETUP = [("CE", "self.get_penetrant_data(component)"),
         ("TL", "[e.temperature for e in CE.experiments]"),
         ("IDX", "min(range(len(TL)), key=lambda i: abs(TL[i] - temperature))"),
         ("E", "CE.experiments[IDX]")]


def mk_oracle(repo, f, cfg, facts):
    o = Oracle(repo, f, cfg, facts)
    for n, s in SETUP:
        o.let(n, s)
    return o


def same_temperature(o, t_exp: Rat, t: Rat):
    from ..symeval import Ctx
    d = t_exp - t
    allowed = {-1, 0, 1}
    S = Ctx._SIGNS
    for c, dec in o.trace:
        neg = False
        while isinstance(c, tuple) and c and c[0] == "not":
            c, neg = c[1], not neg
        if isinstance(c, tuple) and len(c) == 3 and c[0] in S and isinstance(c[1], Rat) and isinstance(c[2], Rat):
            dd = c[1] - c[2]
            s = set(S[c[0]])
            if dec == neg:
                s = {-1, 0, 1} - s
            if dd == d:
                allowed &= s
            elif dd == -d:
                allowed &= {-x for x in s}
    if allowed == {0}:
        return True
    if 0 not in allowed:
        return False
    return None


def run(ck):
    repo = ck.repo
    ck.explanation = EXPL
    ck.technique = "exhaustive arm enumeration + normal-form comparison with the property's formula"
    ck.undecided("numeric recovery of Ea by numpy.linalg.lstsq (library numerics; the regression's structure is decided); exact ties "
                 "between nearest experiments (excluded by the property)")
    f = repo.find_function("Membrane.get_permeance")
    ck.analysed_function(f)
    from ..purity import purity
    purity(ck, repo, [f] + [repo.find_function("Membrane." + n) for n in ("calculate_activation_energy", "get_ideal_selectivity", "get_estimated_pure_component_flux", "get_penetrant_data")])
    base = make_config({}, extra_inline=INL)
    o0 = mk_oracle(repo, f, base, {})
    E = o0.env["E"]
    if not (isinstance(E, ObjV) and E.path):
        raise AnalysisError("cannot name the selected experiment")
    ae_path = E.path + ".activation_energy"
    un_path = E.path + ".permeance.units"
    arms = 0
    for ae, init, unit in itertools.product(("none", "notnone"), ("none", "notnone"), UNITS):
        facts = {ae_path: ae, "initial_permeance": init, un_path: ("str", unit)}
        cfg = make_config(facts, extra_inline=INL)
        outs = analyse(repo, f, cfg)
        ck.analysed["paths"] += len(outs)
        label = "Ea %s, initial permeance %s, stored unit %s" % ("stated" if ae == "notnone" else "not stated",
                                                                 "given" if init == "notnone" else "None", unit)
        for o in outs:
            sck = ck.scoped(label)
            orc = mk_oracle(repo, f, cfg, o.facts)
            Eo = orc.env["E"]
            t_exp = orc.eval("E.temperature").r
            T = Rat.sym("temperature")
            same = same_temperature(o, t_exp, T)
            where = f.loc()
            if o.kind != "return":
                sck.ob("M2", f.qualname, "permeance query returns", o.exc.where or where, False,
                       "raises %s: %s" % (o.exc.exc_type, o.exc.msg))
                continue
            # M1: selection
            idx = o.env.get("index") if o.env else None
            want_idx = orc.env["IDX"]
            if idx is not None:
                sck.ob("M1", f.qualname, "nearest experiment = argmin |T_i - T| over the component's own experiments", where,
                       isinstance(idx, Num) and idx.r == want_idx.r, expected=lambda: str(want_idx.r)[:300], found=lambda: repr(idx)[:300])
            arms += 1
            if same is None:
                sck.ob("M2", f.qualname, "arm decides whether T equals the experiment's temperature", where, False,
                       "a returning path does not compare the query temperature with the nearest experiment's temperature")
                continue
            if same:
                want = orc.eval("E.permeance.convert(to_units=Units().kg_m2_h_kPa, component=component)")
                sck.ob("M2", f.qualname, "at an experiment's temperature the measured permeance is returned (kg units)", where,
                       key_equiv(perm_key(o.value), perm_key(want)), expected=lambda: key_str(perm_key(want))[:300],
                       found=lambda: key_str(perm_key(o.value))[:300], sample=True)
                continue
            ref = "initial_permeance" if (init == "notnone" and ae == "notnone") else \
                "E.permeance.convert(to_units=Units().kg_m2_h_kPa, component=component)"
            ea = "self.calculate_activation_energy(component)" if ae == "none" else "E.activation_energy"
            want = orc.eval("(%s).value * numpy.exp(-(%s) / R * (1 / temperature - 1 / E.temperature))" % (ref, ea))
            got = o.value
            gv = got.fields.get("value") if isinstance(got, ObjV) and got.constructed else None
            gu = got.fields.get("units") if isinstance(got, ObjV) and got.constructed else None
            sck.ob("M2", f.qualname, "Arrhenius extrapolation from the nearest experiment (%s Ea, reference %s)" %
                   ("regressed" if ae == "none" else "stated", "initial permeance" if "initial" in ref else "measured permeance"), where,
                   isinstance(gv, Num) and isinstance(want, Num) and gv.r == want.r,
                   "value must be reference * exp(-Ea/R * (1/T - 1/T_exp))", expected=lambda: str(want.r)[:400],
                   found=lambda: str(gv.r)[:400] if isinstance(gv, Num) else repr(got)[:300], sample=True)
            sck.ob("M2", f.qualname, "extrapolated permeance is in kg/(m2 h kPa)", where, isinstance(gu, StrV) and gu.s == KG, found=repr(gu))
            # M6: for experiments lying on one Arrhenius line the result does not depend on which experiment is nearest
            if ae == "notnone" and init == "none" and unit == KG and isinstance(gv, Num):
                from ..poly import subst, mk_exp
                pv = orc.eval("E.permeance.value").r.single_atom()
                te = t_exp.single_atom()
                ea = orc.eval("E.activation_energy").r
                if pv is not None and te is not None:
                    P0, T0 = Rat.sym("#P0", ("nonneg", "pos")), Rat.sym("#T0", ("nonneg", "pos"))
                    Rc = orc.eval("R").r
                    line = P0 * mk_exp(-ea / Rc * (1 / t_exp - 1 / T0))
                    on_line = subst(gv.r, {pv.id: line})
                    want_line = P0 * mk_exp(-ea / Rc * (1 / T - 1 / T0))
                    sck.ob("M6", f.qualname, "on an Arrhenius line the permeance is the same whichever experiment is nearest", where,
                           on_line == want_line, "substituting P_i = P0*exp(-Ea/R (1/T_i - 1/T0)) must give P0*exp(-Ea/R (1/T - 1/T0))",
                           expected=lambda: str(want_line)[:300], found=lambda: str(on_line)[:300], sample=True)
    ck.floor("permeance arms evaluated", arms, 24)
    check_regression(ck, repo)
    check_selectivity(ck, repo)
    check_pure_flux(ck, repo)
    ck.exhaustive = True
    ck.assume("the component filter of get_penetrant_data is an uninterpreted sub-list of the membrane's experiments")


def perm_key(v):
    """Key of a permeance value up to the clamp (values are non-negative by class invariant)."""
    if isinstance(v, ObjV) and v.constructed:
        val, un = v.fields.get("value"), v.fields.get("units")
        from .c09 import unclamp
        return ("perm", unclamp(val), un.s if isinstance(un, StrV) else None)
    if isinstance(v, ObjV) and v.path is not None:
        return ("perm-obj", v.path)
    return val_key(v)


def check_regression(ck, repo):
    f = repo.find_function("Membrane.calculate_activation_energy")
    ck.analysed_function(f)
    cfg = make_config({}, extra_inline=INL)
    outs = analyse(repo, f, cfg)
    ck.analysed["paths"] += len(outs)
    orc = Oracle(repo, f, cfg, {})
    orc.let("CE", "self.get_penetrant_data(component)")
    n = orc.eval("len(CE)").r
    seen = {"raise": 0, "stated": 0, "regress": 0}
    for o in outs:
        few = None
        for c, d in o.trace:
            if isinstance(c, tuple) and len(c) == 3 and c[0] in ("lt", "ge", "le", "gt") and isinstance(c[1], Rat):
                if c[0] == "lt" and c[1] == n and c[2] == Rat.const(2):
                    few = d
                elif c[0] == "ge" and c[1] == n and c[2] == Rat.const(2):
                    few = not d
        stated = None
        for c, d in o.trace:
            if isinstance(c, tuple) and c[0] == "isnone" and c[1].endswith(".activation_energy"):
                stated = not d
            if isinstance(c, tuple) and c[0] == "not" and isinstance(c[1], tuple) and c[1][0] == "isnone" and c[1][1].endswith(".activation_energy"):
                stated = d
        where = f.loc()
        if few is None:
            ck.ob("M3", f.qualname, "paths are split on 'fewer than two experiments'", where, False,
                  "path %s" % [(key_str(c)[:60], d) for c, d in o.trace])
            continue
        if few and stated is False:
            seen["raise"] += 1
            ck.ob("M3", f.qualname, "fewer than two experiments and no stated activation energy -> raise", o.exc.where if o.kind == "raise" else where,
                  o.kind == "raise", found="returns %r" % (o.value,) if o.kind == "return" else None)
        elif few and stated:
            seen["stated"] += 1
            want = getattr(orc.eval("CE.experiments[0].activation_energy"), "path", None)
            own = want[:-len("0].activation_energy")] if isinstance(want, str) and want.endswith("[0].activation_energy") else None
            ok = o.kind == "return" and isinstance(o.value, Num) and o.value.r.single_atom() is not None and \
                o.value.r.single_atom().name.endswith(".activation_energy") and own is not None and \
                o.value.r.single_atom().name.startswith(own)   # an element of the component's OWN experiments
            ck.ob("M3", f.qualname, "single experiment with a stated activation energy -> that value", where, ok,
                  found=repr(o.value)[:200] if o.kind == "return" else "raises")
        elif not few:
            seen["regress"] += 1
            ok, why = regression_structure(repo, f, cfg, o)
            ck.ob("M3", f.qualname, "Ea = -R * slope of the least-squares line of ln(permeance) against 1/T over the component's experiments",
                  where, ok, why, found=lambda: repr(o.value)[:400] if o.kind == "return" else "raises", sample=True)
    ck.floor("activation-energy arms", sum(1 for v in seen.values() if v), 3)


def check_selectivity(ck, repo):
    f = repo.find_function("Membrane.get_ideal_selectivity")
    ck.analysed_function(f)
    res = {}
    for basis in ("weight", "molar"):
        cfg = make_config({"calculation_type": ("str", basis)}, ret_summary=permeance_summary)
        outs = analyse(repo, f, cfg)
        ck.analysed["paths"] += len(outs)
        if len(outs) == 1 and outs[0].kind == "return" and isinstance(outs[0].value, Num):
            res[basis] = outs[0].value.r
        else:
            ck.ob("M4", f.qualname, "%s selectivity is a single straight path" % basis, f.loc(), False)
    if len(res) == 2:
        M1 = Rat.sym("first_component.molecular_weight", ("nonneg", "pos"))
        M2 = Rat.sym("second_component.molecular_weight", ("nonneg", "pos"))
        ck.ob("M4", f.qualname, "molar selectivity == mass selectivity * M2/M1", f.loc(), res["molar"] == res["weight"] * M2 / M1,
              expected=lambda: str(res["weight"] * M2 / M1), found=lambda: str(res["molar"]), sample=True)
        orc = Oracle(repo, f, make_config({}, ret_summary=permeance_summary), {})
        w = orc.eval("self.get_permeance(temperature, first_component).value / self.get_permeance(temperature, second_component).value")
        ck.ob("M4", f.qualname, "mass selectivity == P1 / P2 at the query temperature", f.loc(), res["weight"] == w.r,
              expected=lambda: str(w.r), found=lambda: str(res["weight"]))


def check_pure_flux(ck, repo):
    f = repo.find_function("Membrane.get_estimated_pure_component_flux")
    ck.analysed_function(f)
    cells = {"vac": ("none", "none", "0"), "T": ("notnone", "none", "component.get_vapor_pressure(permeate_temperature)"),
             "p": ("none", "notnone", "permeate_pressure"), "both": ("notnone", "notnone", None)}
    for mode, (ft, fp, pi) in cells.items():
        facts = {"permeate_temperature": ft, "permeate_pressure": fp}
        cfg = make_config(facts, ret_summary=permeance_summary)
        outs = analyse(repo, f, cfg)
        ck.analysed["paths"] += len(outs)
        sck = ck.scoped("mode=%s" % mode)
        if pi is None:
            continue   # rejecting the double specification is C19's obligation
        ok1 = len(outs) == 1 and outs[0].kind == "return" and isinstance(outs[0].value, Num)
        sck.ob("M5", f.qualname, "mode %s selects one non-raising arm" % mode, f.loc(), ok1)
        if not ok1:
            continue
        orc = Oracle(repo, f, cfg, outs[0].facts)
        w = orc.eval("self.get_permeance(temperature, component).value * (component.get_vapor_pressure(temperature) - (%s))" % pi)
        sck.ob("M5", f.qualname, "pure-component flux == permeance * (saturation pressure - permeate-side pressure) [%s]" % mode, f.loc(),
               outs[0].value.r == w.r, expected=lambda: str(w.r), found=lambda: str(outs[0].value.r), sample=True)



def regression_structure(repo, f, cfg, o):
    """The returned value must be -R * (component k of the least-squares solution) where the design matrix has the family
    1/T_i as its k-th column and a column of ones, and the response is the family ln(P_i.value), all over the component's
    own experiments.  Decided on the arguments of the (uninterpreted) library call, whatever numpy routine stacks them."""
    if o.kind != "return" or not isinstance(o.value, Num):
        return False, "does not return a number"
    orc = Oracle(repo, f, cfg, o.facts)
    orc.let("CE", "self.get_penetrant_data(component)")
    R = orc.eval("R").r
    coeff = -o.value.r / R
    a = coeff.single_atom()
    if a is None:
        return False, "result is not -R times one component of the regression solution"
    # peel index selectors down to the lstsq application
    sel = []
    cur = a
    while cur is not None and cur.kind == "fn" and cur.name == "idx":
        sel.append(cur.args[1])
        cur = cur.args[0].single_atom()
    if cur is None or cur.kind != "ucall" or not cur.name.endswith("lstsq"):
        return False, "result does not come from a least-squares solve"
    if len(sel) != 2 or not (isinstance(sel[-1], (int, Rat)) and (sel[-1] == 0 or (isinstance(sel[-1], Rat) and sel[-1].is_zero()))):
        return False, "the solution vector (first element of lstsq's result) is not what is indexed"
    k = sel[0] if isinstance(sel[0], int) else sel[0].as_int()
    A, Y = cur.args[0], cur.args[1]
    # expected families over the component's own experiments
    want_x = orc.eval("[1 / e.temperature for e in CE.experiments]")
    want_y = orc.eval("[numpy.log(e.permeance.value) for e in CE.experiments]")
    kx, ky = val_key(want_x), val_key(want_y)

    def columns(key):
        if isinstance(key, Rat):
            sa = key.single_atom()
            if sa is not None and sa.kind in ("ucall", "fn"):
                for arg in sa.args:
                    c = columns(arg)
                    if c is not None:
                        return c
            return None
        if isinstance(key, tuple):
            if key and key[0] in ("lit", "tup") and len(key) >= 3:
                return list(key[1:])
            for e in key:
                c = columns(e)
                if c is not None:
                    return c
        return None

    cols = columns(A)
    if not cols or len(cols) != 2:
        return False, "the design matrix is not built from two columns"
    pos = [i for i, c in enumerate(cols) if key_equiv(c, kx)]
    if len(pos) != 1:
        return False, "no column of the design matrix is 1/T_i over the component's experiments"
    other = cols[1 - pos[0]]
    ones_ok = "ones" in key_str(other) or (isinstance(other, tuple) and other and other[0] == "rep")
    if not ones_ok:
        return False, "the second column of the design matrix is not a column of ones"
    if k != pos[0]:
        return False, "the returned coefficient is component %s of the solution but 1/T is column %d" % (k, pos[0])
    if not key_equiv(Y, ky):
        return False, "the response is not ln(P_i.value) over the component's experiments"
    return True, ""
