"""C16 — fitting is pure, deterministic and returns the best candidate it tried (kind S + a few A identities)."""
import ast

from .. import poly
from ..poly import Rat
from ..effects import Effects, chain
from ..callgraph import CallGraph, fkey
from ..evaluator import analyse
from ..procmodel import make_config
from ..oracle import Oracle
from ..values import *
from ..repo import AnalysisError, FuncInfo
from ..structural import expand

EXPL = ("P1 purity: an interprocedural effect/alias analysis (objects tagged by the parameter they are reachable from and by "
        "depth; shallow copies share inner levels) computes the write set of fit, find_best_fit, fit_vle, both objective functions, "
        "the Measurements extractors and _suggest_n_m; it must contain no object that exists before the call. P2 determinism: no "
        "random or clock source is reachable in the call graph from these functions and the optimiser's start vector and method "
        "are constants or depend only on the orders. P3 best-of: the selection loops are matched structurally (accumulator pair "
        "initialised to none / +inf or a constant, loss computed from the candidate and the caller's own data, strict '<' guarding "
        "the update of both accumulators, accumulator returned, candidate grid range(n+1) x range(m+1)). P4: normal forms of "
        "PervaporationFunction.__call__, __mul__ and from_array.")

PURE = ["fit", "find_best_fit", "fit_vle", "_suggest_n_m", "get_initial_guess", "Measurements.from_diffusion_curve_first",
        "Measurements.from_diffusion_curve_second", "Measurements.from_diffusion_curves_first", "Measurements.from_diffusion_curves_second",
        "PervaporationFunction.__call__", "PervaporationFunction.__mul__", "PervaporationFunction.from_array"]
AMBIENT = ("random.", "numpy.random.", "time.", "datetime.", "secrets.", "uuid.", "os.urandom", "builtins.hash", "builtins.id", "builtins.input")


def objective_functions(repo):
    return [f for f in repo.all_functions() if f.name == "objective" and f.cls is None]


def run(ck):
    repo = ck.repo
    ck.explanation = EXPL
    ck.technique = "effect/alias analysis with depth-indexed ownership tags; call-graph reachability; structural best-of pattern; normal forms"
    ck.undecided("that the optimiser reaches a given optimum; equality of repeated fits as floating-point numbers beyond the absence of "
                 "nondeterminism sources")
    cg = CallGraph(repo)
    eff = Effects(repo, cg)
    funcs = [repo.find_function(n) for n in PURE] + objective_functions(repo)
    ck.floor("fitting functions", len(funcs), 14)
    # P1
    for f in funcs:
        ck.analysed_function(f)
        muts = eff.external_mutations(f)
        ck.ob("P1", f.qualname, "does not modify any object that exists before the call", f.loc(), not muts,
              lambda: "; ".join("%s [%s]" % (chain(mu), ", ".join("%s %s (depth %d)" % (("parameter" if t[0] == "P" else "module-level object"), t[1], t[2])
                                                                   for t in sorted(tags, key=str))) for mu, tags in muts)[:900],
              sample=True)
    # P2
    for f in funcs:
        reach = cg.reachable([f])
        hits = []
        for k in reach:
            for dotted, node in cg.externals[k]:
                if any(dotted == a or dotted.startswith(a) for a in AMBIENT):
                    hits.append("%s calls %s" % (cg.funcs[k].loc(node), dotted))
        ck.ob("P2", f.qualname, "reaches no random, clock or identity source", f.loc(), not hits, "; ".join(hits)[:500])
    for name in ("fit", "fit_vle"):
        f = repo.find_function(name)
        calls = [n for n in ast.walk(f.node) if isinstance(n, ast.Call) and ast.unparse(n.func).endswith("minimize")]
        ck.ob("P2", name, "one optimiser call", f.loc(), len(calls) == 1, "found %d" % len(calls))
        for c in calls:
            kw = {k.arg: k.value for k in c.keywords}
            x0 = kw.get("x0")
            if x0 is not None:
                x0 = expand(x0, f.node)
            names = {n.id for n in ast.walk(x0) if isinstance(n, ast.Name)} if x0 is not None else {"?"}
            allowed = {"numpy", "_n", "_m", "n", "m"}
            ck.ob("P2", name, "optimiser start vector is a constant or depends only on the orders", f.loc(c), x0 is not None and names <= allowed,
                  found=ast.unparse(x0) if x0 is not None else "no x0")
            meth = kw.get("method")
            if meth is not None:
                meth = expand(meth, f.node)
            loop_vars = {x.id for l in ast.walk(f.node) if isinstance(l, ast.For) for x in ast.walk(l.target) if isinstance(x, ast.Name)}
            okm = isinstance(meth, ast.Constant) or (isinstance(meth, ast.Name) and meth.id in loop_vars)
            ck.ob("P2", name, "optimisation method is a constant or the loop's method name", f.loc(c), okm,
                  found=ast.unparse(meth) if meth is not None else "default")
    # P3
    check_best_of(ck, repo, repo.find_function("find_best_fit"), data_param="data", grid=True)
    check_best_of(ck, repo, repo.find_function("fit_vle"), data_param="data", grid=False)
    # P4
    check_function_forms(ck, repo)
    ck.exhaustive = True
    ck.assume("scipy.optimize.minimize is deterministic for equal inputs (no random restarts in the nine methods used)")
    ck.assume("iteration over a set of floats is order-stable for equal data (float hashing is not randomised)")


def check_best_of(ck, repo, f: FuncInfo, data_param, grid):
    ck.analysed_function(f)
    found = None
    for n in ast.walk(f.node):
        if isinstance(n, ast.If) and isinstance(n.test, ast.Compare) and len(n.test.ops) == 1 and \
                isinstance(n.test.left, ast.Name) and isinstance(n.test.comparators[0], ast.Name):
            a, op, b = n.test.left.id, n.test.ops[0], n.test.comparators[0].id
            if isinstance(op, (ast.Gt, ast.GtE)):
                a, b = b, a
                op = ast.Lt() if isinstance(op, ast.Gt) else ast.LtE()
            assigns = {}
            for st in n.body:
                if isinstance(st, ast.Assign) and len(st.targets) == 1 and isinstance(st.targets[0], ast.Name):
                    assigns[st.targets[0].id] = st.value
                elif isinstance(st, ast.Assign) and len(st.targets) == 1 and isinstance(st.targets[0], ast.Tuple) and isinstance(st.value, ast.Tuple) \
                        and len(st.targets[0].elts) == len(st.value.elts):
                    for t, v in zip(st.targets[0].elts, st.value.elts):
                        if isinstance(t, ast.Name):
                            assigns[t.id] = v
            if b in assigns and isinstance(assigns[b], ast.Name) and assigns[b].id == a:
                found = (n, a, op, b, assigns)
    ck.ob("P3", f.qualname, "selection 'if loss < best_loss: best, best_loss = candidate, loss' present", f.loc(), found is not None)
    if found is None:
        return
    n, loss, op, best_loss, assigns = found
    where = f.loc(n)
    ck.ob("P3", f.qualname, "a candidate replaces the best only when its loss is smaller (or equal)", where,
          isinstance(op, (ast.Lt, ast.LtE)), found=ast.unparse(n.test))
    others = {k: v for k, v in assigns.items() if k != best_loss}
    ck.ob("P3", f.qualname, "best candidate and best loss are updated together", where, len(others) == 1 and not n.orelse,
          found=", ".join(assigns))
    if len(others) != 1:
        return
    best, cand_expr = next(iter(others.items()))
    # enclosing loop and definition of loss / candidate inside it
    loop = None
    for l in ast.walk(f.node):
        if isinstance(l, ast.For) and any(x is n for x in ast.walk(l)):
            loop = l   # innermost wins (later in walk order = deeper)
    ck.ob("P3", f.qualname, "selection happens inside the candidate loop", where, loop is not None)
    if loop is None:
        return
    outer = [l for l in ast.walk(f.node) if isinstance(l, ast.For) and any(x is n for x in ast.walk(l))]
    exits = [x for l in outer for x in ast.walk(l) if isinstance(x, (ast.Break, ast.Continue, ast.Return))]
    ck.ob("P3", f.qualname, "every candidate of the grid is fitted and compared (no early exit from the candidate loops)", where, not exits,
          "; ".join("%s at line %d" % (type(x).__name__.lower(), x.lineno) for x in exits))
    loss_defs = [st for st in loop.body if isinstance(st, ast.Assign) and any(isinstance(t, ast.Name) and t.id == loss for t in st.targets)]
    ck.ob("P3", f.qualname, "loss of the candidate is computed in the same iteration", where, len(loss_defs) == 1)
    if len(loss_defs) == 1:
        cand_names = {x.id for x in ast.walk(cand_expr) if isinstance(x, ast.Name)}
        # temporaries and local one-expression helpers are substituted away; the candidate itself is kept by name
        loss_value = expand(loss_defs[0].value, f.node, keep=cand_names | {loss})
        loss_defs = [ast.Assign(targets=loss_defs[0].targets, value=loss_value, lineno=loss_defs[0].lineno, col_offset=0)]
        names = {x.id for x in ast.walk(loss_value) if isinstance(x, ast.Name)}
        # the candidate may be referenced through a variable it was derived from in this iteration (e.g. result -> result.x)
        ck.ob("P3", f.qualname, "loss is computed from the caller's own data", f.loc(loss_defs[0]), data_param in names,
              "the data the loss is evaluated on must be the function's parameter %r, not a working copy" % data_param,
              found=ast.unparse(loss_defs[0].value)[:200])
        iters = [g.iter for x in ast.walk(loss_defs[0].value) if isinstance(x, (ast.ListComp, ast.GeneratorExp, ast.SetComp)) for g in x.generators]
        data_iters = [i for i in iters if data_param in {y.id for y in ast.walk(i) if isinstance(y, ast.Name)}]
        ck.ob("P3", f.qualname, "loss runs over all of the caller's data", f.loc(loss_defs[0]),
              all(isinstance(i, ast.Name) and i.id == data_param for i in data_iters),
              found="; ".join(ast.unparse(i) for i in data_iters))
        ck.ob("P3", f.qualname, "loss is computed from this iteration's candidate", f.loc(loss_defs[0]), bool(names & cand_names),
              found="loss uses %s; candidate is %s" % (sorted(names), ast.unparse(cand_expr)))
    # initialisation before the loops
    init_ok = False
    init_src = None
    for st in ast.walk(f.node):
        if isinstance(st, ast.Assign) and any(isinstance(t, ast.Name) and t.id == best_loss for t in st.targets) and st.lineno < loop.lineno:
            init_src = ast.unparse(st.value)
            v = st.value
            init_ok = (isinstance(v, ast.Attribute) and v.attr in ("inf", "Inf", "infty")) or \
                      (isinstance(v, ast.Constant) and isinstance(v.value, (int, float)) and v.value > 0) or \
                      (isinstance(v, ast.Call) and ast.unparse(v) in ("float('inf')", 'float("inf")'))
    ck.ob("P3", f.qualname, "best loss starts at +inf or a positive constant bound", where, init_ok, found=str(init_src))
    inner = {id(x) for d in ast.walk(f.node) if isinstance(d, (ast.FunctionDef, ast.Lambda)) and d is not f.node for x in ast.walk(d)}
    rets = [r for r in ast.walk(f.node) if isinstance(r, ast.Return) and r.value is not None and id(r) not in inner]
    ok_ret = bool(rets) and all(best in {x.id for x in ast.walk(r.value) if isinstance(x, ast.Name)} for r in rets)
    ck.ob("P3", f.qualname, "the accumulator is what is returned", f.loc(rets[0]) if rets else where, ok_ret,
          found="; ".join(ast.unparse(r.value) for r in rets))
    if grid:
        src = ast.unparse(f.node)
        for var, p in (("n", "n"), ("m", "m")):
            ok = ("range(%s + 1)" % p) in src
            ck.ob("P3", f.qualname, "with a given order %s every order 0..%s is tried" % (p, p), f.loc(), ok)
        loops = [l for l in ast.walk(f.node) if isinstance(l, ast.For)]
        nested = any(isinstance(x, ast.For) and x is not l for l in loops for x in ast.walk(l) if x is not l)
        # the same grid written as one loop over the cartesian product of the two candidate lists
        it = expand(loop.iter, f.node)
        product = isinstance(it, ast.Call) and ast.unparse(it.func) in ("itertools.product", "product") and len(it.args) == 2 and not it.keywords
        ck.ob("P3", f.qualname, "candidates form the full n x m grid (nested loops or their cartesian product)", f.loc(), nested or product)
        fits = [c for c in ast.walk(loop) if isinstance(c, ast.Call) and ast.unparse(c.func) == "fit"]
        ok = False
        if len(fits) == 1:
            kw = {k.arg: ast.unparse(k.value) for k in fits[0].keywords}
            pos = [ast.unparse(a) for a in fits[0].args]
            ok = (pos[:1] == [data_param] or kw.get("data") == data_param) and kw.get("include_zero") == "include_zero" and \
                kw.get("component_index") == "component_index"
        ck.ob("P3", f.qualname, "each candidate is fitted on the caller's data with the caller's options", f.loc(loop), ok)


def check_function_forms(ck, repo):
    PF = repo.find_class("PervaporationFunction")
    call = PF.methods["__call__"]
    mul = PF.methods["__mul__"]
    fa = PF.methods["from_array"]
    for f in (call, mul, fa):
        ck.analysed_function(f)
    cfg = make_config({})
    outs = analyse(repo, call, cfg)
    orc = Oracle(repo, call, cfg, {})
    want = orc.eval("self.alpha * numpy.exp(sum(self.a[i] * x ** (i + 1) for i in range(len(self.a))) - sum(self.b[i] * x ** i for i in range(len(self.b))) / t)")
    ok = len(outs) == 1 and outs[0].kind == "return" and isinstance(outs[0].value, Num) and outs[0].value.r == want.r
    ck.ob("P4", call.qualname, "f(x,t) == alpha * exp(sum a_i x^(i+1) - sum b_i x^i / t)", call.loc(), ok,
          expected=lambda: str(want.r), found=lambda: repr(outs[0].value) if outs and outs[0].kind == "return" else "raises", sample=True)
    # __mul__: scales alpha only, and (c*f)(x,t) == c*f(x,t)
    cfgm = make_config({}, extra_inline=("PervaporationFunction.__call__",))
    outs = analyse(repo, mul, cfgm)
    ok = False
    found = ""
    if len(outs) == 1 and outs[0].kind == "return" and isinstance(outs[0].value, ObjV) and outs[0].value.constructed:
        v = outs[0].value
        me = outs[0].env.get("self")
        c = Rat.sym("constant")
        al = v.fields.get("alpha")
        same = all(v.fields.get(k) is not None and poly.key_equiv(__import__("sa.symeval", fromlist=["val_key"]).val_key(v.fields[k]),
                   __import__("sa.symeval", fromlist=["val_key"]).val_key(Oracle(repo, mul, cfgm, {}).eval("self.%s" % k))) for k in ("n", "m", "a", "b"))
        ok = isinstance(al, Num) and al.r == Rat.sym("self.alpha") * c and same
        found = repr(v)[:300]
    ck.ob("P4", mul.qualname, "multiplication by a constant scales alpha and keeps n, m, a, b", mul.loc(), ok, found=found)
    outs = analyse(repo, fa, make_config({}))
    ok = False
    found = ""
    if outs and all(o.kind == "return" for o in outs):
        o = outs[0]
        v = o.value
        if isinstance(v, ObjV) and v.constructed:
            a, b, al = v.fields.get("a"), v.fields.get("b"), v.fields.get("alpha")
            n = Rat.sym("n", ("int",))
            ok = isinstance(a, ListV) and a.kind == "slice" and a.lo == Rat.const(1) and a.hi is not None and a.hi == n + 1 and \
                isinstance(b, ListV) and b.kind == "slice" and b.lo == n + 1 and b.hi is None and \
                isinstance(al, Num) and "array" in str(al.r)
            found = "alpha=%r a=%r b=%r" % (al, a, b)
    ck.ob("P4", fa.qualname, "coefficient vector is split as [alpha | a (n values) | b (the rest)]", fa.loc(), ok, found=found[:300])
    n_, m_ = Rat.sym("n", ("int",)), Rat.sym("m", ("int",))
    okl = False
    conds = []
    for o in outs:
        for e in o.events:
            if e.kind == "assert-cond" and isinstance(e.data, tuple) and len(e.data) == 3 and e.data[0] == "eq" \
                    and isinstance(e.data[1], Rat) and isinstance(e.data[2], Rat):
                d = e.data[1] - e.data[2]
                conds.append(str(d))
                for sign in (1, -1):
                    okl = okl or (sign * d + (n_ + m_ + 2)).single_atom() is not None and "len(" in str(sign * d + (n_ + m_ + 2))
    ck.ob("P4", fa.qualname, "length of the coefficient vector is checked against 2 + n + m", fa.loc(), okl, found="; ".join(conds)[:200])
