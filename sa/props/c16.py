"""C16 — fitting is pure, deterministic and returns the best candidate it tried (kind S + a few A identities)."""
import ast

from .. import poly
from ..poly import Rat
from ..effects import Effects, chain
from ..callgraph import CallGraph, fkey
from ..evaluator import analyse
from ..procmodel import make_config
from ..oracle import Oracle
from ..values import *
from ..repo import AnalysisError, FuncInfo
from ..structural import expand

EXPL = ("P1 purity: an interprocedural effect/alias analysis (objects tagged by the parameter they are reachable from and by "
        "depth; shallow copies share inner levels) computes the write set of fit, find_best_fit, fit_vle, both objective functions, "
        "the Measurements extractors and _suggest_n_m; it must contain no object that exists before the call. P2 determinism: no "
        "random or clock source is reachable in the call graph from these functions and the optimiser's start vector and method "
        "are constants or depend only on the orders. (read from the optimiser call as the evaluator sees it). P3 best-of: the inductive running-minimum argument is "
        "checked on every evaluated path of find_best_fit (symbolic loops) and fit_vle (a literal list of methods, unrolled): each "
        "comparison is loss-vs-running-bound, a winner replaces the bound by exactly its loss and the kept candidate by exactly the "
        "candidate the loss was computed from, a loser changes neither, the loss is the sum over all of the caller's data, the bound "
        "starts at +inf or a positive constant, the kept candidate is returned, candidates are fitted on the caller's data with the "
        "caller's options over the full grid 0..n x 0..m. P4: normal forms of "
        "PervaporationFunction.__call__, __mul__ and from_array.")

PURE = ["fit", "find_best_fit", "fit_vle", "_suggest_n_m", "get_initial_guess", "Measurements.from_diffusion_curve_first",
        "Measurements.from_diffusion_curve_second", "Measurements.from_diffusion_curves_first", "Measurements.from_diffusion_curves_second",
        "PervaporationFunction.__call__", "PervaporationFunction.__mul__", "PervaporationFunction.from_array"]
AMBIENT = ("random.", "numpy.random.", "time.", "datetime.", "secrets.", "uuid.", "os.urandom", "builtins.hash", "builtins.id", "builtins.input")


def objective_functions(repo):
    return [f for f in repo.all_functions() if f.name == "objective" and f.cls is None]


def run(ck):
    repo = ck.repo
    ck.explanation = EXPL
    ck.technique = "effect/alias analysis with depth-indexed ownership tags; call-graph reachability; running-minimum argument on evaluator paths; normal forms"
    ck.undecided("that the optimiser reaches a given optimum; equality of repeated fits as floating-point numbers beyond the absence of "
                 "nondeterminism sources")
    cg = CallGraph(repo)
    eff = Effects(repo, cg)
    funcs = []
    for n in PURE:
        try:
            funcs.append(repo.find_function(n))
        except AnalysisError:
            if not n.startswith("_"):
                raise    # a private helper may be renamed or inlined by a maintainer: its effects are still seen through its callers
    funcs += objective_functions(repo)
    ck.floor("fitting functions", len(funcs), 13)
    # P1
    for f in funcs:
        ck.analysed_function(f)
        muts = eff.external_mutations(f)
        ck.ob("P1", f.qualname, "does not modify any object that exists before the call", f.loc(), not muts,
              lambda: "; ".join("%s [%s]" % (chain(mu), ", ".join("%s %s (depth %d)" % (("parameter" if t[0] == "P" else "module-level object"), t[1], t[2])
                                                                   for t in sorted(tags, key=str))) for mu, tags in muts)[:900],
              sample=True)
    # P1 (hidden state): a container that outlives a call makes a repeated fit depend on the fits before it
    from ..structural import hidden_state
    fit_keys = set()
    for f in funcs:
        fit_keys |= cg.reachable([f])
    fit_funcs = [cg.funcs[k] for k in sorted(fit_keys) if k in cg.funcs]
    fit_classes = {id(g.cls): g.cls for g in fit_funcs if g.cls is not None}
    fit_mods = {g.module.name for g in funcs}
    for c in repo.all_classes():
        if c.module.name in fit_mods:
            fit_classes[id(c)] = c
    hs = hidden_state(repo, functions=fit_funcs, classes=list(fit_classes.values()))
    ck.ob("P1", "fitting code", "no container outlives a fit (no mutable default argument, no mutable class-level default)", "pyvaporation/optimizer/",
          not hs, "; ".join("%s %s" % x for x in hs)[:600])
    # P2
    for f in funcs:
        reach = cg.reachable([f])
        hits = []
        for k in reach:
            for dotted, node in cg.externals[k]:
                if any(dotted == a or dotted.startswith(a) for a in AMBIENT):
                    hits.append("%s calls %s" % (cg.funcs[k].loc(node), dotted))
        ck.ob("P2", f.qualname, "reaches no random, clock or identity source", f.loc(), not hits, "; ".join(hits)[:500])
    for name in ("fit", "fit_vle"):
        check_optimiser_call(ck, repo, repo.find_function(name))
    # P3
    check_selection(ck, repo, repo.find_function("find_best_fit"), "data", grid=True)
    check_selection(ck, repo, repo.find_function("fit_vle"), "data", grid=False)
    # P4
    check_function_forms(ck, repo)
    ck.exhaustive = True
    ck.assume("scipy.optimize.minimize is deterministic for equal inputs (no random restarts in the nine methods used)")
    ck.assume("iteration over a set of floats is order-stable for equal data (float hashing is not randomised)")


def check_optimiser_call(ck, repo, f: FuncInfo):
    """P2 from values: the optimiser's start vector and method, as the evaluator sees them at the call, contain no ambient or
    opaque source and no measurement value; they are constants or functions of the orders only."""
    from ..bestof import candidate_atoms, _key_atoms
    from ..iotables import full_text
    outs = analyse(repo, f, make_config({}), max_paths=8192)
    ck.analysed["paths"] += len(outs)
    atoms = {}
    for o in outs:
        if o.kind == "return":
            for a in _key_atoms(o.value, ("scipy.optimize.minimize",)):
                atoms[a.id] = a
        for c, d in o.trace:
            def walk(k):
                if isinstance(k, Rat):
                    for a in candidate_atoms(k, ("scipy.optimize.minimize",)):
                        atoms[a.id] = a
                elif isinstance(k, tuple):
                    for x in k:
                        walk(x)
            walk(c)
    ck.ob("P2", f.qualname, "the optimiser is called", f.loc(), bool(atoms), found="%d distinct optimiser calls" % len(atoms))

    def leaves(k, inside_orders, out):
        """(kind, text) leaves of a key: symbols, opaque values; symbols inside _suggest_n_m(...) are order information"""
        if isinstance(k, Rat):
            for i in k.atom_ids():
                a = poly.T.get(i)
                if a.kind == "sym":
                    out.append(("order" if inside_orders else "sym", a.name))
                else:
                    inner = inside_orders or (a.kind == "ucall" and a.name.endswith("_suggest_n_m"))
                    if a.kind == "ucall" and not a.name.endswith("_suggest_n_m") and not inside_orders:
                        out.append(("call", a.name))
                    for x in a.args:
                        leaves(x, inner, out)
        elif isinstance(k, tuple):
            if k and k[0] == "opaque":
                out.append(("opaque", str(k[1])))
            elif k and k[0] in ("str?", "maybe", "obj", "list"):
                out.append(("order" if inside_orders else "sym", str(k[-1])))
            else:
                for x in k:
                    leaves(x, inside_orders, out)
    for a in atoms.values():
        kw = {k[0]: k[1] for k in a.args if isinstance(k, tuple) and len(k) == 2 and isinstance(k[0], str)}
        pos = [k for k in a.args if not (isinstance(k, tuple) and len(k) == 2 and isinstance(k[0], str) and k[0] in ("x0", "method", "args", "bounds", "tol", "options", "jac", "constraints"))]
        x0 = kw.get("x0", pos[1] if len(pos) > 1 else None)
        lv = []
        if x0 is not None:
            leaves(x0, False, lv)
        # admitted: the orders themselves and the NUMBER of measurements (the default orders are derived from it); never a measured value
        own = set(f.params) | set(f.kwonly)     # a start vector handed in by the caller is the caller's choice, like the method
        bad = [t for t in lv if (t[0] in ("opaque", "call") and not any(str(t[1]) == p or str(t[1]).startswith(p + "[") for p in own if p != "data"))
               or (t[0] == "sym" and t[1] not in ("n", "m", "_n", "_m") and not t[1].startswith("len(")
                   and not any(t[1] == p or t[1].startswith(p + "[") or t[1].startswith(p + ".") for p in own if p != "data"))]
        ck.ob("P2", f.qualname, "optimiser start vector is a constant or depends only on the orders", f.loc(), x0 is not None and not bad,
              found=lambda: ("no x0" if x0 is None else "depends on %s" % sorted(set(bad))[:6]))
        meth = kw.get("method")
        okm = isinstance(meth, str) or (isinstance(meth, tuple) and meth and meth[0] == "str?" and meth[1] in f.params)
        ck.ob("P2", f.qualname, "optimisation method is a constant or the caller's choice", f.loc(), okm, found=poly.key_str(meth)[:80])


def check_selection(ck, repo, f: FuncInfo, data_param, grid):
    """P3 decided from the values the evaluator computes (see sa/bestof.py): syntax-independent."""
    from ..bestof import check_symbolic, check_unrolled
    from ..symeval import Config
    ck.analysed_function(f)
    cfg = make_config({})
    outs = analyse(repo, f, cfg, max_paths=8192)
    ck.analysed["paths"] += len(outs)
    rets = [o for o in outs if o.kind == "return"]
    ck.ob("P3", f.qualname, "the search completes on some path", f.loc(), bool(rets))
    suffixes = ("fit", "scipy.optimize.minimize")
    try:
        data_len = Oracle(repo, f, cfg, {}).eval("len(%s)" % data_param).r
    except Exception:
        data_len = None
    fit_f = repo.find_function("fit")

    def grid_rule(ck_, f_, o, cand, loc):
        """the candidate's orders are the indices of loops over 0..n and 0..m (given orders), and it is fitted on the caller's
        data with the caller's options"""
        if not cand.name.endswith("fit"):
            return
        params = fit_f.params + fit_f.kwonly
        args = dict(zip(params, cand.args))
        orc = Oracle(repo, f_, cfg, dict(o.facts))
        from ..symeval import val_key as vk
        for p in ("data", "include_zero", "component_index"):
            want = poly.key_str(vk(orc.eval(p if p != "data" else data_param)))
            got = poly.key_str(args.get(p))
            ck_.ob("P3", f_.qualname, "each candidate is fitted on the caller's data with the caller's options (%s)" % p, loc, got == want,
                   expected=want[:120], found=got[:120])
        for p in ("n", "m"):
            given = None
            for c, d in o.trace:
                if isinstance(c, tuple) and c == ("isnone", p):
                    given = not d
            if not given:
                continue
            a = args.get(p)
            ok = False
            found = poly.key_str(a)[:120]
            want_n = Rat.sym(p, ("int",)) + 1
            if isinstance(a, Rat) and a.single_atom() is not None:
                at = a.single_atom()
                for lr in o.loops:
                    if lr.kind != "for":
                        continue
                    if lr.k is not None and lr.k.id == at.id:
                        ok = lr.lo.is_zero() and lr.hi == want_n
                        found = "loop over %s..%s" % (lr.lo, lr.hi)
                    fac = getattr(getattr(lr, "iter_val", None), "factors", None)
                    if fac and at.kind == "sym" and at.name.startswith("product(") and lr.k is not None and ("[%s]" % lr.k.name) in at.name:
                        pos = 0 if at.name.endswith("[0]") else 1
                        fv = fac[pos] if pos < len(fac) else None
                        if isinstance(fv, ListV) and fv.kind == "fam":
                            ok = fv.lo.is_zero() and fv.hi == want_n
                            found = "product factor over %s..%s" % (fv.lo, fv.hi)
            ck_.ob("P3", f_.qualname, "with a given order %s every order 0..%s is tried" % (p, p), loc, ok, found=found)
    n1 = check_symbolic(ck, f, outs, data_param, data_len, suffixes, grid=grid_rule if grid else None)
    n2 = check_unrolled(ck, f, outs, data_param, suffixes)
    ck.floor("selection decisions analysed in %s" % f.qualname, n1 + n2, 2)


def check_function_forms(ck, repo):
    PF = repo.find_class("PervaporationFunction")
    call = PF.methods["__call__"]
    mul = PF.methods["__mul__"]
    fa = PF.methods["from_array"]
    for f in (call, mul, fa):
        ck.analysed_function(f)
    cfg = make_config({})
    outs = analyse(repo, call, cfg)
    orc = Oracle(repo, call, cfg, {})
    want = orc.eval("self.alpha * numpy.exp(sum(self.a[i] * x ** (i + 1) for i in range(len(self.a))) - sum(self.b[i] * x ** i for i in range(len(self.b))) / t)")
    ok = len(outs) == 1 and outs[0].kind == "return" and isinstance(outs[0].value, Num) and outs[0].value.r == want.r
    ck.ob("P4", call.qualname, "f(x,t) == alpha * exp(sum a_i x^(i+1) - sum b_i x^i / t)", call.loc(), ok,
          expected=lambda: str(want.r), found=lambda: repr(outs[0].value) if outs and outs[0].kind == "return" else "raises", sample=True)
    # __mul__: scales alpha only, and (c*f)(x,t) == c*f(x,t)
    cfgm = make_config({}, extra_inline=("PervaporationFunction.__call__",))
    outs = analyse(repo, mul, cfgm)
    ok = False
    found = ""
    if len(outs) == 1 and outs[0].kind == "return" and isinstance(outs[0].value, ObjV) and outs[0].value.constructed:
        v = outs[0].value
        me = outs[0].env.get("self")
        c = Rat.sym("constant")
        al = v.fields.get("alpha")
        same = all(v.fields.get(k) is not None and poly.key_equiv(__import__("sa.symeval", fromlist=["val_key"]).val_key(v.fields[k]),
                   __import__("sa.symeval", fromlist=["val_key"]).val_key(Oracle(repo, mul, cfgm, {}).eval("self.%s" % k))) for k in ("n", "m", "a", "b"))
        ok = isinstance(al, Num) and al.r == Rat.sym("self.alpha") * c and same
        found = repr(v)[:300]
    ck.ob("P4", mul.qualname, "multiplication by a constant scales alpha and keeps n, m, a, b", mul.loc(), ok, found=found)
    outs = analyse(repo, fa, make_config({}))
    ok = False
    found = ""
    if outs and all(o.kind == "return" for o in outs):
        o = outs[0]
        v = o.value
        if isinstance(v, ObjV) and v.constructed:
            a, b, al = v.fields.get("a"), v.fields.get("b"), v.fields.get("alpha")
            n = Rat.sym("n", ("int",))
            ok = isinstance(a, ListV) and a.kind == "slice" and a.lo == Rat.const(1) and a.hi is not None and a.hi == n + 1 and \
                isinstance(b, ListV) and b.kind == "slice" and b.lo == n + 1 and b.hi is None and \
                isinstance(al, Num) and "array" in str(al.r)
            found = "alpha=%r a=%r b=%r" % (al, a, b)
    ck.ob("P4", fa.qualname, "coefficient vector is split as [alpha | a (n values) | b (the rest)]", fa.loc(), ok, found=found[:300])
    n_, m_ = Rat.sym("n", ("int",)), Rat.sym("m", ("int",))
    okl = False
    conds = []
    for o in outs:
        for e in o.events:
            if e.kind == "assert-cond" and isinstance(e.data, tuple) and len(e.data) == 3 and e.data[0] == "eq" \
                    and isinstance(e.data[1], Rat) and isinstance(e.data[2], Rat):
                d = e.data[1] - e.data[2]
                conds.append(str(d))
                for sign in (1, -1):
                    okl = okl or (sign * d + (n_ + m_ + 2)).single_atom() is not None and "len(" in str(sign * d + (n_ + m_ + 2))
    ck.ob("P4", fa.qualname, "length of the coefficient vector is checked against 2 + n + m", fa.loc(), okl, found="; ".join(conds)[:200])
