"""C18 — reported process states are admissible, otherwise the call raises (kinds S + T)."""
import ast

from .. import poly
from ..poly import Rat
from ..procmodel import split_models, process_functions, evaluate, PM
from ..symeval import Ctx
from ..structural import attribute_writes
from ..evaluator import analyse, Config
from ..values import *
from ..repo import AnalysisError, FuncInfo, ClassInfo
from .c01 import num, comp_p

EXPL = ("Z1 (fractions): every reported feed and permeate composition is a Composition built by the class constructor, whose p "
        "validator raises outside [0,1] (decided on the validator's paths), and no statement in the package assigns Composition.p; "
        "so each reported fraction is in [0,1] or the call raised. Z2 (mass, temperature): on the series model of each process "
        "function every returning path must carry, among the decisions taken inside the loop body, comparisons that imply "
        "'feed mass of the reported step > 0' and, for the non-isothermal models, '0 < feed temperature of the reported step < inf'; "
        "the complementary outcome of each such comparison must be a raise (sign-set reasoning over the path's decisions).")


def sign_set(o, target: Rat):
    """Allowed signs of `target` (as target - 0) given the decisions on the path."""
    allowed = {-1, 0, 1}
    finite = False
    S = Ctx._SIGNS
    for c, dec in o.trace:
        neg = False
        while isinstance(c, tuple) and c and c[0] == "not":
            c, neg = c[1], not neg
        if not (isinstance(c, tuple) and len(c) == 3 and c[0] in S and isinstance(c[1], Rat) and isinstance(c[2], Rat)):
            continue
        s = set(S[c[0]])
        if dec == neg:
            s = {-1, 0, 1} - s
        l, r = c[1], c[2]
        d = l - r
        if d == target:
            allowed &= s
        elif d == -target:
            allowed &= {-x for x in s}
        inf = Rat.sym("+inf", ("nonneg", "pos"))
        if l == target and r == inf and s <= {-1}:
            finite = True
        if r == target and l == inf and s <= {1}:
            finite = True
    return allowed, finite


def validator_switches(repo):
    """Every call in the package that can switch attrs validators off (expected: none)."""
    import re as _re
    off = []
    for mod in repo.modules.values():
        for n in ast.walk(mod.tree):
            if isinstance(n, ast.Call) and _re.search(r"(set_run_validators|validators\.set_disabled|validators\.disabled)$", ast.unparse(n.func)):
                off.append("%s:%d calls %s" % (mod.relpath, n.lineno, ast.unparse(n.func)))
            elif isinstance(n, ast.Call) and isinstance(n.func, ast.Name) and n.func.id in ("set_run_validators", "set_disabled"):
                off.append("%s:%d calls %s" % (mod.relpath, n.lineno, n.func.id))
    return off


def run(ck):
    repo = ck.repo
    ck.explanation = EXPL
    ck.technique = "constructor/validator structure + who-may-write; sign-set reasoning over path decisions of the series model"
    ck.undecided("finiteness of fluxes and heats (overflow / NaN depend on magnitudes that no abstract domain in reach bounds); this clause "
                 "of the property is not covered")
    # Z1 ---------------------------------------------------------------------------------------------------------------------
    C = repo.find_class("Composition")
    fld = C.field("p")
    vok = False
    if fld is not None and fld.validator is not None:
        r = repo.resolve(C.module, ast.unparse(fld.validator))
        if isinstance(r, FuncInfo):
            ck.analysed_function(r)
            outs = analyse(repo, r, Config())
            val = Rat.sym(r.params[-1])
            passing = [o for o in outs if o.kind == "return"]
            vok = bool(passing) and any(o.kind == "raise" for o in outs)
            for o in passing:
                allowed_lo, _ = sign_set(o, val)
                allowed_hi, _ = sign_set(o, 1 - val)
                vok = vok and allowed_lo <= {0, 1} and allowed_hi <= {0, 1}
            from ..symeval import path_rejects_nan
            va = val.single_atom()
            nan_ok = bool(passing) and va is not None and all(path_rejects_nan(o.trace, va) for o in passing)
    ck.ob("Z1", "Composition", "constructing a composition raises unless 0 <= p <= 1", C.module.relpath + ":%d" % C.node.lineno, vok, sample=True)
    if vok:
        ck.ob("Z1", "Composition", "constructing a composition with a NaN fraction raises (accepting paths rest on a comparison that came out true)",
              C.module.relpath + ":%d" % C.node.lineno, nan_ok,
              "an accepting path decided only by comparisons that are false lets NaN through: a NaN fraction would be reported as a valid state")
    hits = attribute_writes(repo, "Composition", "p")
    ck.ob("Z1", "package", "no statement assigns Composition.p after construction", C.module.relpath, not hits,
          "; ".join("%s in %s" % (f.loc(n), f.qualname) for f, n, _ in hits))
    # the validator is only a defence while it runs: nobody in the package may switch attrs validators off
    off = validator_switches(repo)
    ck.ob("Z1", "package", "attrs validators are never switched off", "pyvaporation/", not off, "; ".join(off)[:400])
    funcs = process_functions(repo)
    ck.floor("process functions", len(funcs), 4)
    for func in funcs:
        ck.analysed_function(func)
        exits = []
        models = split_models(ck, 'Z0', func, evaluate(repo, func, ck.tier, guard_exits=exits))
        ck.analysed["paths"] += len(models) + len(exits)
        ck.floor("evaluated paths of %s" % func.qualname, len(models), 6)
        for pm in models:
            sck = ck.scoped(pm.path_label)
            where = func.loc(pm.loop.node) if pm.loop else func.loc()
            fq = func.qualname
            for fldn in ("feed_compositions", "permeate_composition"):
                s = pm.series(fldn)
                elems = (list(s.init) + list(s.per_iter)) if s is not None else []
                ok = bool(elems) and all(isinstance(e, ObjV) and e.cls.name == "Composition" for e in elems)
                sck.ob("Z1", fq, "every reported element of %s is a validated Composition" % fldn, where, ok,
                       found="; ".join(type(e).__name__ for e in elems))
            # Z2 mass
            mk = pm.elem_k("feed_mass")
            ms = pm.series("feed_mass")
            ok = False
            found = "no feed-mass series"
            if isinstance(mk, Num):
                allowed, _ = sign_set(pm.out, mk.r)
                ok = allowed == {1}
                found = "decisions on the path leave sign(feed_mass[k]) in %s" % sorted(allowed)
                if not ok and ms is not None and ms.per_iter and isinstance(ms.per_iter[0], Num):
                    a2, _ = sign_set(pm.out, ms.per_iter[0].r)
                    if a2 == {1}:
                        ok = True   # guard on the freshly appended element: covers every element after the (admissible) initial one
                        found = "guard on the element appended in the same step"
            sck.ob("Z2", fq, "a reported step has positive feed mass or the call raises", where, ok,
                   "every returning path must have tested the feed mass of the reported step against 0 (failing arm raises)", found=found,
                   sample=True)
            T = pm.field("feed_temperature")
            if isinstance(T, ListV) and T.kind == "series":
                Tk = pm.elem_k("feed_temperature")
                ok = False
                found = ""
                if isinstance(Tk, Num):
                    allowed, finite = sign_set(pm.out, Tk.r)
                    ok = allowed == {1} and finite
                    found = "sign(T[k]) in %s, finite bound %s" % (sorted(allowed), finite)
                    if not ok and T.per_iter and isinstance(T.per_iter[0], Num):
                        a2, f2 = sign_set(pm.out, T.per_iter[0].r)
                        if a2 == {1} and f2:
                            ok, found = True, "guard on the element appended in the same step"
                sck.ob("Z2", fq, "a reported step has a positive finite feed temperature or the call raises", where, ok,
                       "every returning path must have tested 0 < T[k] < inf (failing arm raises)", found=found)
            else:
                # not the step-by-step series: the only other admissible report is the (assumed admissible) initial temperature repeated
                init_T = pm.cond_field("initial_feed_temperature")
                elem = T.elem if isinstance(T, ListV) and T.kind in ("rep", "fam") else None
                ok = isinstance(elem, Num) and elem.r == init_T
                sck.ob("Z2", fq, "a reported feed temperature that is not the tested step series is the initial feed temperature repeated", where, ok,
                       "the reported temperatures are built from values no decision on the path has tested (0 < T < inf)",
                       found="%s" % (T.kind if isinstance(T, ListV) else type(T).__name__))
        # each guard's failing arm is a raise: the exits collected while evaluating
        kinds = {}
        for label, meta, o in exits:
            c = o.trace[-1][0]
            kinds.setdefault(poly.key_str(c)[:80], 0)
            kinds[poly.key_str(c)[:80]] += 1
        ck.ob("Z2", func.qualname, "the failing arm of every admissibility test raises", func.loc(), bool(exits),
              "%d raising exits: %s" % (len(exits), "; ".join("%s x%d" % kv for kv in sorted(kinds.items()))))
    ck.exhaustive = True
    ck.assume("initial feed amount and initial feed temperature are admissible (positive, finite) as the property's domain states")
