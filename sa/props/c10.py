"""C10 — the flux calculation always terminates (kind S: a syntactic termination argument)."""
import ast

from ..callgraph import CallGraph, fkey
from ..procmodel import process_functions
from ..structural import type_env
from ..repo import AnalysisError, FuncInfo

EXPL = ("A complete syntactic termination argument for the package: T1 every `while` has an integer counter initialised before the "
        "loop, incremented by a positive constant unconditionally at the top level of the body, and compared with a finite "
        "loop-invariant bound either in the loop test or in an unconditional `if ...: raise/break/return` of the body; T2 every "
        "`for` iterates a finite iterable that its own body does not extend; T3 the resolved call graph is acyclic; T4 no "
        "reachable external callee is in the non-terminating table. Together: every call of the flux solver and of every process "
        "and curve model with a finite step count returns or raises, for all inputs.")

NONTERMINATING = ("builtins.input", "itertools.count", "itertools.cycle", "itertools.repeat", "time.sleep", "threading.", "subprocess.",
                  "socket.", "select.", "signal.pause", "os.wait", "multiprocessing.", "asyncio.")
FINITE_CALLS = {"range", "list", "tuple", "sorted", "set", "dict", "enumerate", "zip", "reversed", "filter", "map"}
FINITE_METHODS = {"items", "values", "keys", "iterrows", "itertuples", "groupby", "iterdir", "glob", "split", "splitlines", "copy"}
INF_NAMES = {"numpy.inf", "math.inf", "np.inf", "numpy.Inf", "numpy.infty"}


def is_pos_const(n):
    return isinstance(n, ast.Constant) and isinstance(n.value, (int, float)) and not isinstance(n.value, bool) and n.value > 0


def finite_bound(n, assigned_in_loop):
    if isinstance(n, ast.Constant):
        return isinstance(n.value, (int, float)) and n.value == n.value and abs(n.value) != float("inf")
    s = ast.unparse(n)
    if s in INF_NAMES or "inf" in s.lower().split("(")[-1:][0] and s.startswith("float("):
        return False
    names = {x.id for x in ast.walk(n) if isinstance(x, ast.Name)}
    if names & assigned_in_loop:
        return False
    if isinstance(n, (ast.Name, ast.Attribute)):
        return True
    if isinstance(n, ast.BinOp):
        return finite_bound(n.left, assigned_in_loop) and finite_bound(n.right, assigned_in_loop)
    if isinstance(n, ast.Call) and isinstance(n.func, ast.Name) and n.func.id in ("len", "int", "max", "min", "round"):
        return all(finite_bound(a, assigned_in_loop) for a in n.args)
    return False


def counter_bounded(func: FuncInfo, loop: ast.While):
    """(ok, explanation)"""
    assigned = set()
    for st in loop.body:
        for n in ast.walk(st):
            if isinstance(n, ast.Name) and isinstance(n.ctx, ast.Store):
                assigned.add(n.id)
    # counters: names incremented by a positive constant at the top level of the body
    counters = {}
    down = {}     # counters that count DOWN by a positive constant: name -> step
    early = True
    for st in loop.body:
        if isinstance(st, ast.AugAssign) and isinstance(st.op, ast.Add) and isinstance(st.target, ast.Name) and is_pos_const(st.value):
            if early:
                counters[st.target.id] = st
        elif isinstance(st, ast.AugAssign) and isinstance(st.op, ast.Sub) and isinstance(st.target, ast.Name) and is_pos_const(st.value):
            if early:
                counters[st.target.id] = st
                down[st.target.id] = st.value.value
        elif isinstance(st, ast.Assign) and len(st.targets) == 1 and isinstance(st.targets[0], ast.Name) and isinstance(st.value, ast.BinOp) \
                and isinstance(st.value.op, ast.Sub) and isinstance(st.value.left, ast.Name) and st.value.left.id == st.targets[0].id \
                and is_pos_const(st.value.right):
            if early:
                counters[st.targets[0].id] = st
                down[st.targets[0].id] = st.value.right.value
        elif isinstance(st, ast.Assign) and len(st.targets) == 1 and isinstance(st.targets[0], ast.Name) and isinstance(st.value, ast.BinOp) \
                and isinstance(st.value.op, ast.Add):
            t = st.targets[0].id
            l, r = st.value.left, st.value.right
            if (isinstance(l, ast.Name) and l.id == t and is_pos_const(r)) or (isinstance(r, ast.Name) and r.id == t and is_pos_const(l)):
                if early:
                    counters[t] = st
        if any(isinstance(n, ast.Continue) for n in ast.walk(st)):
            early = False   # an increment after a possible `continue` is not on every path
    if not counters:
        return False, "no variable is incremented by a positive constant unconditionally at the top level of the loop body"
    # each counter must be written only by that increment inside the loop and be initialised to a number before the loop
    down_int_init = {}
    for c, inc in list(counters.items()):
        writes = [n for st in loop.body for n in ast.walk(st)
                  if isinstance(n, ast.Name) and n.id == c and isinstance(n.ctx, ast.Store)]
        if len(writes) != 1:
            del counters[c]
            continue
        init = False
        for n in ast.walk(func.node):
            if isinstance(n, (ast.Assign, ast.AnnAssign)) and n.lineno < loop.lineno:
                tg = n.targets if isinstance(n, ast.Assign) else [n.target]
                if any(isinstance(t, ast.Name) and t.id == c for t in tg) and isinstance(n.value, ast.Constant) \
                        and isinstance(n.value.value, (int, float)):
                    init = True
                elif any(isinstance(t, ast.Name) and t.id == c for t in tg) and c in down and n.value is not None \
                        and finite_bound(n.value, assigned):
                    init = True    # a countdown starts from a finite loop-invariant budget
                    int_init = None
                    if isinstance(n.value, ast.Name):
                        r = getattr(func.module, "constants", {}).get(n.value.id)
                        if isinstance(r, ast.Constant) and isinstance(r.value, int) and not isinstance(r.value, bool):
                            int_init = r.value
                    down_int_init[c] = int_init
                if init and c in down and isinstance(n.value, ast.Constant) and any(isinstance(t, ast.Name) and t.id == c for t in tg):
                    down_int_init[c] = n.value.value if isinstance(n.value.value, int) else None
        if not init:
            del counters[c]
    if not counters:
        return False, "the incremented variable is not a counter (not initialised to a number before the loop, or written elsewhere in the loop)"

    def cmp_bounds(test, allow_ops, split_and=True):
        """counter <op> bound comparisons that hold as a conjunct of test"""
        out = []
        conj = test.values if split_and and isinstance(test, ast.BoolOp) and isinstance(test.op, ast.And) else [test]
        for t in conj:
            if isinstance(t, ast.Compare) and len(t.ops) == 1:
                l, op, r = t.left, t.ops[0], t.comparators[0]
                flip = {ast.Lt: ast.Gt, ast.LtE: ast.GtE, ast.Gt: ast.Lt, ast.GtE: ast.LtE, ast.Eq: ast.Eq}

                def allowed(cname, o, bound):
                    if cname not in down:
                        return o in allow_ops
                    # a countdown is bounded from below: the mirror image of the comparison
                    if flip.get(o) not in allow_ops:
                        return False
                    if o is ast.Eq:   # `left == 0` is only reached for certain when an integer budget is stepped by 1 towards an integer
                        return down[cname] == 1 and isinstance(down_int_init.get(cname), int) and isinstance(bound, ast.Constant) \
                            and isinstance(bound.value, int) and bound.value <= down_int_init[cname]
                    return True
                if isinstance(l, ast.Name) and l.id in counters and allowed(l.id, type(op), r) and finite_bound(r, assigned):
                    out.append((l.id, r))
                if isinstance(r, ast.Name) and r.id in counters and flip.get(type(op)) is not None and allowed(r.id, flip[type(op)], l) \
                        and finite_bound(l, assigned):
                    out.append((r.id, l))
        return out

    if cmp_bounds(loop.test, (ast.Lt, ast.LtE)):
        return True, "loop test bounds the counter"
    for st in loop.body:
        if isinstance(st, ast.If) and not st.orelse or isinstance(st, ast.If):
            exits = st.body and isinstance(st.body[-1], (ast.Raise, ast.Break, ast.Return))
            # `if counter > bound: raise` — also accept a disjunct of an `or`
            tests = st.test.values if isinstance(st.test, ast.BoolOp) and isinstance(st.test.op, ast.Or) else [st.test]
            for t in tests:
                if exits and cmp_bounds(t, (ast.Gt, ast.GtE, ast.Eq), split_and=False):
                    return True, "unconditional guard in the body exits when the counter passes the bound"
        if any(isinstance(n, ast.Continue) for n in ast.walk(st)):
            break
    return False, "the counter is never compared with a finite loop-invariant bound in the loop test or in an unconditional exit of the body"


def iter_is_finite(func, env, it, depth=0):
    if isinstance(it, (ast.List, ast.Tuple, ast.Set, ast.Dict, ast.ListComp, ast.SetComp, ast.DictComp, ast.Constant)):
        return True, "literal"
    if isinstance(it, ast.Call):
        f = it.func
        if isinstance(f, ast.Name) and f.id in FINITE_CALLS:
            if f.id in ("enumerate", "zip", "filter", "map", "reversed", "sorted", "list", "tuple", "set"):
                args = it.args[1:] if f.id in ("filter", "map") else it.args
                res = [iter_is_finite(func, env, a, depth + 1) for a in args]
                if f.id == "zip":
                    return any(r[0] for r in res), "zip of a finite iterable"
                return all(r[0] for r in res), "%s of finite iterables" % f.id
            return True, f.id
        if isinstance(f, ast.Attribute) and f.attr in FINITE_METHODS:
            return True, "." + f.attr + "()"
        if ast.unparse(f) in ("itertools.product", "itertools.chain", "itertools.combinations", "itertools.permutations", "itertools.zip_longest",
                              "itertools.islice", "itertools.accumulate", "itertools.starmap", "itertools.combinations_with_replacement", "product", "chain"):
            res = [iter_is_finite(func, env, a, depth + 1) for a in it.args]
            return all(r[0] for r in res), "%s of finite iterables" % ast.unparse(f)
        c = env.resolve_callee(it)
        if isinstance(c, FuncInfo):
            t = env.type_of(it).strip_opt()
            if t.kind in ("list", "tuple", "dict"):
                return True, "call returning " + t.kind
            # a repository function hands back a finished object unless it is a generator or passes on an endless iterator
            lazy = [n for n in ast.walk(c.node) if isinstance(n, (ast.Yield, ast.YieldFrom))]
            endless = [n for n in ast.walk(c.node) if isinstance(n, ast.Call) and ast.unparse(n.func) in
                       ("itertools.count", "itertools.cycle", "itertools.repeat", "count", "cycle", "repeat", "iter")]
            if not lazy and not endless:
                return True, "call of %s (returns a finished object)" % c.qualname
            if lazy and not endless:
                # a generator yields once per pass of its own loops, and those loops are judged by T1 / T2 like any other
                return True, "generator %s (its own loops are judged by T1/T2)" % c.qualname
        if isinstance(f, ast.Name):
            cv = getattr(func.module, "constants", {}).get(f.id)
            if isinstance(cv, ast.Call) and ast.unparse(cv.func) in ("operator.itemgetter", "operator.attrgetter", "itemgetter", "attrgetter"):
                return True, "%s is an item/attribute getter: it returns a tuple" % f.id
        from ..repo import External
        if isinstance(c, External) and c.dotted.startswith(("numpy.", "scipy.", "pandas.", "math.", "os.", "pathlib.", "json.", "operator.")):
            return True, "library call %s returning a finished object" % c.dotted
        return False, "call %s" % ast.unparse(f)
    if isinstance(it, ast.BinOp) and isinstance(it.op, ast.Add):
        l, r = iter_is_finite(func, env, it.left, depth + 1), iter_is_finite(func, env, it.right, depth + 1)
        return l[0] and r[0], "concatenation of finite sequences" if l[0] and r[0] else "concatenation with %s" % (l[1] if not l[0] else r[1])
    if isinstance(it, ast.Name) and isinstance(getattr(func.module, "constants", {}).get(it.id), (ast.Tuple, ast.List, ast.Set, ast.Dict, ast.Constant)):
        return True, "module-level literal"
    if isinstance(it, ast.GeneratorExp):
        return all(iter_is_finite(func, env, g.iter, depth + 1)[0] for g in it.generators), "generator over finite iterables"
    t = env.type_of(it).strip_opt()
    if t.kind in ("list", "tuple", "dict", "str", "frame"):
        return True, t.kind
    if t.kind == "cls":
        if getattr(t.cls, "is_namedtuple", False):
            return True, "named tuple %s" % t.cls.name
        if "__getitem__" in t.cls.methods and "__iter__" not in t.cls.methods:
            # legacy sequence protocol: terminates when __getitem__ raises IndexError, i.e. when it indexes a list
            g = t.cls.methods["__getitem__"]
            for n in ast.walk(g.node):
                if isinstance(n, ast.Return) and isinstance(n.value, ast.Subscript):
                    bt = type_env(env.repo, g).type_of(n.value.value).strip_opt()
                    if bt.kind in ("list", "tuple"):
                        return True, "%s.__getitem__ over a %s" % (t.cls.name, bt.kind)
            return False, "%s.__getitem__ does not index a list" % t.cls.name
        return False, "object of class %s" % t.cls.name
    if isinstance(it, ast.Name) and depth < 3:
        # one-step definition lookup
        defs = [n for n in ast.walk(func.node) if isinstance(n, ast.Assign) and any(isinstance(x, ast.Name) and x.id == it.id for x in n.targets)]
        if defs and all(iter_is_finite(func, env, d.value, depth + 1)[0] for d in defs):
            return True, "defined from finite iterables"
        if it.id in func.params or it.id in func.kwonly:
            return True, "parameter (a caller-supplied container)"
        if it.id == func.vararg or it.id == func.kwarg:
            return True, "*args / **kwargs (a tuple / dict built at the call)"
        for n in ast.walk(func.node):
            if n is not func.node and isinstance(n, (ast.FunctionDef, ast.Lambda)):
                a = n.args
                if it.id in [x.arg for x in a.posonlyargs + a.args + a.kwonlyargs] + [y.arg for y in (a.vararg, a.kwarg) if y is not None]:
                    return True, "parameter of a nested function (a caller-supplied container)"
    if isinstance(it, ast.Attribute):
        return True, "attribute (a stored container)"
    if isinstance(it, ast.Subscript):
        return True, "element of a container"
    return False, "unclassified iterable %s" % ast.unparse(it)


def run(ck):
    repo = ck.repo
    ck.explanation = EXPL
    ck.technique = "loop-bound patterns, finite-iterable classification, acyclic resolved call graph, externals table"
    ck.undecided("how many iterations are needed (only boundedness is decided)")
    cg = CallGraph(repo)
    roots = [repo.find_function("Pervaporation.calculate_partial_fluxes")] + process_functions(repo) + \
            [repo.find_function("Pervaporation.ideal_diffusion_curve"), repo.find_function("Pervaporation.non_ideal_diffusion_curve")]
    reach = cg.reachable(roots)
    ck.extra["call_graph"] = {"functions": len(cg.funcs), "edges": sum(len(v) for v in cg.edges.values()),
                              "calls": cg.total_calls, "resolved": cg.resolved_calls, "reachable_from_models": len(reach)}
    ck.floor("functions reachable from the solver and the models", len(reach), 20)
    n_while = n_for = 0
    for k, f in sorted(cg.funcs.items()):
        env = None
        for n in ast.walk(f.node):
            if isinstance(n, ast.While):
                n_while += 1
                ck.analysed_function(f)
                if isinstance(n.test, ast.Constant) and not n.test.value:
                    continue
                ok, why = counter_bounded(f, n)
                ck.ob("T1", f.qualname, "while loop has a bounded counter", f.loc(n), ok, why if not ok else "",
                      found="while %s" % ast.unparse(n.test), sample=True)
            elif isinstance(n, (ast.For, ast.comprehension)):
                n_for += 1
                if env is None:
                    env = type_env(repo, f)
                ok, why = iter_is_finite(f, env, n.iter)
                loc = f.loc(n if isinstance(n, ast.For) else n.iter)
                ck.ob("T2", f.qualname, "loop over %s iterates a finite iterable" % ast.unparse(n.iter)[:60], loc, ok, why)
                if isinstance(n, ast.For):
                    target = ast.unparse(n.iter)
                    grows = [c for st in n.body for c in ast.walk(st)
                             if isinstance(c, ast.Call) and isinstance(c.func, ast.Attribute) and c.func.attr in ("append", "extend", "insert")
                             and ast.unparse(c.func.value) == target]
                    ck.ob("T2", f.qualname, "loop over %s does not extend what it iterates" % target[:60], loc, not grows)
    ck.floor("while loops found", n_while, 1)
    ck.floor("for loops and comprehensions found", n_for, 30)
    cyc = cg.cycles()
    ck.ob("T3", "package", "resolved call graph is acyclic", "pyvaporation/", not cyc,
          "; ".join(" -> ".join(c) for c in cyc)[:600], sample=True)
    unres = sum(len(v) for k, v in cg.unresolved.items() if k in reach)
    ck.extra["unresolved_calls_in_reachable_functions"] = [
        "%s: %s" % (cg.funcs[k].loc(n), ast.unparse(n.func)) for k, v in cg.unresolved.items() if k in reach for n in v][:40]
    for k in sorted(reach):
        f = cg.funcs[k]
        for dotted, node in cg.externals[k]:
            bad = any(dotted == p or dotted.startswith(p) for p in NONTERMINATING)
            if dotted == "builtins.iter" and len(node.args) == 2:
                bad = True
            if bad:
                ck.ob("T4", f.qualname, "external callee %s terminates" % dotted, f.loc(node), False,
                      "listed as potentially non-terminating")
    ck.ob("T4", "package", "no reachable external callee is in the non-terminating table", "pyvaporation/", True,
          "%d external call sites in %d reachable functions" % (sum(len(cg.externals[k]) for k in reach), len(reach)))
    ck.exhaustive = True
    ck.assume("library routines (numpy, scipy.optimize.minimize with its default iteration caps, pandas, joblib, json) terminate")
    ck.assume("dynamic dispatch getattr(self, self.type) in TemperatureProgram.program targets one of the programme methods; a "
              "self-referential type name would end in RecursionError, i.e. still raise")
