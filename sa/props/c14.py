"""C14 — permeance unit conversion is an exact, invertible change of units."""
import itertools

from .. import poly
from ..poly import Rat, subst, is_nonneg
from ..evaluator import analyse, Config, Evaluator
from ..symeval import Ctx
from ..values import Num, ObjV, StrV
from ..repo import AnalysisError
from ..structural import attribute_writes
from ..interp import Frame

EXPL = ("Permeance.convert is normalised for every ordered pair of the three unit names (plus an unknown unit name) "
        "and for component given / None: 18+ configurations, enumerated exhaustively. For each the outcome "
        "(identity, raise, or new Permeance) and the normal form of the new value are compared with the property's "
        "own table (SI 1, GPU 3.35e-10, kg 1/(3600 M)); linearity, path independence and invertibility are "
        "then rational identities on those normal forms. The clamp on `value` and the absence of any other writer of "
        "Permeance.value are decided structurally.")

KG = "kg/(m2*h*kPa)"


def run(ck):
    repo = ck.repo
    ck.explanation = EXPL
    ck.technique = "exhaustive mode enumeration + rational normal forms; who-may-write scan"
    P = repo.find_class("Permeance")
    U = repo.find_class("Units")
    fc = repo.find_function("Permeance.convert")
    ck.analysed_function(fc)
    from ..purity import purity
    purity(ck, repo, [fc])
    # unit names from the Units class itself
    names = {}
    for k, v in U.class_attrs.items():
        if v is not None and hasattr(v, "value") and isinstance(v.value, str):
            names[k] = v.value
    ck.floor("unit names in class Units", len(names), 3)
    units = sorted(names.values())
    if KG not in units or "SI" not in units or "GPU" not in units:
        raise AnalysisError("Units no longer defines the three units named by the property: %s" % units)
    M = Rat.sym("component.molecular_weight", ("nonneg", "pos"))
    F = {"SI": Rat.const(1), "GPU": poly.rat(3.35e-10), KG: 1 / (M * 3600)}
    v = Rat.sym("self.value", ("nonneg",))
    results = {}
    nconf = 0
    for u, t, comp in itertools.product(units + ["furlong"], units + ["furlong"], ("notnone", "none")):
        nconf += 1
        cfg = Config(facts={"self.units": ("str", u), "to_units": ("str", t), "component": comp})
        outs = analyse(repo, fc, cfg)
        ck.analysed["paths"] += len(outs)
        label = "%s -> %s, component %s" % (u, t, "given" if comp == "notnone" else "None")
        where = fc.loc()
        if len(outs) != 1:
            ck.ob("U1", fc.qualname, label, where, False, "expected one path per mode, found %d (a data-dependent branch was added)" % len(outs))
            continue
        o = outs[0]
        if u == t:
            ok = o.kind == "return" and isinstance(o.value, ObjV) and o.value.path == "self"
            ck.ob("U1", fc.qualname, label, where, ok, "conversion to the same unit must return the permeance unchanged",
                  found=repr(o.value) if o.kind == "return" else "raises " + o.exc.exc_type)
            continue
        must_raise = (comp == "none" and (t == KG or u == KG)) or u == "furlong" or t == "furlong"
        if must_raise:
            ck.ob("U3", fc.qualname, label, o.exc.where if o.kind == "raise" else where, o.kind == "raise",
                  "a conversion that needs a component but has none, or involves an unknown unit, must raise",
                  found=("raises " + o.exc.exc_type) if o.kind == "raise" else "returns %r" % (o.value,))
            continue
        ok = o.kind == "return" and isinstance(o.value, ObjV) and o.value.constructed and o.value.cls.name == "Permeance"
        if not ok:
            ck.ob("U1", fc.qualname, label, where, False, "must return a new Permeance",
                  found=("raises %s at %s" % (o.exc.exc_type, o.exc.where)) if o.kind == "raise" else repr(o.value))
            continue
        val, un = o.value.fields.get("value"), o.value.fields.get("units")
        ck.ob("U1", fc.qualname, label + " [units]", where, isinstance(un, StrV) and un.s == t,
              "result must be labelled with the target unit", found=repr(un))
        exp = v * F[u] / F[t]
        ck.ob("U2", fc.qualname, label + " [value]", where, isinstance(val, Num) and val.r == exp,
              "value * factor[from] / factor[to] with SI=1, GPU=3.35e-10, kg=1/(3600*M)", expected=str(exp),
              found=str(val.r) if isinstance(val, Num) else repr(val), sample=(u, t) == (KG, "GPU"))
        if isinstance(val, Num) and comp == "notnone":
            results[(u, t)] = val.r
    ck.analysed["configs"] += nconf
    ck.floor("converting unit pairs normalised", len(results), 0)
    # identities on the normal forms found in the code (not on the oracle)
    vid = poly.T.sym("self.value").id
    for (a, b), e in sorted(results.items()):
        lin = (e / v)
        ck.ob("U5", fc.qualname, "%s -> %s linear in value" % (a, b), fc.loc(), vid not in lin.deps(),
              "converted value must be value times a factor free of value", found=str(lin))
        if (b, a) in results:
            back = subst(results[(b, a)], {vid: e})
            ck.ob("U6", fc.qualname, "%s -> %s -> %s" % (a, b, a), fc.loc(), back == v, "round trip returns the original value",
                  expected=str(v), found=str(back))
        for c in units:
            if c not in (a, b) and (b, c) in results and (a, c) in results:
                via = subst(results[(b, c)], {vid: e})
                ck.ob("U7", fc.qualname, "%s -> %s -> %s vs %s -> %s" % (a, b, c, a, c), fc.loc(), via == results[(a, c)],
                      "path independence", expected=str(results[(a, c)]), found=str(via))
    # U4 clamp
    ctx = Ctx(repo, Config(), [])
    ev = Evaluator(ctx)
    x = Rat.sym("#x")
    obj = ev.construct(P, [], {"value": Num(x)}, Frame(None, P.module, {}), P.node)
    r = obj.fields["value"]
    ok = False
    found = repr(r)
    if isinstance(r, Num):
        found = str(r.r)
        ok = is_nonneg(r.r) and not r.r.is_const()   # abs(x), max(x, 0), x*x ... are non-negative by form
        a = r.r.single_atom() if not ok else None
        if a is not None and a.kind == "fn":
            if a.name == "ite":
                (op, l, rr), ta, fb = a.args
                d = l - rr
                if op in ("ge", "gt") and d == x:
                    ok = ta == x and fb.is_zero()
                elif op in ("le", "lt") and d == x:
                    ok = fb == x and ta.is_zero()
                elif op in ("ge", "gt") and d == -x:   # 0 >= x
                    ok = ta.is_zero() and fb == x
                elif op in ("le", "lt") and d == -x:   # 0 <= x
                    ok = ta == x and fb.is_zero()
            elif a.name == "max":
                ok = len(a.args) == 2 and any(z.is_zero() for z in a.args) and any(z == x for z in a.args)
    fld = P.field("value")
    ck.ob("U4", "Permeance", "value is made non-negative on construction", P.module.relpath + ":%d" % fld.node.lineno,
          ok, "the converter of Permeance.value must yield a form that is non-negative for every input", found=found)
    hits = attribute_writes(repo, "Permeance", "value")
    ck.ob("U4", "package", "no assignment to Permeance.value", P.module.relpath, not hits,
          "; ".join("%s in %s (%s)" % (f.loc(n), f.qualname, cert) for f, n, cert in hits))
    ck.extra["who_may_write_scan"] = {"functions_scanned": len(repo.all_functions()), "writes_to_Permeance.value": len(hits)}
    ck.exhaustive = True
    ck.assume("molecular weights are positive; float literals are read as exact decimals; attrs applies the converter on construction")
    ck.undecided("floating-point rounding of the factors (identities are over the reals)")
