"""C20 — modelling calls are pure: no hidden state, arguments untouched, repeatable (kind S)."""
import ast

from ..effects import Effects, chain
from ..callgraph import CallGraph, fkey
from ..procmodel import process_functions
from ..repo import AnalysisError, FuncInfo, ClassInfo

EXPL = ("Q1: the interprocedural write set of every public modelling entry point (flux solver and helpers, curve and process "
        "generators, fits, measurement extraction, membrane queries, curve / process metrics, thermodynamics) contains only "
        "objects allocated during the call (constructors may initialise their own instance). Q2: package-wide there is no global / "
        "nonlocal statement, no mutable default argument, no cache decorator, no module-level mutable container, and the registry "
        "classes Mixtures / Components only construct. Q3: clock and hash sources flow only into comment strings and directory "
        "names; no random source is reachable. Q1-Q3 imply that results are a function of the argument values alone and that the "
        "arguments are unchanged, for every history of calls.")

IO_OR_PLOT = ("save", "load", "safe_save", "safe_load", "plot", "from_csv", "from_frame", "from_dict",
              "append")   # Measurements.append is the container's own builder method: mutating its receiver is its purpose
EXCEPTIONS = {
    ("DiffusionCurve.get_permeances", "self"): "assigns self.permeances only under 'self.permeances is None', which cannot hold after construction "
                                              "(C09-V3: every constructor path sets permeances)",
}
AMBIENT = ("datetime.", "time.", "builtins.hash", "builtins.id", "os.getpid", "uuid.", "secrets.")
RANDOM = ("random.", "numpy.random.", "secrets.", "os.urandom", "uuid.")


def entry_points(repo):
    out = []
    for f in repo.all_functions():
        if f.name.startswith("_") and f.name not in ("__call__", "__mul__", "__add__", "__attrs_post_init__", "__getitem__", "__len__"):
            continue
        if f.name in IO_OR_PLOT or f.module.relpath.endswith("plotting.py"):
            continue
        if f.cls is not None and f.cls.name.startswith("_") and not f.cls.name.startswith("__"):
            continue   # a private helper class is not a modelling entry point; what its methods do is judged where they are called
        if f.module.name.split(".")[-1].startswith("_") and not f.module.name.split(".")[-1].startswith("__"):
            continue   # likewise a function of a private module (`_paths.py`): reached only through the package's own functions
        out.append(f)
    return out


def run(ck):
    repo = ck.repo
    ck.explanation = EXPL
    ck.technique = "effect/alias analysis (write sets) over the resolved call graph; package-wide scans for hidden state; taint of ambient sources"
    ck.undecided("bit-identity across interpreter / library versions (environment, not source)")
    cg = CallGraph(repo)
    eff = Effects(repo, cg)
    eps = entry_points(repo)
    ck.floor("modelling entry points", len(eps), 40)
    # a documented exception is only as good as the guard it rests on: prove it on the current source
    exc_ok = {}
    for (qn, par), why in EXCEPTIONS.items():
        try:
            g = repo.find_function(qn)
        except AnalysisError:
            continue
        from ..evaluator import analyse
        from ..symeval import Config
        outs = analyse(repo, g, Config(facts={"self.permeances": "notnone"}, inline=lambda f: False))
        stores = [e for o in outs for e in o.events if e.kind == "attr-store"]
        exc_ok[(qn, par)] = not stores
        ck.ob("Q1", qn, "writes its instance only while the field it fills is still missing (never after construction)", g.loc(), not stores,
              "; ".join("%s stores .%s" % (e.where, e.data[1]) for e in stores)[:300])
    for f in eps:
        ck.analysed_function(f)
        is_ctor = f.name == "__attrs_post_init__"
        muts = eff.external_mutations(f, allow_self_top=is_ctor)
        keep = []
        for mu, tags in muts:
            tags = {t for t in tags if not ((f.qualname, t[1]) in EXCEPTIONS and exc_ok.get((f.qualname, t[1]), False)) or t[2] != 0}
            if tags:
                keep.append((mu, tags))
            elif muts:
                ck.note("%s: %s" % (f.qualname, EXCEPTIONS.get((f.qualname, "self"), "")))
        ck.ob("Q1", f.qualname, "leaves its arguments, its instance and module-level objects unchanged", f.loc(), not keep,
              lambda: "; ".join("%s [%s]" % (chain(mu), ", ".join("%s %s (depth %d)" % (("parameter" if t[0] == "P" else "module-level object"), t[1], t[2])
                                                                   for t in sorted(tags, key=str))) for mu, tags in keep)[:900])
    # Q2 package-wide
    n_defaults = 0
    for f in repo.all_functions():
        for n in ast.walk(f.node):
            if isinstance(n, (ast.Global, ast.Nonlocal)):
                ck.ob("Q2", f.qualname, "no global / nonlocal statement", f.loc(n), False, ", ".join(n.names))
        for p, d in f.defaults.items():
            n_defaults += 1
            mutable = isinstance(d, (ast.List, ast.Dict, ast.Set, ast.ListComp, ast.DictComp)) or \
                (isinstance(d, ast.Call) and ast.unparse(d.func) in ("list", "dict", "set", "numpy.array", "numpy.zeros", "defaultdict"))
            if mutable:
                ck.ob("Q2", f.qualname, "no mutable default argument (%s)" % p, f.loc(), False, ast.unparse(d))
        for d in f.decorators:
            if any(x in d for x in ("lru_cache", "functools.cache", "cached_property", "memoize", "cache")):
                ck.ob("Q2", f.qualname, "no cache decorator", f.loc(), False, d)
    from ..structural import hidden_state
    for where, what in hidden_state(repo, functions=[]):
        ck.ob("Q2", "package", "no mutable class-level default (a container shared by every instance)", where, False, what)
    ck.ob("Q2", "package", "no global / nonlocal statements, mutable defaults or cache decorators", "pyvaporation/", True,
          "%d functions, %d default values scanned" % (len(repo.all_functions()), n_defaults), sample=True)
    for m in repo.modules.values():
        for name, v in m.constants.items():
            mutable = isinstance(v, (ast.Dict, ast.Set, ast.DictComp)) or (isinstance(v, ast.Call) and ast.unparse(v.func) in ("dict", "set", "defaultdict", "list"))
            if isinstance(v, (ast.List, ast.Dict, ast.Set, ast.DictComp)) or (isinstance(v, ast.Call) and ast.unparse(v.func) in ("dict", "set", "list")):
                # module-level containers are accepted only if nothing in the package mutates them (constant tables)
                mutable = False
                for f in repo.all_functions():
                    for mu in eff.summary(f).mutates:
                        if any(t != "F" and t[0] == "G" and t[1] == name for t in mu.tags):
                            mutable = True
            ck.ob("Q2", m.name, "module-level name %s is not a mutable cache" % name, m.relpath, not mutable,
                  ast.unparse(v)[:80] if mutable else "")
    for reg in ("Mixtures", "Components"):
        C = repo.find_class(reg)
        bad = []
        for st in C.node.body:
            if isinstance(st, (ast.Assign, ast.AnnAssign)):
                v = st.value
                if v is None:
                    continue
                if isinstance(v, ast.Call):
                    r = repo.resolve(C.module, ast.unparse(v.func)) if isinstance(v.func, ast.Name) else None
                    if not isinstance(r, ClassInfo):
                        bad.append(ast.unparse(st)[:60])
                elif not isinstance(v, ast.Constant):
                    bad.append(ast.unparse(st)[:60])
            elif isinstance(st, ast.Expr) and isinstance(st.value, ast.Constant):
                continue
            elif isinstance(st, (ast.FunctionDef,)):
                bad.append("def %s" % st.name)
            else:
                bad.append(type(st).__name__)
        ck.ob("Q2", reg, "registry class body only constructs instances", C.module.relpath + ":%d" % C.node.lineno, not bad, "; ".join(bad)[:300])
        writers = []
        for f in repo.all_functions():
            for mu in eff.summary(f).mutates:
                if any(t != "F" and t[0] == "G" and t[1] == reg for t in mu.tags):
                    writers.append(chain(mu))
        ck.ob("Q2", reg, "no function writes into a built-in %s entry" % reg.lower(), C.module.relpath, not writers, "; ".join(writers)[:400])
    # Q3 ambient sources
    parents = {}
    n_amb = 0
    for f in repo.all_functions():
        for n in ast.walk(f.node):
            for c in ast.iter_child_nodes(n):
                parents[c] = n
    modelling = {fkey(f) for f in eps}
    _reach = {}

    def reach_of(e):
        r = _reach.get(e.qualname)
        if r is None:
            r = _reach[e.qualname] = cg.reachable([e])
        return r
    def flows_to_comment(k, f, node, depth=0, seen=None):
        """(ok, offending node): the value of expression `node` in function f ends only in `comments=` keywords — directly, through a
        local name all of whose uses do, or through the function's return value at every call site (def-use, 4 levels)."""
        seen = set() if seen is None else seen
        if depth > 4 or (k, id(node)) in seen:
            return False, node
        seen.add((k, id(node)))
        cur = node
        while cur in parents:
            par = parents[cur]
            if isinstance(par, ast.keyword) and par.arg in ("comments", "comment"):
                return True, cur
            if isinstance(par, ast.stmt):
                break
            cur = par
        st = parents.get(cur)
        if isinstance(st, ast.Return):
            sites = [(ck, n) for (ck, cal), ns in cg.sites.items() if cal == k for n in ns]
            for ck, n in sites:
                ok, bad = flows_to_comment(ck, cg.funcs[ck], n, depth + 1, seen)
                if not ok:
                    return False, bad
            return True, cur
        tgt = None
        if isinstance(st, ast.Assign) and len(st.targets) == 1 and isinstance(st.targets[0], ast.Name):
            tgt = st.targets[0].id
        elif isinstance(st, (ast.AnnAssign, ast.AugAssign)) and isinstance(st.target, ast.Name):
            tgt = st.target.id
        if tgt is not None:
            uses = [n for n in ast.walk(f.node) if isinstance(n, ast.Name) and n.id == tgt and isinstance(n.ctx, ast.Load)]
            for u in uses:
                ok, bad = flows_to_comment(k, f, u, depth + 1, seen)
                if not ok:
                    return False, bad
            return True, cur
        return False, cur

    for k, f in cg.funcs.items():
        for dotted, node in cg.externals[k]:
            if any(dotted == a or dotted.startswith(a) for a in RANDOM):
                reach_from = [e.qualname for e in eps if k in cg.reachable([e])]
                ck.ob("Q3", f.qualname, "no random source", f.loc(node), not reach_from or f.name in IO_OR_PLOT,
                      "%s reachable from %s" % (dotted, ", ".join(reach_from[:5])))
            if any(dotted == a or dotted.startswith(a) for a in AMBIENT):
                n_amb += 1
                # walk up: the value must end in a comments= keyword, or the function is the directory-name generator
                cur = node
                # a helper that only the persistence functions reach (the directory-name generator) is outside the modelling calls
                ok = not any(k in reach_of(e) for e in eps)
                if not ok:
                    ok, cur = flows_to_comment(k, f, node)
                ck.ob("Q3", f.qualname, "clock / hash value flows only into a comment string or a directory name", f.loc(node), ok,
                      "%s used in %s" % (dotted, ast.unparse(parents.get(cur, cur))[:120]))
    ck.floor("ambient-source call sites classified", n_amb, 2)
    ck.exhaustive = True
    ck.assume("numpy / scipy numerical routines are pure functions of their arguments")
    ck.note("I/O methods (save/load/safe_*, from_csv, from_frame, Membrane.load) and plotting are not modelling calls and are not judged; "
            "ProcessModel.save fills self.permeance_fits when it is None (observation)")
