"""C17 — saved curves, functions, conditions and process models load back unchanged (kind S: writer/reader tables)."""
import re

from ..iotables import writer_slot, slot_kind, reader_refs, Slot, value_text, full_text
from ..evaluator import analyse
from ..symeval import Config, key_str, val_key
from ..procmodel import UNITS, KG
from ..values import *
from ..repo import AnalysisError, FuncInfo

EXPL = ("The persistence code is evaluated by the normal-form evaluator with a model of pandas / json / joblib / pathlib in which a "
        "write is an event carrying the stored values and the target path and a read yields symbolic cells csv.<column>[row] / "
        "json.<key>. From these values two tables are read off. Writer: slot -> (field of self, selector inside an element, "
        "series/scalar). Reader: constructor field -> slots with selector, shape and the conversions wrapped around them. "
        "Decided: W1 every column read is written, the written columns are understood, the set loader's column check equals the "
        "written column order; W2 field -> slot -> field is the identity including tuple positions (partial_flux_1 <-> [0] ...); "
        "W3 value/unit and value/type pairs are recombined and re-normalised (Permeance.convert to kg with the position's own "
        "component, Composition.to_weight with the file's mixture); W4 side files: index, file name, component name and loader "
        "filter agree, safe/unsafe variants are chosen symmetrically by the flag, JSON key sets are equal and key<->field "
        "bijective; W5 a field written as a series is read as a series; W6 every write of ProcessModel.save targets the directory "
        "created with exist_ok=False by _generate_process_path. Temporaries, helper functions, loops versus comprehensions and "
        "dict comprehensions do not change the tables because they are read from values, not from syntax.")

INL = {"Composition.first", "Composition.second"}


def io_config(kinds=None):
    c = Config(inline=lambda f: f.qualname in INL, str_domains={"*.units": UNITS, "*.type": ("weight", "molar")})
    c.storage_kinds = dict(kinds or {})
    return c


def _domain_lookup(cfg):
    def look(path):
        d = cfg.str_domains.get(path)
        if d is None and path.endswith("]"):
            d = cfg.str_domains.get(path[:path.rfind("[")])
        if d is None:
            for k, v in cfg.str_domains.items():
                if k.startswith("*") and path.endswith(k[1:]):
                    return v
        return d
    return look


def returns(outs):
    return [o for o in outs if o.kind == "return"]


def slot_sig(s):
    return None if s is None else (s.field, s.selector, s.shape, s.const)


# ----------------------------------------------------------------------------------------------------
# csv tables
# ----------------------------------------------------------------------------------------------------
def writer_table(ck, repo, sv: FuncInfo, setup=None):
    cfg = io_config()
    outs = analyse(repo, sv, cfg, setup=setup, max_paths=2048)
    ck.analysed["paths"] += len(outs)
    rets = returns(outs)
    ck.ob("W1", sv.qualname, "save completes on some path", sv.loc(), bool(rets))
    table, order, kinds, where = None, None, {}, sv.loc()
    look = _domain_lookup(cfg)
    for o in rets:
        evs = [e for e in o.events if e.kind == "to_csv"]
        ck.ob("W1", sv.qualname, "exactly one table is written on every path", evs[0].where if evs else sv.loc(), len(evs) == 1,
              found="%d to_csv calls" % len(evs))
        if len(evs) != 1:
            continue
        fr = evs[0].data[0]
        where = evs[0].where
        names = list(fr.order) if fr.order is not None else list(fr.columns)
        t = {}
        for n in names:
            s = writer_slot(fr.columns[n])
            if s is not None and n in fr.scalar and s.shape == "series":
                s = None
            t[n] = s
            kinds[("csv", n)] = slot_kind(look, fr.columns[n])
        if table is None:
            table, order = t, names
        else:
            same = order == names and all(slot_sig(table[n]) == slot_sig(t[n]) for n in names)
            ck.ob("W1", sv.qualname, "the same table is written on every path", where, same)
    if table is None:
        raise AnalysisError("%s writes no table" % sv.qualname)
    bad = [n for n in order if table[n] is None]
    ck.ob("W1", sv.qualname, "every written column holds a field of the object (or a constant) itself", where, not bad,
          lambda: "; ".join("%s <- %s" % (n, key_str(val_key(outs and rets[0] and [e for e in rets[0].events if e.kind == 'to_csv'][0].data[0].columns[n]))[:80])
                            for n in bad))
    ck.ob("W1", sv.qualname, "no column is written twice under one name", where, len(order) == len(set(order)))
    return table, order, kinds, where


def asserts_missing(cond, taken):
    """True: the path decision says some stored value is missing (NaN); False: it says the data are complete; None: unrelated."""
    neg = False
    while isinstance(cond, tuple) and cond and cond[0] == "not":
        cond, neg = cond[1], not neg
    if neg:
        taken = not taken
    if not (isinstance(cond, tuple) and cond):
        return None
    op = cond[0]
    if op == "isna":
        return bool(taken)
    t = full_text(cond)
    if "isna(" not in t and "notna(" not in t:
        return None
    if op in ("any", "all") and len(cond) == 2:
        if "notna(" in t:
            return (not taken) if op == "all" else None
        return bool(taken) if op == "any" else None
    if op in ("eq", "ne", "gt", "ge", "lt", "le") and len(cond) == 3:
        from ..poly import Rat
        l, r = cond[1], cond[2]
        if isinstance(l, Rat) and isinstance(r, Rat):
            if r.is_zero() or l.is_zero():
                if l.is_zero():
                    op = {"gt": "lt", "lt": "gt", "ge": "le", "le": "ge"}.get(op, op)
                # m >= 0 always (a mean / count of missing values); 'complete' means m == 0
                complete_if_taken = {"eq": True, "le": True, "ne": False, "gt": False}.get(op)
                if complete_if_taken is None:
                    return None
                return not (taken == complete_if_taken)
    return None


def check_table_pair(ck, repo, cls_name, save_name, load_name, series_fields, scalar_fields, unit_note, load_setups):
    C = repo.find_class(cls_name)
    sv, ld = C.methods.get(save_name), C.methods.get(load_name)
    if sv is None or ld is None:
        raise AnalysisError("%s.%s / %s not found" % (cls_name, save_name, load_name))
    ck.analysed_function(sv)
    ck.analysed_function(ld)
    w, order, kinds, where_w = writer_table(ck, repo, sv)
    ck.floor("%s columns written" % cls_name, len(order), 14)
    where_r = ld.loc()
    fields = {}
    nobj = 0
    results = []
    for label, setup in load_setups:
        outs = analyse(repo, ld, io_config(kinds), setup=setup, max_paths=4096)
        ck.analysed["paths"] += len(outs)
        for o in returns(outs):
            v = o.value
            if isinstance(v, ObjV) and v.constructed and v.cls.name == cls_name:
                nobj += 1
                results.append((label, o))
                for f, x in v.fields.items():
                    for r in reader_refs(x):
                        fields.setdefault(f, {})[r.key()] = r
    ck.ob("W2", ld.qualname, "loader constructs the object from the frame", where_r, nobj > 0)
    if not nobj:
        return w, order, fields, results
    read_cols = set()
    for fld in sorted(fields):
        for r in fields[fld].values():
            if r.store != "csv" or "<arg>" in r.path:
                continue
            col, path, shape = r.slot, r.path, r.shape
            read_cols.add(col)
            if r.row is not None:
                ck.ob("W5", ld.qualname, "a value stored once per table (%s) is read from the first row, the only one every table has" % col, where_r,
                      r.row == "0", "a table with a single row (a one-point curve, a one-step model) has no row %s" % r.row, found="row %s" % r.row)
            ck.ob("W1", ld.qualname, "column %s read by the loader is written by save" % col, where_r, col in w,
                  "the loader reads a column that save never writes")
            if col not in w or w[col] is None:
                continue
            s = w[col]
            wf0 = s.field.split(".")[0]
            ok = wf0 == fld
            ck.ob("W2", ld.qualname, "field %s is read back from the column its own data was written to (%s)" % (fld, col), where_r, ok,
                  "column %s is written from self.%s%s but read into %s%s" % (col, s.field, s.selector, fld, path),
                  expected="self.%s" % fld, found="self.%s" % s.field, sample=True)
            if not ok:
                continue
            wsel = s.selector if "." not in s.field else "." + s.field.split(".", 1)[1] + s.selector
            p_r, p_w = path.replace(".first", ".p"), wsel.replace(".first", ".p")
            if fld == "mixture":
                # written as mixture.name, read back through the registry look-up by that name
                ck.ob("W2", ld.qualname, "the mixture is written by name and looked up by that name", where_r, p_w == ".name", found=p_w)
                continue
            if col == "units":
                okp = p_w.endswith(".units") and p_r.endswith(".units")
                ck.ob("W3", ld.qualname, "units column labels the permeances of %s%s" % (fld, path), where_r, okp, unit_note)
                continue
            ck.ob("W2", ld.qualname, "position / attribute agreement for %s: written from %s, read into %s" % (col, p_w or "<element>", p_r or "<element>"),
                  where_r, p_r == p_w, "the loader puts column %s at %s%s but save took it from %s%s" % (col, fld, p_r, s.field, p_w),
                  expected=p_w, found=p_r)
            if s.shape == "series" and fld in series_fields:
                ck.ob("W5", ld.qualname, "field %s is written as a series and read back as a series" % fld, where_r, shape == "series",
                      "save writes one value per step; the loader binds %s" % ("a single value (row 0)" if shape in ("scalar", "series-const") else shape))
    for col in order:
        s = w[col]
        if s is None or s.field == "<constant>":
            continue
        if col not in read_cols:
            ck.note("%s: column %s is written but not read back by %s" % (cls_name, col, ld.qualname))
    for fld in series_fields + scalar_fields:
        ck.ob("W2", ld.qualname, "persisted field %s is restored" % fld, where_r, bool(fields.get(fld)),
              "the loader does not rebuild this field from the frame")
    # the presence tests of once-per-table values look at the first row too
    rows = set()
    for _, o in results:
        for c, d in o.trace:
            for mm in re.finditer(r"csv\.(\w+)\[(\d+)\]", full_text(c)):
                rows.add((mm.group(1), mm.group(2)))
    for col, row in sorted(rows):
        ck.ob("W5", ld.qualname, "the presence test of %s looks at the first row, the only one every table has" % col, where_r, row == "0",
              "a table with a single row has no row %s" % row, found="row %s" % row)
    # with nothing missing in the file, nothing may be missing in the object (a presence test of the wrong polarity drops a field)
    complete = [o for _, o in results if not any(asserts_missing(c, d) for c, d in o.trace)]
    ck.ob("W2", ld.qualname, "the loader has a path for a file in which no value is missing", where_r, bool(complete))
    for o in complete:
        for fld in series_fields + scalar_fields:
            x = o.value.fields.get(fld)
            ok = x is not None and x is not NONE and not isinstance(x, NoneV) and bool(reader_refs(x) or not isinstance(x, (ListV, TupV)))
            if isinstance(x, ListV) and x.kind == "rep" and (x.elem is NONE or isinstance(x.elem, NoneV)):
                ok = False
            ck.ob("W2", ld.qualname, "with complete data the field %s is restored" % fld, where_r, ok,
                  "every value of the file is present on this path, yet the loader leaves the field empty", found=repr(x)[:120])
    # W6: every restored per-step series has one element per row of the table — also the all-None series built for a column that
    # is empty in the file ( [None] * <number of rows> )
    def _len(x):
        if isinstance(x, ListV):
            if x.kind == "rep":
                return x.n
            if x.kind == "fam":
                return x.hi - x.lo
            if x.kind == "lit":
                return Rat.const(len(x.items))
        return None
    for _, o in results:
        if o.kind != "return" or not isinstance(o.value, ObjV):
            continue
        lens = {fld: _len(o.value.fields.get(fld)) for fld in series_fields}
        known = [(fld, n) for fld, n in lens.items() if n is not None and not n.is_const()]
        for fld, n in known:
            # the number of rows: len(<table>) or, the same thing, the length of one of its columns
            norm = re.sub(r"len\((\w+)\.\w+\)", r"len(\1)", str(n))
            ck.ob("W6", ld.qualname, "restored series %s has one element per row of the table" % fld, where_r,
                  bool(re.fullmatch(r"len\(\w+\)", norm)),
                  "a series whose length is not the table's row count cannot be the stored one (it is paired with the others step by step)",
                  expected="len(<table>)", found=str(n))
    check_recombination(ck, ld, fields)
    return w, order, fields, results


def check_recombination(ck, ld: FuncInfo, fields):
    """W3: Permeance(value, units).convert(kg, own component); Composition(p, type).to_weight(file's mixture)"""
    n = 0
    for r in fields.get("permeances", {}).values():
        m = re.match(r"^\[(\d)\]\.value$", r.path)
        if not m or r.store != "csv":
            continue
        n += 1
        i = int(m.group(1))
        comp = "first_component" if i == 0 else "second_component"
        other = "second_component" if i == 0 else "first_component"
        ws = [x for x in r.wrappers if x[0] == "Permeance.convert"]
        ok = len(ws) == 1 and len(r.wrappers) == 1
        found = str(r.wrappers)[:240]
        if ok:
            args = ws[0][1]
            ok = len(args) == 2 and args[0] == repr(KG) and comp in args[1] and other not in args[1] and "csv.mixture" in args[1]
        ck.ob("W3", ld.qualname, "loaded permeance %d is converted to kg/(m2 h kPa) with the %s of the stored mixture" % (i + 1, comp.replace("_", " ")),
              ld.loc(), ok, found=found)
    ck.floor("permeance recombinations in %s" % ld.qualname, n, 2)
    for fld in ("feed_compositions", "permeate_composition"):
        refs = [r for r in fields.get(fld, {}).values() if r.store == "csv" and "<arg>" not in r.path]
        if not refs:
            continue
        paths = {r.path for r in refs}
        ok = {".p", ".type"} <= paths
        for r in refs:
            ws = r.wrappers
            ok = ok and len(ws) == 1 and ws[0][0] == "Composition.to_weight" and len(ws[0][1]) == 1 and "csv.mixture" in ws[0][1][0]
        ck.ob("W3", ld.qualname, "%s are re-loaded as mass fractions (value and type recombined, then to_weight with the stored mixture)" % fld, ld.loc(),
              ok, found="; ".join("%s%s %s" % (r.slot, r.path, list(r.wrappers)) for r in refs)[:300])


def _lits(k, out):
    if isinstance(k, str) and k.startswith("('lit',"):
        import ast as _ast
        try:
            t = _ast.literal_eval(k)
        except (ValueError, SyntaxError):
            return
        _lits(t, out)
        return
    if isinstance(k, tuple):
        if k and k[0] == "lit" and all(isinstance(x, str) for x in k[1:]):
            out.append(list(k[1:]))
        for x in k:
            _lits(x, out)


def check_set_loader(ck, repo, order):
    sl = repo.find_function("DiffusionCurveSet.load")
    ck.analysed_function(sl)
    outs = analyse(repo, sl, io_config())
    ck.analysed["paths"] += len(outs)
    lists = []
    raised = False
    for o in outs:
        for c, d in o.trace:
            if "csv.columns" in full_text(c):
                _lits(c, lists)
                if o.kind == "raise":
                    raised = True
    ok = bool(lists) and all(l == order for l in lists) and raised
    ck.ob("W1", sl.qualname, "the set loader rejects a file whose columns differ from the columns DiffusionCurve.save writes, in that order", sl.loc(), ok,
          found="checked against %s; written %s" % (lists[:1], order))
    calls = [c for o in returns(outs) for c in o.calls if c.callee.qualname == "DiffusionCurve.from_frame"]
    okc = bool(calls) and all(isinstance(c.bound.get("data"), FrameV) and "groupby(curve_id)" in c.bound["data"].name for c in calls)
    ck.ob("W1", sl.qualname, "every curve_id group of the file is handed to DiffusionCurve.from_frame", sl.loc(), okc,
          found="; ".join(repr(c.bound.get("data"))[:80] for c in calls[:2]))


# ----------------------------------------------------------------------------------------------------
# json pairs
# ----------------------------------------------------------------------------------------------------
def check_json_pair(ck, repo, cls_name, exempt):
    C = repo.find_class(cls_name)
    sv, ld = C.methods.get("safe_save"), C.methods.get("safe_load")
    if sv is None or ld is None:
        raise AnalysisError("%s.safe_save / safe_load not found" % cls_name)
    ck.analysed_function(sv)
    ck.analysed_function(ld)
    cfg = io_config()
    outs = analyse(repo, sv, cfg)
    ck.analysed["paths"] += len(outs)
    look = _domain_lookup(cfg)
    wmap, kinds = None, {}
    for o in returns(outs):
        evs = [e for e in o.events if e.kind == "json.dump"]
        ck.ob("W4", sv.qualname, "one JSON document is written on every path", evs[0].where if evs else sv.loc(), len(evs) == 1)
        if len(evs) != 1:
            continue
        obj, fp, fpdesc = evs[0].data
        ck.ob("W4", sv.qualname, "the JSON document goes to the caller's path, opened for writing", evs[0].where,
              bool(re.match(r"^open\(path, w[bt]?\)$", fpdesc)), found=fpdesc)
        ck.ob("W4", sv.qualname, "the JSON document is a mapping with constant keys", evs[0].where, isinstance(obj, DictV))
        if not isinstance(obj, DictV):
            continue
        m = {}
        for k, v in obj.items.items():
            s = writer_slot(v)
            m[k] = None if s is None or s.field == "<constant>" else (s.field + s.selector)
            kk = slot_kind(look, v)
            if isinstance(v, ListV):
                kk = ("list", None)
            kinds[("json", k)] = kk
        if wmap is None:
            wmap = m
        else:
            ck.ob("W4", sv.qualname, "the same keys are written on every path", evs[0].where, m == wmap)
    if wmap is None:
        raise AnalysisError("%s writes no JSON document" % sv.qualname)
    outs = analyse(repo, ld, io_config(kinds))
    ck.analysed["paths"] += len(outs)
    rmap = {}
    read_keys = set()
    nobj = 0
    for o in returns(outs):
        for e in o.events:
            if e.kind == "json-read":
                read_keys.add(e.data[1])
        opens = [e for e in o.events if e.kind == "json.load"]
        ck.ob("W4", ld.qualname, "the JSON document is read from the caller's path", opens[0].where if opens else ld.loc(),
              len(opens) == 1 and bool(re.match(r"^open\(path(, r[bt]?)?\)$", opens[0].data)), found=opens[0].data if opens else "no json.load")
        v = o.value
        if isinstance(v, ObjV) and v.constructed and v.cls.name == cls_name:
            nobj += 1
            for f, x in v.fields.items():
                for r in reader_refs(x):
                    if r.store == "json":
                        rmap.setdefault(r.slot, set()).add(f + r.path)
    ck.ob("W4", ld.qualname, "loader constructs a %s" % cls_name, ld.loc(), nobj > 0)
    ck.ob("W4", sv.qualname, "JSON keys written == JSON keys read", sv.loc(), set(wmap) == read_keys and bool(wmap),
          found="written %s; read %s" % (sorted(wmap), sorted(read_keys)))
    for k in sorted(set(wmap) | set(rmap)):
        a, b = wmap.get(k), rmap.get(k, set())
        ck.ob("W4", ld.qualname, "JSON key %r is written from and restored to the same field" % k, ld.loc(), a is not None and b == {a},
              expected=str(a), found=str(sorted(b)), sample=(k == "alpha"))
    fields = [f.name for f in C.fields]
    persisted = set(x.split(".")[0].split("[")[0] for x in wmap.values() if x)
    missing = [f for f in fields if f not in persisted and f not in exempt]
    ck.ob("W4", sv.qualname, "every field of %s is persisted (documented exceptions: %s)" % (cls_name, ", ".join(sorted(exempt)) or "none"),
          sv.loc(), not missing, "not persisted: %s" % missing)


def check_binary_pair(ck, repo):
    PF = repo.find_class("PervaporationFunction")
    sv, ld = PF.methods["save"], PF.methods["load"]
    ck.analysed_function(sv)
    ck.analysed_function(ld)
    outs = analyse(repo, sv, io_config())
    ck.analysed["paths"] += len(outs)
    ok = bool(returns(outs))
    found = ""
    for o in returns(outs):
        evs = [e for e in o.events if e.kind == "joblib.dump"]
        good = len(evs) == 1 and isinstance(evs[0].data[0], ObjV) and evs[0].data[0].path == "self" and evs[0].data[2] == "path"
        found = "; ".join("dump(%s, %s)" % (key_str(val_key(e.data[0]))[:60], e.data[2]) for e in evs)
        ok = ok and good
    ck.ob("W4", sv.qualname, "binary save dumps the object itself to the caller's path", sv.loc(), ok, found=found)
    outs = analyse(repo, ld, io_config())
    ck.analysed["paths"] += len(outs)
    rets = returns(outs)
    ok = bool(rets) and all(isinstance(o.value, Opaque) and o.value.desc == "joblib.load(path)" for o in rets)
    ck.ob("W4", ld.qualname, "binary load returns what joblib loads from the caller's path", ld.loc(), ok,
          found="; ".join(repr(o.value)[:80] for o in rets))


# ----------------------------------------------------------------------------------------------------
# side files of a process model and the fresh directory
# ----------------------------------------------------------------------------------------------------
WRITE_METHODS = ("write_text", "write_bytes", "to_json", "to_pickle", "savetxt", "write", "touch", "rename", "replace", "unlink", "rmdir")


def _mkdirs(o):
    """receiver description -> list of exist_ok values (True / False / None for the default) of the mkdir calls on this path"""
    out = {}
    for e in o.events:
        if e.kind == "opaque-call" and e.data[0].endswith(".mkdir"):
            x = e.data[2].get("exist_ok")
            v = x.b if isinstance(x, BoolV) else (None if x is None else True)
            out.setdefault(e.data[0][:-6], []).append(v)
    return out


def _fresh(values):
    """created here and never accepted if it already existed"""
    return bool(values) and all(v is False or v is None for v in values)


_FRESH_CACHE = {}


def returns_fresh_directory(ck, repo, g: FuncInfo):
    """g returns, on every path, a directory it created itself with exist_ok=False"""
    key = g.module.name + ":" + g.qualname
    if key in _FRESH_CACHE:
        return _FRESH_CACHE[key]
    ck.analysed_function(g)
    outs = analyse(repo, g, io_config())
    ck.analysed["paths"] += len(outs)
    rets = returns(outs)
    ok = bool(rets)
    found = []
    for o in rets:
        rd = o.value.desc if isinstance(o.value, Opaque) else None
        mk = _mkdirs(o).get(rd, [])
        found.append("mkdir(exist_ok=%s)" % mk)
        ok = ok and _fresh(mk)
    _FRESH_CACHE[key] = (ok, "; ".join(found)[:200])
    return _FRESH_CACHE[key]


def check_side_files(ck, repo):
    PM = repo.find_class("ProcessModel")
    sv, ld = PM.methods["save"], PM.methods["load"]
    # W6 / W4: every write of save goes into a directory created with exist_ok=False on this very call (by save itself or by a
    # helper whose result it is, whatever the helper is called); side files agree with the flag
    nwrites = 0
    ngen = 0
    for safe in (True, False):
        label = "is_safe=%s" % safe
        outs = analyse(repo, sv, io_config(), setup=lambda ev, s=safe: {"is_safe": BoolV(s)}, max_paths=2048)
        ck.analysed["paths"] += len(outs)
        rets = returns(outs)
        ck.ob("W4", sv.qualname, "save completes [%s]" % label, sv.loc(), bool(rets))
        for o in rets:
            fresh = {}
            for c in o.calls:
                if not c.inlined and isinstance(c.result, Opaque):
                    okg, fnd = returns_fresh_directory(ck, repo, c.callee)
                    if okg:
                        fresh[c.result.desc] = c.callee.qualname
                    else:
                        fresh.setdefault("!" + c.result.desc, "%s: %s" % (c.callee.qualname, fnd))
            for rd, vals in _mkdirs(o).items():
                if _fresh(vals):
                    fresh[rd] = "mkdir in save"
            good = {d for d in fresh if not d.startswith("!")}
            ngen += len(good)
            prefixes = ["(" + d + " / " for d in good]
            me = o.env.get("self")
            fits = me.fields.get("permeance_fits") if isinstance(me, ObjV) else None
            writes = []   # (kind, where, target description, receiver, extra)
            for e in o.events:
                if e.kind == "to_csv":
                    writes.append(("table", e.where, e.data[2], None))
                elif e.kind == "joblib.dump":
                    writes.append(("joblib.dump", e.where, e.data[2], e.data[0]))
                elif e.kind == "json.dump":
                    writes.append(("json.dump", e.where, e.data[2], e.data[0]))
                elif e.kind == "open" and not e.data[1].startswith("r"):
                    writes.append(("open", e.where, e.data[0], None))
                elif e.kind == "opaque-call" and e.data[0].rsplit(".", 1)[-1] in WRITE_METHODS:
                    writes.append((e.data[0].rsplit(".", 1)[-1], e.where, e.data[0].rsplit(".", 1)[0], None))
            for c in o.calls:
                if c.inlined:
                    continue
                q = c.callee.qualname
                if q.endswith((".save", ".safe_save")) and "path" in c.bound:
                    p = c.bound["path"]
                    writes.append((q, c.where, p.desc if isinstance(p, Opaque) else key_str(val_key(p)), c.bound.get("self")))
            nwrites += len(writes)
            used = set()
            for kind, where, target, recv in writes:
                hit = [p for p in prefixes if target.startswith(p) or target.lstrip("(").startswith(p.lstrip("("))]
                used.update(hit)
                ck.ob("W6", sv.qualname, "write %s goes into the freshly created process directory [%s]" % (kind, label), where, bool(hit),
                      "the target is not below a directory created with exist_ok=False during this call (%s)"
                      % "; ".join(v for k, v in fresh.items() if k.startswith("!"))[:200], found=target[:160])
            ck.ob("W6", sv.qualname, "all files of one save go into one directory [%s]" % label, sv.loc(), len(used) <= 1, found=str(sorted(used))[:200])
            # fits
            fit_writes = [w for w in writes if w[0].startswith("PervaporationFunction.")]
            want = "PervaporationFunction.safe_save" if safe else "PervaporationFunction.save"
            ck.ob("W4", sv.qualname, "both fitted functions are written, with the %s variant [%s]" % ("JSON" if safe else "binary", label), sv.loc(),
                  len(fit_writes) == 2 and all(w[0] == want for w in fit_writes), found="; ".join(w[0] for w in fit_writes))
            seen_idx = set()
            for kind, where, target, recv in fit_writes:
                idx = None
                if isinstance(recv, ObjV) and recv.path is not None:
                    m = re.match(r"^self\.permeance_fits\[(\d)\]$", recv.path)
                    idx = int(m.group(1)) if m else None
                elif isinstance(fits, TupV):
                    for i, x in enumerate(fits.items):
                        if x is recv:
                            idx = i
                ck.ob("W4", sv.qualname, "a written function is one of self.permeance_fits [%s]" % label, where, idx is not None,
                      found=key_str(val_key(recv))[:120] if recv is not None else "?")
                if idx is None:
                    continue
                seen_idx.add(idx)
                comp = "first_component" if idx == 0 else "second_component"
                ck.ob("W4", sv.qualname, "fit %d is written to the file named pervaporation_function_%d_* [%s]" % (idx, idx, label), where,
                      ("pervaporation_function_%d_" % idx) in target, found=target[-120:])
                ck.ob("W4", sv.qualname, "file name of fit %d carries the %s's name [%s]" % (idx, comp.replace("_", " "), label), where,
                      ("self.mixture.%s.name" % comp) in target, found=target[-160:])
            ck.ob("W4", sv.qualname, "fits 0 and 1 are both written [%s]" % label, sv.loc(), seen_idx == {0, 1} or len(fit_writes) != 2)
            # initial conditions
            ic = [w for w in writes if "initial_conditions.ic" in w[2]]
            if safe:
                okic = len(ic) == 1 and ic[0][0] == "Conditions.safe_save" and isinstance(ic[0][3], ObjV) and ic[0][3].path == "self.initial_conditions"
            else:
                okic = len(ic) == 1 and ic[0][0] == "joblib.dump" and key_str(val_key(ic[0][3])).find("self.initial_conditions") >= 0
            ck.ob("W4", sv.qualname, "initial conditions are written to initial_conditions.ic with the %s variant [%s]" % ("JSON" if safe else "binary", label),
                  sv.loc(), okic, found="; ".join("%s -> %s" % (w[0], w[2][-60:]) for w in ic))
    ck.floor("write calls in ProcessModel.save", nwrites, 8)
    ck.floor("fresh directories seen by ProcessModel.save", ngen, 2)


def check_side_file_loading(ck, ld, results):
    for label, o in results:
        safe = "True" in label
        v = o.value
        fits = v.fields.get("permeance_fits")
        if isinstance(fits, MaybeV) or fits is NONE:
            fits = None
        okk = isinstance(fits, TupV) and len(fits.items) == 2
        found = ""
        if okk:
            for i, x in enumerate(fits.items):
                k = value_text(x)
                found += "[%d] %s; " % (i, k[:200])
                want = "PervaporationFunction.safe_load" if safe else "PervaporationFunction.load"
                okk = okk and want + "⟨" in k and ("pervaporation_function_%d" % i) in k and ("pervaporation_function_%d" % (1 - i)) not in k
                if not safe:
                    okk = okk and "safe_load" not in k
        ck.ob("W4", ld.qualname, "permeance_fits = (file pervaporation_function_0*, file pervaporation_function_1*) loaded with the %s variant [%s]"
              % ("JSON" if safe else "binary", label), ld.loc(), okk, found=found[:400])
        ic = v.fields.get("initial_conditions")
        file_there = None
        for c, d in o.trace:
            if "initial_conditions.ic" in full_text(c) and "exists" in full_text(c):
                neg = False
                while isinstance(c, tuple) and c and c[0] == "not":
                    c, neg = c[1], not neg
                file_there = (d != neg)
        if ic is None or ic is NONE or isinstance(ic, NoneV):
            ck.ob("W4", ld.qualname, "stored initial conditions are loaded whenever their file exists [%s]" % label, ld.loc(), file_there is not True,
                  "initial_conditions.ic is there on this path, yet the loaded model has no initial conditions")
            continue   # the path on which no conditions file exists
        k = value_text(ic)
        if safe:
            okic = "Conditions.safe_load⟨" in k and "initial_conditions.ic" in k
        else:
            okic = "joblib.load(" in k and "initial_conditions.ic" in k and "safe_load" not in k
        ck.ob("W4", ld.qualname, "initial conditions are read from initial_conditions.ic with the %s variant [%s]" % ("JSON" if safe else "binary", label),
              ld.loc(), okic, found=k[:200])


def run(ck):
    repo = ck.repo
    ck.explanation = EXPL
    ck.technique = ("normal-form evaluation of the save/load code over a model of pandas/json/joblib/pathlib; writer/reader table extraction "
                    "from the computed values; set/bijection comparison")
    ck.undecided("1e-9 numeric fidelity of CSV / JSON / joblib (library behaviour); the collision rate of the 4-character directory suffix "
                 "(a collision raises FileExistsError because of exist_ok=False, it never overwrites)")
    pm_series = ["feed_temperature", "feed_compositions", "permeate_composition", "permeate_temperature", "permeate_pressure", "feed_mass",
                 "partial_fluxes", "permeances", "time", "feed_evaporation_heat", "permeate_condensation_heat"]
    note = ("one units column is written from the first permeance and applied to both: sound because every permeance of a curve / model "
            "is exposed in kg/(m2 h kPa) (C09-V3, C05-N2, C12-M2)")
    setups = [("is_safe=True", lambda ev: {"is_safe": BoolV(True)}), ("is_safe=False", lambda ev: {"is_safe": BoolV(False)})]
    w, order, fields, results = check_table_pair(ck, repo, "ProcessModel", "save", "load", pm_series, ["membrane_name", "mixture"], note, setups)
    ck.floor("ProcessModel.load result paths", len(results), 2)
    check_side_file_loading(ck, repo.find_function("ProcessModel.load"), results)
    dc_series = ["feed_compositions", "partial_fluxes", "permeances"]
    dc_scalar = ["feed_temperature", "permeate_temperature", "permeate_pressure", "membrane_name", "mixture"]
    w2, order2, fields2, _ = check_table_pair(ck, repo, "DiffusionCurve", "save", "from_frame", dc_series, dc_scalar, note,
                                             [("", lambda ev: {"data": FrameV("read", "csv")})])
    check_set_loader(ck, repo, order2)
    check_json_pair(ck, repo, "PervaporationFunction", {})
    check_json_pair(ck, repo, "Conditions", {"temperature_program": "documented: the temperature programme is not persisted in JSON"})
    check_binary_pair(ck, repo)
    check_side_files(ck, repo)
    ck.exhaustive = True
    ck.assume("pandas / json / joblib round-trip the values they are given")
