"""C11 — scaling with size and the area/time trade-off (kinds T + A)."""
from .. import poly
from ..poly import Rat, subst, key_equiv, map_key, key_str
from ..procmodel import split_models, process_functions, evaluate, PM
from ..values import *
from ..symeval import val_key
from .c01 import num, comp_p, step_params, SERIES_FIELDS
from .c03 import step0

EXPL = ("The scaling laws are decided by substitution on the series models of C01: with lambda a fresh atom, replacing "
        "(area, initial amount, feed_mass[k]) by lambda times themselves must turn every per-step normal form of an extensive "
        "series (feed mass, both heats) into lambda times itself and leave every intensive one (fluxes, compositions, "
        "permeances, temperatures, flux-solver arguments) identical; replacing (area, step length) by (kappa*area, "
        "step/kappa) must leave every per-step state identical when no programme is set. Base case (initial elements) and "
        "inductive step (loop body at symbolic k) together cover every step, size and step length.")

EXTENSIVE = ("feed_mass", "feed_evaporation_heat", "permeate_condensation_heat")
INTENSIVE = ("partial_fluxes", "feed_compositions", "permeate_composition", "permeances", "feed_temperature",
             "permeate_temperature", "permeate_pressure")


def smap(v, f):
    return map_key(val_key(v), f)


def run(ck):
    repo = ck.repo
    ck.explanation = EXPL
    ck.technique = "substitution of scaled atoms into series normal forms; polynomial identities"
    funcs = process_functions(repo)
    ck.floor("process functions", len(funcs), 4)
    from ..purity import purity
    purity(ck, repo, funcs)
    for func in funcs:
        ck.analysed_function(func)
        models = split_models(ck, 'X0', func, evaluate(repo, func, ck.tier))
        ck.floor("evaluated paths of %s" % func.qualname, len(models), 6)
        ck.analysed["paths"] += len(models)
        for pm in models:
            check_model(ck.scoped(pm.path_label), pm)
    ck.exhaustive = True
    ck.assume("the flux solver, permeance, heat and fit functions are uninterpreted functions of their arguments: a scaled "
              "argument changes the atom, an unscaled one does not")


def check_model(ck, pm: PM):
    f = pm.func
    fq = f.qualname
    where = f.loc(pm.loop.node) if pm.loop else f.loc()
    dt, n, err = step_params(pm)
    if err or pm.loop is None:
        ck.ob("X0", fq, "series model available", where, False, err or "no Euler loop")
        return
    A = poly.T.sym(pm.cond + ".membrane_area")
    m0 = poly.T.sym(pm.cond + ".initial_feed_amount")
    ms = pm.series("feed_mass")
    mk = ms.elem_k.r.single_atom() if ms is not None and isinstance(ms.elem_k, Num) else None
    lam = Rat.sym("#lambda", ("nonneg", "pos"))
    kap = Rat.sym("#kappa", ("nonneg", "pos"))
    size = {A.id: lam * Rat.atom(A), m0.id: lam * Rat.atom(m0)}
    if mk is not None:
        size[mk.id] = lam * Rat.atom(mk)
    dta = dt.single_atom()
    trade = {A.id: kap * Rat.atom(A), dta.id: Rat.atom(dta) / kap}
    S = lambda r: subst(r, size)
    Tr = lambda r: subst(r, trade)
    prog_none = pm.out.facts.get(pm.cond + ".temperature_program") in ("none", None)
    for fld in EXTENSIVE + INTENSIVE:
        v = pm.field(fld)
        if not isinstance(v, ListV):
            continue
        elems = []
        if v.kind == "series":
            elems = [("init", e) for e in v.init] + [("step", e) for e in v.per_iter]
        elif v.kind == "rep":
            elems = [("const", v.elem)]
        for kind, e in elems:
            k0 = val_key(e)
            ks = map_key(k0, S)
            if fld in EXTENSIVE:
                want = map_key(k0, lambda r: lam * r)
                ck.ob("X1", fq, "%s (%s element) scales with size" % (fld, kind), where, key_equiv(ks, want),
                      "multiplying area and feed amount by lambda must multiply this series by lambda",
                      expected=lambda: key_str(want)[:300], found=lambda: key_str(ks)[:300], sample=(fld == "feed_mass" and kind == "step"))
            else:
                ck.ob("X1", fq, "%s (%s element) independent of size" % (fld, kind), where, key_equiv(ks, k0),
                      "multiplying area and feed amount by lambda must leave this series unchanged",
                      expected=lambda: key_str(k0)[:300], found=lambda: key_str(ks)[:300])
            if prog_none and kind != "init":
                kt = map_key(k0, Tr)
                ck.ob("X2", fq, "%s (%s element) invariant under area*k, step/k" % (fld, kind), where, key_equiv(kt, k0),
                      "area and step length may enter per-step state only through their product",
                      expected=lambda: key_str(k0)[:300], found=lambda: key_str(kt)[:300])
    # X4 which branch a step takes may not depend on the size of the run: every numeric decision of the path must keep its
    # truth value when area and amount are multiplied by lambda (its two sides scale by one common positive factor)
    for c, d in pm.out.trace:
        neg = False
        while isinstance(c, tuple) and c and c[0] == "not":
            c, neg = c[1], not neg
        if not (isinstance(c, tuple) and len(c) == 3 and c[0] in ("lt", "le", "gt", "ge", "eq", "ne") and isinstance(c[1], Rat) and isinstance(c[2], Rat)):
            continue
        diff = c[1] - c[2]
        sd = S(diff)
        if sd == diff:
            continue
        ok = False
        for mu in (lam, lam * lam):
            if sd == mu * diff:
                ok = True
        ck.ob("X4", fq, "step decision %s %s %s does not depend on the size of the run" % (str(c[1])[:40], c[0], str(c[2])[:40]), where, ok,
              "a test that compares a size-dependent quantity with a fixed threshold takes different branches for a run and its scaled twin",
              expected=lambda: "lambda^n * (%s)" % str(diff)[:200], found=lambda: str(sd)[:200])
        if prog_none:
            td = Tr(diff)
            okt = td == diff or td == kap * diff or td * kap == diff
            ck.ob("X4", fq, "step decision %s %s %s is invariant under area*k, step/k" % (str(c[1])[:40], c[0], str(c[2])[:40]), where, okt,
                  expected=lambda: str(diff)[:200], found=lambda: str(td)[:200])
    # X3 step-0 flux arguments
    s0 = step0(pm)
    bad = {A.id: "membrane area", m0.id: "feed amount", dta.id: "step length"}
    for c in pm.solver_calls():
        for p, v in c.bound.items():
            if p == "self":
                continue
            k0 = map_key(val_key(v), s0)
            deps = poly.key_deps(k0)
            hit = [nm for i, nm in bad.items() if i in deps]
            ck.ob("X3", fq, "step-0 flux argument %s free of area, amount and step length" % p, c.where, not hit,
                  "depends on " + ", ".join(hit), found=lambda: key_str(k0)[:200])
