"""C01 — mass conservation and the time grid of the four process models (kinds S + A)."""
from .. import poly
from ..poly import Rat, key_str
from ..procmodel import process_functions, evaluate, PM, param_of_type
from ..values import *
from ..repo import AnalysisError

EXPL = ("Each method whose return constructs a ProcessModel is evaluated once per combination of the finite modes "
        "that change its code shape (input basis x permeate mode x programme x initial permeances x one/many curves), "
        "with the Euler loop body applied once at a symbolic step k (inductive step, no unrolling). Every list handed to "
        "ProcessModel is a series (initial elements, one appended element per step as a closed normal form over the step-k "
        "state, trailing pops). The obligations G1-G8 compare those normal forms with the property's own balance "
        "equations as polynomial identities; mixtures, models, areas, amounts, step sizes and counts occur only as atoms, "
        "so each verdict covers all of them.")

SERIES_FIELDS = ["feed_temperature", "feed_compositions", "permeate_composition", "permeate_temperature",
                 "permeate_pressure", "feed_mass", "partial_fluxes", "permeances", "time", "feed_evaporation_heat",
                 "permeate_condensation_heat"]


def num(v):
    return v.r if isinstance(v, Num) else None


def comp_p(ev_obj):
    """p of a Composition value (constructed or opaque)."""
    if isinstance(ev_obj, ObjV) and ev_obj.cls.name == "Composition":
        if "p" in ev_obj.fields and isinstance(ev_obj.fields["p"], Num):
            return ev_obj.fields["p"].r
        if ev_obj.path is not None:
            return Rat.sym(ev_obj.path + ".p", ("nonneg", "comp_p"))
    return None


def comp_type(pm, obj):
    if isinstance(obj, ObjV) and obj.cls.name == "Composition":
        t = obj.fields.get("type")
        if isinstance(t, StrV) and t.s is not None:
            return t.s
        if obj.path is not None:
            f = pm.out.facts.get(obj.path + ".type")
            if isinstance(f, tuple) and f[0] == "str":
                return f[1]
    return None


def step_params(pm: PM):
    """(dt, n) discovered from the `time` field: time[k] = k*dt, len = n, both single parameter atoms."""
    t = famify(pm.field("time"))
    if not (isinstance(t, ListV) and t.kind == "fam" and isinstance(t.elem, Num)):
        return None, None, "time is not a comprehension over the step index"
    idx = Rat.atom(t.idx)
    dt = t.elem.r / idx
    if t.idx.id in dt.deps():
        return None, None, "time[k] is not proportional to k: %s" % t.elem.r
    if not t.lo.is_zero():
        return None, None, "time grid does not start at step 0"
    n = t.hi
    params = set(pm.func.params)
    a, b = dt.single_atom(), n.single_atom()
    if a is None or a.name not in params or b is None or b.name not in params:
        return None, None, "step length / step count are not plain parameters: dt=%s n=%s" % (dt, n)
    return dt, n, None


def run(ck):
    repo = ck.repo
    ck.explanation = EXPL
    ck.technique = "series model of explicit-Euler loops (inductive step) + polynomial identities on normal forms"
    ck.undecided("that no exception interrupts a run (C18/C19); floating-point rounding (identities are over the reals)")
    funcs = process_functions(repo)
    ck.floor("process functions (methods returning ProcessModel)", len(funcs), 4)
    from ..purity import purity
    purity(ck, repo, funcs)
    total_paths = 0
    for func in funcs:
        ck.analysed_function(func)
        models = evaluate(repo, func, ck.tier)
        n_models = 0
        for pm in models:
            if not isinstance(pm, PM):
                label, meta, o = pm
                ck.ob("G0", func.qualname, "run completes [%s]" % label, o.exc.where or func.loc(), False,
                      "the model raises %s on this admissible configuration: %s" % (o.exc.exc_type, o.exc.msg))
                continue
            n_models += 1
            total_paths += 1
            check_model(ck, pm)
        ck.analysed["configs"] += n_models
        ck.floor("evaluated paths of %s" % func.qualname, n_models, 6)
    ck.analysed["paths"] = total_paths
    ck.exhaustive = True
    ck.assume("the Euler loop executes at least once (step count >= 1)")
    ck.assume("the flux solver is an uninterpreted function of its arguments (its own law is C02)")


def check_model(ck, pm: PM):
    f = pm.func
    fq = f.qualname
    tag = ""
    ck = ck.scoped(pm.path_label)
    where = f.loc(pm.loop.node) if pm.loop else f.loc()
    # G1 time grid
    dt, n, err = step_params(pm)
    ck.ob("G1", fq, "time[k] = k * step length, len = step count" + tag, where, err is None, err or "",
          found=repr(pm.field("time"))[:200] if err else None)
    if err:
        return
    # G3 loop runs n times
    if pm.loop is None:
        ck.ob("G3", fq, "Euler loop" + tag, f.loc(), False, "no loop appending to the returned series was found")
        return
    ck.ob("G3", fq, "loop trip count == step count" + tag, where, pm.loop.n == n and pm.loop.lo.is_zero(),
          expected=lambda: str(n), found=lambda: str(pm.loop.n))
    A = pm.cond_field("membrane_area")
    # G2 initial state
    m = pm.series("feed_mass")
    x = pm.series("feed_compositions")
    J = pm.series("partial_fluxes")
    if m is None or x is None or J is None:
        ck.ob("G4", fq, "feed_mass / feed_compositions / partial_fluxes are step series" + tag, where, False,
              "found %r / %r / %r" % (type(pm.field("feed_mass")).__name__, type(pm.field("feed_compositions")).__name__,
                                      type(pm.field("partial_fluxes")).__name__))
        return
    ck.ob("G2", fq, "feed_mass[0] == initial feed amount" + tag, where,
          len(m.init) == 1 and num(m.init[0]) is not None and num(m.init[0]) == pm.cond_field("initial_feed_amount"),
          expected=lambda: str(pm.cond_field("initial_feed_amount")), found=repr(m.init))
    x0 = x.init[0] if len(x.init) == 1 else None
    p0 = Rat.sym(pm.cond + ".initial_feed_composition.p", ("nonneg", "comp_p"))
    M1 = Rat.sym("self.mixture.first_component.molecular_weight", ("nonneg", "pos"))
    M2 = Rat.sym("self.mixture.second_component.molecular_weight", ("nonneg", "pos"))
    want = p0 if pm.meta["basis"] == "weight" else (M1 * p0) / (M1 * p0 + M2 * (1 - p0))
    got = comp_p(x0)
    ck.ob("G2", fq, "feed_compositions[0] == initial composition as mass fraction" + tag, where,
          got is not None and got == want and comp_type(pm, x0) == "weight",
          expected="%s (weight)" % want, found="%s (%s)" % (got, comp_type(pm, x0)))
    T = pm.field("feed_temperature")
    T0 = pm.cond_field("initial_feed_temperature")
    if isinstance(T, ListV) and T.kind == "rep":
        okT = num(T.elem) is not None and num(T.elem) == T0 and T.n == n
    elif isinstance(T, ListV) and T.kind == "series":
        okT = len(T.init) == 1 and num(T.init[0]) is not None and num(T.init[0]) == T0
    else:
        okT = False
    ck.ob("G2", fq, "feed_temperature[0] == initial feed temperature" + tag, where, okT, expected=lambda: str(T0), found=repr(T)[:160])
    # G4 / G7 append-once, pops, lengths
    for fld in SERIES_FIELDS:
        v = pm.field(fld)
        if isinstance(v, ListV) and v.kind == "series":
            ck.ob("G4", fq, "%s grows by exactly one element per step" % fld + tag, where, len(v.per_iter) == 1,
                  "appended %d times in one iteration on this path" % len(v.per_iter))
            ck.ob("G7", fq, "%s look-ahead element popped" % fld + tag, where, v.popped == len(v.init),
                  "%d initial element(s), %d pop(s)" % (len(v.init), v.popped))
        L = pm.length(fld)
        ck.ob("G7", fq, "len(%s) == step count" % fld + tag, where, L is not None and L == n, expected=lambda: str(n),
              found=lambda: str(L) if L is not None else repr(v)[:120])
    for s in pm.loop.series.values():
        bound = any(pm.field(fld) is s for fld in SERIES_FIELDS)
        if not bound and s.popped:
            ck.ob("G7", fq, "pop of a list that is not reported (%s)" % s.name + tag, where, True)
    # G5 mass recurrence
    if len(m.per_iter) != 1 or len(J.per_iter) != 1 or len(x.per_iter) != 1:
        return
    Jk = J.per_iter[0]
    if not (isinstance(Jk, TupV) and len(Jk.items) == 2 and all(isinstance(i, Num) for i in Jk.items)):
        ck.ob("G5", fq, "partial_fluxes element is a pair of numbers" + tag, where, False, found=repr(Jk)[:200])
        return
    j0, j1 = Jk.items[0].r, Jk.items[1].r
    mk = num(m.elem_k) if m.elem_k is not None else None
    m1 = num(m.per_iter[0])
    if mk is None or m1 is None:
        ck.ob("G5", fq, "mass update reads the current mass" + tag, where, False,
              "feed_mass[k+1] does not depend on feed_mass[k]: %s" % (m.per_iter[0],))
        return
    want = mk - (j0 + j1) * A * dt
    ck.ob("G5", fq, "feed_mass[k+1] == feed_mass[k] - (J1+J2)*A*dt" + tag, where, m1 == want, expected=lambda: str(want)[:400],
          found=lambda: str(m1)[:400], sample=True)
    # G6 component recurrence
    xk = comp_p(x.elem_k) if x.elem_k is not None else None
    x1 = comp_p(x.per_iter[0])
    if xk is None or x1 is None:
        ck.ob("G6", fq, "composition update reads the current composition" + tag, where, False, found=repr(x.per_iter[0])[:300])
        return
    lhs = x1 * m1
    rhs = xk * mk - j0 * A * dt
    ck.ob("G6", fq, "x[k+1]*m[k+1] == x[k]*m[k] - J1*A*dt" + tag, where, lhs == rhs, expected=lambda: str(rhs)[:400], found=lambda: str(lhs)[:400])
    ck.ob("G6", fq, "reported feed compositions are mass fractions" + tag, where,
          comp_type(pm, x.per_iter[0]) == "weight" and comp_type(pm, x.elem_k) == "weight",
          found="%s / %s" % (comp_type(pm, x.elem_k), comp_type(pm, x.per_iter[0])))
    # G8 observation points: fluxes reported are the ones used in the balance (by construction of the check) and
    # permeate conditions are constant series of the conditions' fields
    for fld, cf in (("permeate_temperature", "permeate_temperature"), ("permeate_pressure", "permeate_pressure")):
        v = pm.field(fld)
        ok = isinstance(v, ListV) and v.kind == "rep" and v.n == n
        if ok:
            e = v.elem
            fact = pm.out.facts.get("%s.%s" % (pm.cond, cf))
            if fact == "none":
                ok = e is NONE or isinstance(e, NoneV)
            else:
                ok = isinstance(e, Num) and e.r == pm.cond_field(cf)
        ck.ob("G8", fq, "%s is the constant series of the conditions' value" % fld + tag, where, ok, found=repr(v)[:160])
