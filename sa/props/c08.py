"""C08 — all entry points answer the same question identically, incl. the activity-model choice (kinds S + A)."""
import ast

from .. import poly
from ..poly import Rat, key_equiv, key_str
from ..evaluator import analyse
from ..procmodel import (split_models, make_config, permeance_summary, process_functions, evaluate, PM, param_of_type, is_non_ideal)
from ..symeval import val_key
from ..values import *
from ..symeval import called_from
from ..repo import AnalysisError, FuncInfo, ClassInfo, parse_type
from .c01 import comp_p, comp_type, num
from .c05 import curve_configs, INL as FIT_INL, fit_summary

EXPL = ("Every call site on the configuration path (entry points -> flux solver -> driving force -> partial pressures -> activity "
        "model) is bound exactly as CPython binds it, from the evaluator's call records under all permeate modes; for each "
        "configuration parameter of the callee (activity model, precision, permeate temperature, permeate pressure) the bound value "
        "must be the caller's own value of that meaning and must not be left to the default (must-forward), and every bound value "
        "must fit the parameter's annotation (binding sanity: catches positional slips). Reported permeate compositions and "
        "separation factors are compared with their definitions as identities on normal forms; each process step's flux call must "
        "receive the step-k elements of the very series that are returned.")

CONFIG = ("calculation_type", "precision", "permeate_temperature", "permeate_pressure")
SINKS = {"Pervaporation.calculate_partial_fluxes", "Pervaporation.get_partial_fluxes_from_permeate_composition",
         "get_partial_pressures", "calculate_activity_coefficients", "Pervaporation.calculate_permeate_composition"}
MODES = {"vac": ("none", "none"), "T": ("notnone", "none"), "p": ("none", "notnone")}


def fits_annotation(repo, callee, p, v) -> bool:
    ann = callee.annotations.get(p) if isinstance(callee, FuncInfo) else None
    ty = parse_type(repo, callee.module, ann, callee.cls).strip_opt() if ann is not None else None
    if ty is None or ty.kind == "any":
        return True
    if isinstance(v, (NoneV, MaybeV, Opaque)):
        return True
    if ty.kind == "cls":
        def is_a(c, want, depth=0):
            return c.name == want or (depth < 8 and any(is_a(b, want, depth + 1) for b in getattr(c, "base_classes", [])))
        return isinstance(v, ObjV) and is_a(v.cls, ty.cls.name)
    if ty.kind in ("float", "int"):
        return isinstance(v, (Num, BoolV))
    if ty.kind == "str":
        return isinstance(v, StrV)
    if ty.kind == "list":
        return isinstance(v, (ListV, TupV, ObjV))
    if ty.kind == "tuple":
        return isinstance(v, (TupV, ListV))
    return True


def own_value(repo, caller: FuncInfo, q: str, facts, ev_env):
    """The caller's own value of configuration meaning q: parameter q, or field q of a Conditions-typed parameter,
    or field q of self."""
    if q in caller.params:
        return ("param", q)
    cond = param_of_type(repo, caller, "Conditions")
    if cond is not None:
        C = repo.find_class("Conditions")
        if C.field(q) is not None:
            return ("field", "%s.%s" % (cond, q))
    if caller.cls is not None and caller.cls.field(q) is not None and not caller.is_classmethod:
        return ("field", "self.%s" % q)
    return None


def key_is_path(k, path) -> bool:
    if isinstance(k, Rat):
        a = k.single_atom()
        return a is not None and a.kind == "sym" and a.name == path
    if isinstance(k, tuple) and k and k[0] in ("str?", "maybe", "obj", "list", "bool?"):
        if k[0] == "bool?":
            return isinstance(k[1], tuple) and k[1][-1] == path
        return k[-1] == path
    return False


def check_calls(ck, repo, func, outs, label):
    n = 0
    for o in outs:
        for c in o.calls:
            if not isinstance(c.callee, FuncInfo) or c.caller is None or not called_from(c, func):
                continue
            callee = c.callee
            # F2 binding sanity on every resolved repository call
            for p, v in c.bound.items():
                if p == "self":
                    continue
                ck.ob("F2", func.qualname, "call of %s: value bound to %s fits its annotation" % (callee.qualname, p), c.where,
                      fits_annotation(repo, callee, p, v),
                      "an argument landed on a parameter of another kind (positional slip?)", found=repr(v)[:120], config=label)
            if callee.qualname not in SINKS:
                continue
            n += 1
            for q in CONFIG:
                if q not in callee.params:
                    continue
                src = own_value(repo, func, q, o.facts, None)
                if src is None:
                    if q in getattr(c, "defaulted", set()) and func.cls is not None and func.cls.name != "Pervaporation":
                        ck.ob("F3", func.qualname, "call of %s leaves %s to its default and %s has nothing to carry the caller's choice" %
                              (callee.qualname, q, func.cls.name if func.cls else func.qualname), c.where, False,
                              "an entry point that lets the user choose %s reaches this call through an object that cannot carry the choice" % q,
                              config=label)
                    continue
                path = src[1]
                fact = o.facts.get(path)
                v = c.bound.get(q)
                if q in getattr(c, "defaulted", set()) and fact == "none" and isinstance(callee.defaults.get(q), ast.Constant) \
                        and callee.defaults[q].value is None:
                    ck.ob("F1", func.qualname, "call of %s forwards the caller's %s" % (callee.qualname, q), c.where, True)
                    continue
                if q in getattr(c, "defaulted", set()):
                    ck.ob("F1", func.qualname, "call of %s forwards the caller's %s" % (callee.qualname, q), c.where, False,
                          "%s is left to the callee's default although the caller has its own %s" % (q, path), config=label)
                    continue
                if fact == "none":
                    okv = isinstance(v, NoneV)
                else:
                    okv = key_is_path(val_key(v), path)
                ck.ob("F1", func.qualname, "call of %s forwards the caller's %s" % (callee.qualname, q), c.where, okv,
                      expected=path, found=lambda: key_str(val_key(v))[:200], config=label)
    return n


def run(ck):
    repo = ck.repo
    ck.explanation = EXPL
    ck.technique = "CPython-exact argument binding on evaluator call records; must-forward; normal-form identities for derived quantities"
    n_sites = 0
    # --- simple entry points (evaluated with callees uninterpreted) ---------------------------------------------
    simple = ["Pervaporation.calculate_permeate_composition", "Pervaporation.calculate_separation_factor",
              "Pervaporation.ideal_diffusion_curve", "Pervaporation.calculate_partial_fluxes",
              "Pervaporation.get_partial_fluxes_from_permeate_composition", "get_partial_pressures"]
    results = {}
    for name in simple:
        f = repo.find_function(name)
        ck.analysed_function(f)
        for mode, (ft, fp) in MODES.items():
            for basis in ("weight", "molar"):
                facts = {"permeate_temperature": ft, "permeate_pressure": fp, "calculation_type": "notnone", "precision": "notnone",
                         "first_component_permeance": "notnone", "second_component_permeance": "notnone",
                         "composition.type": ("str", basis), "feed_composition.type": ("str", basis), "permeate_composition.type": ("str", "weight")}
                cfg = make_config(facts, ret_summary=permeance_summary)
                outs = analyse(repo, f, cfg)
                ck.analysed["paths"] += len(outs)
                label = "mode=%s basis=%s" % (mode, basis)
                n_sites += check_calls(ck, repo, f, outs, label)
                results[(name, mode, basis)] = outs
    # F4 / F5 on helpers
    for (name, mode, basis), outs in results.items():
        f = repo.find_function(name)
        label = "mode=%s basis=%s" % (mode, basis)
        for o in outs:
            if o.kind != "return":
                continue
            if name.endswith("calculate_permeate_composition"):
                recs = [c for c in o.calls if isinstance(c.callee, FuncInfo) and c.callee.qualname == "Pervaporation.calculate_partial_fluxes"]
                p = comp_p(o.value)
                ok = False
                if len(recs) == 1 and isinstance(recs[0].result, TupV) and p is not None:
                    j0, j1 = recs[0].result.items[0].r, recs[0].result.items[1].r
                    ok = p == j0 / (j0 + j1)
                ck.ob("F4", name, "permeate composition == flux1 / (flux1 + flux2) of the solver's fluxes, as a mass fraction", f.loc(),
                      ok and isinstance(o.value, ObjV) and isinstance(o.value.fields.get("type"), StrV) and o.value.fields["type"].s == "weight",
                      found=repr(o.value)[:300], config=label)
            if name.endswith("calculate_separation_factor"):
                recs = [c for c in o.calls if isinstance(c.callee, FuncInfo) and c.callee.qualname == "Pervaporation.calculate_permeate_composition"]
                ok = False
                want = None
                if len(recs) == 1 and isinstance(o.value, Num):
                    y = comp_p(recs[0].result)
                    x = Rat.sym("composition.p", ("nonneg", "comp_p"))
                    if basis == "molar":
                        M1 = Rat.sym("self.mixture.first_component.molecular_weight", ("nonneg", "pos"))
                        M2 = Rat.sym("self.mixture.second_component.molecular_weight", ("nonneg", "pos"))
                        x = M1 * x / (M1 * x + M2 * (1 - x))
                    if y is not None:
                        want = (y / (1 - y)) / (x / (1 - x))
                        ok = o.value.r == want
                ck.ob("F5", name, "separation factor == (y1/y2)/(x1/x2) with feed and permeate in one basis (mass fractions)", f.loc(), ok,
                      "the permeate composition is a mass fraction, so the feed composition must be converted to mass fractions",
                      expected=lambda: str(want), found=lambda: str(o.value.r) if isinstance(o.value, Num) else repr(o.value), config=label)
    # --- process models ---------------------------------------------------------------------------------------------
    for func in process_functions(repo):
        ck.analysed_function(func)
        models = split_models(ck, 'F0', func, evaluate(repo, func, ck.tier))
        ck.analysed["paths"] += len(models)
        for pm in models:
            sck = ck.scoped(pm.path_label)
            n_sites += check_calls(ck, repo, func, [pm.out], pm.path_label)
            check_step(sck, pm)
    # --- non-ideal curve ------------------------------------------------------------------------------------------------
    f = repo.find_function("Pervaporation.non_ideal_diffusion_curve")
    ck.analysed_function(f)
    for label, facts, meta in curve_configs(repo, f):
        outs = analyse(repo, f, make_config(facts, extra_inline=FIT_INL, ret_summary=fit_summary), max_paths=2048)
        ck.analysed["paths"] += len(outs)
        n_sites += check_calls(ck, repo, f, outs, label)
    # F7: a curve generator hands back a curve that carries the very conditions its fluxes were computed for (the curve object
    # inverts fluxes to permeances under ITS OWN permeate condition: a condition that is not forwarded is silently vacuum)
    from ..oracle import Oracle

    def carries_conditions(fname, outs, cfg, label):
        fn = repo.find_function(fname)
        for o in outs:
            if o.kind != "return" or not (isinstance(o.value, ObjV) and o.value.cls.name == "DiffusionCurve"):
                continue
            orc = Oracle(repo, fn, cfg, dict(o.facts))
            for fld, src in (("permeate_temperature", "permeate_temperature"), ("permeate_pressure", "permeate_pressure"),
                             ("feed_temperature", "feed_temperature"), ("mixture", "self.mixture")):
                got = o.value.fields.get(fld)
                try:
                    want = orc.eval(src)
                    okc = got is not None and key_equiv(val_key(got), val_key(want))
                except Exception:
                    okc = False
                ck.ob("F7", fname, "the returned curve carries the caller's %s" % fld, fn.loc(), okc,
                      "the curve object derives permeances from fluxes under its own stored condition; a condition that is not handed over is vacuum / default",
                      found=repr(got)[:100], config=label)
            fl = o.value.fields.get("partial_fluxes")
            ck.ob("F7", fname, "the returned curve is given the fluxes the solver computed (it would otherwise rebuild them for vacuum)", fn.loc(),
                  fl is not None and fl is not NONE and not isinstance(fl, NoneV), found=repr(fl)[:80], config=label)
    for (name, mode, basis), outs in results.items():
        if name == "Pervaporation.ideal_diffusion_curve" and mode != "both":
            ft, fp = MODES[mode]
            facts = {"permeate_temperature": ft, "permeate_pressure": fp, "calculation_type": "notnone", "precision": "notnone",
                     "composition.type": ("str", basis)}
            carries_conditions(name, outs, make_config(facts, ret_summary=permeance_summary), "mode=%s basis=%s" % (mode, basis))
    fnc = repo.find_function("Pervaporation.non_ideal_diffusion_curve")
    for label, facts, meta in curve_configs(repo, fnc):
        cfgc = make_config(facts, extra_inline=FIT_INL, ret_summary=fit_summary)
        carries_conditions("Pervaporation.non_ideal_diffusion_curve", analyse(repo, fnc, cfgc, max_paths=2048), cfgc, label)
    # --- curve object ---------------------------------------------------------------------------------------------------------
    DC = repo.find_class("DiffusionCurve")
    for mname in ("__attrs_post_init__", "get_permeances"):
        m = DC.methods.get(mname)
        if m is None:
            continue
        ck.analysed_function(m)
        for mode, (ft, fp) in MODES.items():
            for fl, pe in (("notnone", "none"), ("none", "notnone")):
                facts = {"self.partial_fluxes": fl, "self.permeances": pe, "self.permeate_temperature": ft, "self.permeate_pressure": fp,
                         "self.feed_compositions[#b0].type": ("str", "weight"), "calculation_type": "notnone"}
                cfg = make_config(facts, extra_inline=("DiffusionCurve.permeate_composition",))
                cfg.str_domains["*.units"] = ("kg/(m2*h*kPa)",)
                outs = analyse(repo, m, cfg)
                ck.analysed["paths"] += len(outs)
                n_sites += check_calls(ck, repo, m, outs, "mode=%s fluxes %s" % (mode, "given" if fl == "notnone" else "None"))
    # F4/F5 on curve and process metrics
    check_metrics(ck, repo)
    # F2 package-wide: name coherence of positional arguments at every resolved call site
    name_coherence(ck, repo)
    ck.analysed["call_sites"] = n_sites
    from ..purity import purity
    purity(ck, repo, [repo.find_function(x) for x in simple] + process_functions(repo) + [repo.find_function("Pervaporation.non_ideal_diffusion_curve"),
                                                                                       repo.find_function("DiffusionCurve.__attrs_post_init__")])
    ck.floor("call sites on the configuration path", n_sites, 40)
    ck.exhaustive = True
    ck.assume("the solver is a function of its bound arguments only (purity: C20), so equal bindings give equal fluxes at every entry point")


def check_step(ck, pm: PM):
    f = pm.func
    fq = f.qualname
    calls = pm.solver_calls()
    where = f.loc(pm.loop.node) if pm.loop else f.loc()
    ck.ob("F6", fq, "exactly one flux calculation per step", where, len(calls) == 1, "found %d" % len(calls))
    if len(calls) != 1:
        return
    c = calls[0]
    J = pm.series("partial_fluxes")
    ck.ob("F6", fq, "the reported fluxes of step k are the result of that step's flux calculation", c.where,
          J is not None and len(J.per_iter) == 1 and (J.per_iter[0] is c.result or poly.key_equiv(val_key(J.per_iter[0]), val_key(c.result))), found=repr(J.per_iter[0])[:200] if J is not None and J.per_iter else None)
    Tk = pm.elem_k("feed_temperature")
    ft = c.bound.get("feed_temperature")
    ck.ob("F6", fq, "flux call of step k uses the reported feed temperature of step k", c.where,
          isinstance(ft, Num) and isinstance(Tk, Num) and ft.r == Tk.r, expected=repr(Tk), found=repr(ft))
    xk = pm.elem_k("feed_compositions")
    xc = c.bound.get("composition")
    ck.ob("F6", fq, "flux call of step k uses the reported feed composition of step k", c.where, xc is xk and xk is not None,
          expected=repr(xk), found=repr(xc))
    Pk = pm.elem_k("permeances")
    for i, p in enumerate(("first_component_permeance", "second_component_permeance")):
        a = c.bound.get(p)
        want = Pk.items[i] if isinstance(Pk, TupV) and len(Pk.items) == 2 else None
        ok = want is not None and (a is want or key_equiv(val_key(a), val_key(want)))
        ck.ob("F6", fq, "flux call of step k uses the reported permeance %d of step k" % (i + 1), c.where, ok, expected=repr(want)[:200], found=repr(a)[:200])
    # the separation factor of a process model divides reported permeate by reported feed fractions: both must be mass fractions
    X = pm.series("feed_compositions")
    if X is not None:
        elems = list(X.init) + list(X.per_iter)
        ck.ob("F5", fq, "reported feed compositions are mass fractions (the basis of the reported permeate compositions)", where,
              bool(elems) and all(comp_type(pm, e) == "weight" for e in elems),
              found=", ".join(str(comp_type(pm, e)) for e in elems))
    # F4 on the reported permeate composition
    Y = pm.series("permeate_composition")
    if J is not None and Y is not None and len(Y.per_iter) == 1 and isinstance(J.per_iter[0], TupV):
        j0, j1 = J.per_iter[0].items[0].r, J.per_iter[0].items[1].r
        p = comp_p(Y.per_iter[0])
        ck.ob("F4", fq, "reported permeate composition == flux1/(flux1+flux2) of the reported fluxes, as a mass fraction", where,
              p is not None and p == j0 / (j0 + j1) and comp_type(pm, Y.per_iter[0]) == "weight", found=repr(Y.per_iter[0])[:300])


def check_metrics(ck, repo):
    for cls_name in ("DiffusionCurve", "ProcessModel"):
        C = repo.find_class(cls_name)
        f = C.methods.get("get_separation_factor")
        if f is None:
            raise AnalysisError("%s.get_separation_factor not found" % cls_name)
        ck.analysed_function(f)
        for basis in ("weight", "molar"):
            facts = {"self.partial_fluxes": "notnone", "self.feed_compositions[#b0].type": ("str", basis),
                     "self.permeate_composition[#b0].type": ("str", "weight")}
            outs = analyse(repo, f, make_config(facts, extra_inline=("DiffusionCurve.permeate_composition",)))
            ck.analysed["paths"] += len(outs)
            for o in outs:
                ok = False
                want = None
                if o.kind == "return":
                    o.value = famify(o.value)
                if o.kind == "return" and isinstance(o.value, ListV) and o.value.kind == "fam" and isinstance(o.value.elem, Num):
                    x = Rat.sym("self.feed_compositions[#b0].p", ("nonneg", "comp_p"))
                    if basis == "molar":
                        M1 = Rat.sym("self.mixture.first_component.molecular_weight", ("nonneg", "pos"))
                        M2 = Rat.sym("self.mixture.second_component.molecular_weight", ("nonneg", "pos"))
                        x = M1 * x / (M1 * x + M2 * (1 - x))
                    if cls_name == "DiffusionCurve":
                        j0, j1 = Rat.sym("self.partial_fluxes[#b0][0]"), Rat.sym("self.partial_fluxes[#b0][1]")
                        y = j0 / (j0 + j1)
                    else:
                        y = Rat.sym("self.permeate_composition[#b0].p", ("nonneg", "comp_p"))
                    want = (y / (1 - y)) / (x / (1 - x))
                    ok = o.value.elem.r == want
                if cls_name == "ProcessModel" and basis == "molar":
                    continue  # process models always report mass fractions (C01-G6, C07-B5)
                ck.ob("F5", f.qualname, "separation factor == (y1/y2)/(x1/x2) in mass fractions", f.loc(), ok,
                      expected=lambda: str(want), found=lambda: repr(o.value)[:300] if o.kind == "return" else "raises", config="feed basis=%s" % basis)
    f = repo.find_function("DiffusionCurve.permeate_composition")
    ck.analysed_function(f)
    outs = analyse(repo, f, make_config({"self.partial_fluxes": "notnone"}))
    for o in outs:
        ok = False
        if o.kind == "return":
            o.value = famify(o.value)
        if o.kind == "return" and isinstance(o.value, ListV) and o.value.kind == "fam":
            p = comp_p(o.value.elem)
            j0, j1 = Rat.sym("self.partial_fluxes[#b0][0]"), Rat.sym("self.partial_fluxes[#b0][1]")
            t = o.value.elem.fields.get("type") if isinstance(o.value.elem, ObjV) else None
            ok = p is not None and p == j0 / (j0 + j1) and isinstance(t, StrV) and t.s == "weight"
        ck.ob("F4", f.qualname, "curve permeate composition == flux1/(flux1+flux2), as a mass fraction", f.loc(), ok)



def name_coherence(ck, repo):
    """A positional argument that is a bare name equal to a parameter name of the (uniquely resolved) callee must land on
    that parameter; and no positional argument may land on a parameter whose name is another argument's keyword."""
    from ..callgraph import CallGraph, fkey
    from ..structural import type_env
    n_sites = 0
    for f in repo.all_functions():
        env = type_env(repo, f)
        for n in ast.walk(f.node):
            if not isinstance(n, ast.Call) or not n.args:
                continue
            c = env.resolve_callee(n)
            params = None
            cname = None
            if isinstance(c, FuncInfo):
                params = list(c.params)
                cname = c.qualname
                if c.cls is not None and not c.is_staticmethod and params:
                    # bound call (obj.m(...) / cls.m(...)): self/cls is not passed positionally
                    if isinstance(n.func, ast.Attribute):
                        recv_t = env.type_of(n.func.value)
                        if not (recv_t.kind == "type" and not c.is_classmethod):
                            params = params[1:]
                    else:
                        params = params[1:]
            elif isinstance(c, ClassInfo) and c.is_attrs:
                params = [fl.name for fl in c.fields]
                cname = c.name
            if not params:
                continue
            n_sites += 1
            for i, a in enumerate(n.args):
                if isinstance(a, ast.Starred) or i >= len(params):
                    break
                if isinstance(a, ast.Name) and a.id in params and params[i] != a.id:
                    ck.ob("F2", f.qualname, "positional argument %r of the call of %s lands on the parameter of that name" % (a.id, cname),
                          f.loc(n), False, "it is bound to parameter %r (position %d); the callee also has a parameter %r" % (params[i], i + 1, a.id))
    ck.ob("F2", "package", "name coherence of positional arguments at every resolved call site", "pyvaporation/", True,
          "%d call sites with positional arguments checked" % n_sites)
    ck.floor("call sites with positional arguments", n_sites, 100)
