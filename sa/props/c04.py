"""C04 — thermodynamic consistency of the activity-coefficient models (kinds T + A)."""
from .. import poly
from ..poly import Rat, mk_log, diff, subst
from ..activity import gammas, ARMS, ACT, GPP, arm_facts
from ..evaluator import analyse
from ..procmodel import make_config, oracle
from ..sigma import Sigma
from ..values import *
from ..repo import AnalysisError

EXPL = ("Both arms of calculate_activity_coefficients are normalised to closed forms ln(gamma_i) over the model parameters, "
        "the temperature and the mole fraction as atoms. Decided as exact identities on those forms: the Gibbs-Duhem relation "
        "(syntactic derivative with respect to the mole fraction; all logarithms occur with constant coefficients, so the "
        "derivative is a rational function), the pure-component limits (substitution x_j = 0), the Raoult limit of NRTL "
        "(substitution of vanishing interaction parameters), the form "
        "p_i = x_i*gamma_i*Psat_i of the partial pressures and their independence of the input basis (substitution of the "
        "mole fraction by the converted mass fraction).")


def addends(g: Rat):
    a = g.single_atom()
    if a is not None and a.kind == "fn" and a.name == "exp":
        ad = a.meta.get("addends")
        if ad:
            return ad
        return [a.args[0]]
    return [mk_log(g)]


def gammas_weight(repo, model, a21):
    """Activity coefficients for a mass-fraction input with Composition.to_molar kept uninterpreted."""
    from ..symeval import Config
    from ..procmodel import UNITS
    f = repo.find_function(ACT)
    conv = {}

    def summary(ev, func, res, bound):
        if func.qualname == "Composition.to_molar" and isinstance(res, ObjV):
            res.fields["type"] = StrV("molar")
            conv["p"] = ev.obj_attr(res, "p", None, func.node)
        return res

    cfg = Config(facts=arm_facts(model, a21, "weight"),
                 inline=lambda fn: fn.qualname in ("Composition.first", "Composition.second"),
                 str_domains={"*.type": ("weight", "molar")}, ret_summary=summary)
    outs = analyse(repo, f, cfg)
    sel = [o for o in outs if o.kind == "return" and all(not d for c, d in o.trace)]
    if len(sel) != 1:
        raise AnalysisError("%s (mass-fraction input, %s): expected one generic path, found %d" % (ACT, model, len(sel)))
    v = sel[0].value
    p = conv.get("p")
    return v.items[0].r, v.items[1].r, (p.r if isinstance(p, Num) else None)


class _Fake:
    def __init__(self, repo, func, out):
        self.repo, self.func, self.out = repo, func, out


def run(ck):
    repo = ck.repo
    ck.explanation = EXPL
    ck.technique = "normal forms of ln(gamma); syntactic d/dx; substitution; role permutation sigma"
    ck.undecided("behaviour exactly at x = 0 or 1 for UNIQUAC (the code substitutes 1e-5 there; the property's domain is the open interval)")
    from ..purity import purity
    purity(ck, repo, [repo.find_function(ACT), repo.find_function(GPP), repo.find_function("Composition.to_molar"), repo.find_function("Composition.to_weight")])
    x = poly.T.sym("composition.p", ("nonneg", "comp_p"))
    X = Rat.atom(x)
    n_arms = 0
    for model, a21, label in ARMS:
        f, outs, o, g1, g2 = gammas(repo, model, a21)
        ck.analysed_function(f)
        ck.analysed["paths"] += len(outs)
        n_arms += 1
        sck = ck.scoped(label)
        where = f.loc()
        l1, l2 = mk_log(g1), mk_log(g2)
        # Gibbs-Duhem, term by term over the top-level sum of each exponent (differentiation is linear)
        gd = Rat.const(0)
        for u in addends(g1):
            gd = gd + X * diff(u, x)
        for u in addends(g2):
            gd = gd + (1 - X) * diff(u, x)
        sig = "" if gd.is_zero() else " residual-terms=%d" % gd.num.nterms()
        sck.ob("A5", f.qualname, "Gibbs-Duhem: x1*dln(gamma1)/dx1 + x2*dln(gamma2)/dx1 == 0 [%s]%s" % (model, sig), where, gd.is_zero(),
               "the two activity coefficients must derive from one excess Gibbs energy",
               found=lambda: "residual with %d terms: %s" % (gd.num.nterms(), poly.rat_str(gd, 6)), sample=True)
        # pure limits
        for which, lg, at in (("1", l1, 1), ("2", l2, 0)):
            try:
                z = subst(lg, {x.id: Rat.const(at)})
                okz, fz = z.is_zero(), str(z)[:300]
            except poly.Unmodelled as e:
                okz, fz = False, "the limit does not exist: %s" % e
            sck.ob("A3", f.qualname, "gamma_%s -> 1 as component %s becomes pure [%s]" % (which, which, model), where, okz, found=fz)
        if model == "NRTL":
            zero = {poly.T.sym("mixture.nrtl_params.%s" % n).id: Rat.const(0) for n in ("a12", "a21", "g12", "g21")}
            r1, r2 = subst(l1, zero), subst(l2, zero)
            sck.ob("A2", f.qualname, "NRTL reduces to Raoult's law when the interaction parameters vanish", where,
                   r1.is_zero() and r2.is_zero(), found=lambda: "%s ; %s" % (r1, r2))
        # basis guard of the model itself: with a mass-fraction input every read must go through the converted
        # composition (the conversion is kept uninterpreted here; its own correctness is C15)
        w1, w2, conv_p = gammas_weight(repo, model, a21)
        if conv_p is None:
            sck.ob("A1", f.qualname, "mass-fraction input is converted to mole fraction before use [%s]" % model, where, False,
                   "no conversion of the composition was found on the mass-fraction path")
        else:
            e1, e2 = subst(g1, {x.id: conv_p}), subst(g2, {x.id: conv_p})
            sck.ob("A1", f.qualname, "activity coefficients independent of the input basis [%s]" % model, where,
                   w1 == e1 and w2 == e2,
                   "a mass-fraction input must give the coefficients of the equivalent mole fraction")
    ck.floor("activity-model arms", n_arms, 3)
    # partial pressures
    g = repo.find_function(GPP)
    ck.analysed_function(g)
    res = {}
    for basis in ("molar", "weight"):
        cfg = make_config({"composition.type": ("str", basis), "calculation_type": "notnone"}, canon_arg=canon_comp)
        outs = analyse(repo, g, cfg)
        ck.analysed["paths"] += len(outs)
        sck = ck.scoped("input basis=%s" % basis)
        ok = len(outs) == 1 and outs[0].kind == "return" and isinstance(outs[0].value, TupV) and len(outs[0].value.items) == 2
        sck.ob("A1", g.qualname, "single straight path returning a pair", g.loc(), ok)
        if not ok:
            continue
        o = outs[0]
        fake = _Fake(repo, g, o)
        comp = "composition" if basis == "molar" else "composition.to_molar(mixture=mixture)"
        for i, c in enumerate(("first", "second")):
            want = oracle_gpp(fake, "mixture.%s_component.get_vapor_pressure(temperature) * calculate_activity_coefficients("
                                    "temperature=temperature, mixture=mixture, composition=%s, calculation_type=calculation_type)[%d] * %s.%s"
                              % (c, comp, i, comp, c))
            got = o.value.items[i]
            sck.ob("A1", g.qualname, "p_%d == Psat_%d(T) * gamma_%d * x_%d (mole fraction)" % (i + 1, i + 1, i + 1, i + 1), g.loc(),
                   isinstance(got, Num) and got.r == want.r, expected=lambda: str(want.r), found=lambda: str(got.r) if isinstance(got, Num) else repr(got),
                   sample=True)
        res[basis] = o.value
    if len(res) == 2:
        M1 = Rat.sym("mixture.first_component.molecular_weight", ("nonneg", "pos"))
        M2 = Rat.sym("mixture.second_component.molecular_weight", ("nonneg", "pos"))
        mw = (X / M1) / (X / M1 + (1 - X) / M2)
        for i in (0, 1):
            a = subst(res["molar"].items[i].r, {x.id: mw})
            b = res["weight"].items[i].r
            ck.ob("A1", g.qualname, "partial pressure %d independent of the input basis" % (i + 1), g.loc(), a == b,
                  expected=lambda: str(a), found=lambda: str(b))
    ck.exhaustive = True
    ck.assume("the two activity models are the only values of the model selector; parameters present (absence is C19)")


def canon_comp(ev, func, p, v, frame, node):
    """Compositions handed to basis-normalising callees are keyed by their mole fraction."""
    if isinstance(v, ObjV) and v.cls.name == "Composition" and func.qualname in ("calculate_activity_coefficients", "get_partial_pressures"):
        t = ev.obj_attr(v, "type", frame, node)
        pv = ev.obj_attr(v, "p", frame, node)
        if isinstance(t, StrV) and t.s == "molar" and isinstance(pv, Num):
            return Num(pv.r)
    return v


def oracle_gpp(fake, src):
    import ast
    from ..evaluator import Evaluator
    from ..symeval import Ctx, opaque_of
    from ..interp import Frame
    from ..repo import parse_type
    cfg = make_config(dict(fake.out.facts), canon_arg=canon_comp)
    ctx = Ctx(fake.repo, cfg, [])
    ev = Evaluator(ctx)
    f = fake.func
    env = {}
    for p in f.params:
        env[p] = opaque_of(parse_type(fake.repo, f.module, f.annotations.get(p), None), p, ctx)
    return ev.eval(ast.parse(src, mode="eval").body, Frame(f, f.module, env))
