"""C02 — solution-diffusion law at a self-consistent permeate (kinds S + T + A)."""
import ast
import itertools

from .. import poly
from ..poly import Rat, subst, key_equiv, key_str, mk_fn
from ..evaluator import analyse, Config
from ..procmodel import make_config, permeance_summary, oracle, PM, KG
from ..symeval import val_key
from ..values import *
from ..symeval import called_from, in_function
from ..repo import AnalysisError, FuncInfo

EXPL = ("D1: the driving-force function is evaluated under the four None-ness combinations of the two permeate parameters; "
        "exactly the (set,set) cell raises. D2: in each other cell the returned pair is compared, as a polynomial identity over "
        "uninterpreted partial-pressure atoms, with permeance*(feed partial pressure - permeate partial pressure); the vacuum / "
        "p=0 coincidence, the identity J1/P1+J2/P2 = pf1+pf2-p and degree-1 homogeneity in the permeances are decided on that "
        "normal form. D3: the fixed-point loop of the solver is summarised by one application of its body to a bound iterate; "
        "guard, distance, update, start iterate, the equality of the two driving-force call sites and the use of the last "
        "iterate in the returned fluxes are decided structurally on the summary.")

DF = "Pervaporation.get_partial_fluxes_from_permeate_composition"
SOLVER = "Pervaporation.calculate_partial_fluxes"
MODES = {"vac": ("none", "none"), "T": ("notnone", "none"), "p": ("none", "notnone"), "both": ("notnone", "notnone")}
PP_SRC = {
    "vac": ("0", "0"),
    "T": ("get_partial_pressures(permeate_temperature, self.mixture, permeate_composition, calculation_type)[0]",
          "get_partial_pressures(permeate_temperature, self.mixture, permeate_composition, calculation_type)[1]"),
    "p": ("permeate_pressure * permeate_composition.first", "permeate_pressure * permeate_composition.second"),
}
PF_SRC = "get_partial_pressures(feed_temperature, self.mixture, feed_composition, calculation_type)[%d]"


class _FakePM:
    def __init__(self, repo, func, out):
        self.repo, self.func, self.out = repo, func, out


def run(ck):
    repo = ck.repo
    ck.explanation = EXPL
    ck.technique = "exhaustive None-ness enumeration; polynomial identities on normal forms; loop summary (uninterpreted fix-point)"
    ck.undecided("convergence of the iteration; the numeric distance between the returned composition and the composition of the "
                 "returned fluxes; 'locally contractive' — D3 decides only the structural necessary conditions of that clause")
    df = repo.find_function(DF)
    sv = repo.find_function(SOLVER)
    ck.analysed_function(df)
    ck.analysed_function(sv)
    from ..purity import purity
    purity(ck, repo, [df, sv])
    check_df(ck, repo, df)
    check_solver(ck, repo, df, sv)
    ck.exhaustive = True


def check_df(ck, repo, df):
    results = {}
    cells = 0
    for mode, (ft, fp) in MODES.items():
        for basis in ("weight", "molar"):
            facts = {"permeate_temperature": ft, "permeate_pressure": fp, "calculation_type": "notnone",
                     "permeate_composition.type": ("str", basis)}
            cfg = make_config(facts)
            outs = analyse(repo, df, cfg)
            ck.analysed["paths"] += len(outs)
            cells += 1
            sck = ck.scoped("mode=%s permeate basis=%s" % (mode, basis))
            if mode == "both":
                sck.ob("D1", df.qualname, "both permeate temperature and pressure given -> raise", df.loc(),
                       all(o.kind == "raise" and o.exc.exc_type == "ValueError" for o in outs) and outs,
                       found=lambda: "; ".join("%s" % (o.kind if o.kind == "return" else o.exc.exc_type) for o in outs))
                continue
            ok1 = bool(outs) and all(o.kind == "return" for o in outs)
            sck.ob("D1", df.qualname, "mode %s is accepted (no path raises)" % mode, df.loc(), ok1,
                   found=lambda: "; ".join("%s" % (o.kind if o.kind == "return" else ("raise %s at %s" % (o.exc.exc_type, o.exc.where))) for o in outs))
            if not ok1:
                continue
            for o in outs:
                v = o.value
                if not (isinstance(v, TupV) and len(v.items) == 2 and all(isinstance(i, Num) for i in v.items)):
                    sck.ob("D2", df.qualname, "returns a pair of numbers", df.loc(), False, found=repr(v)[:200])
                    continue
                fake = _FakePM(repo, df, o)
                for i in (0, 1):
                    P = "first_component_permeance" if i == 0 else "second_component_permeance"
                    want = oracle(fake, "%s.value * (%s - (%s))" % (P, PF_SRC % i, PP_SRC[mode][i]))
                    sck.ob("D2", df.qualname, "flux %d == permeance %d * (feed partial pressure - permeate partial pressure) [%s]" % (i + 1, i + 1, mode),
                           df.loc(), v.items[i].r == want.r, expected=lambda: str(want.r), found=lambda: str(v.items[i].r), sample=True)
                results[(mode, basis)] = (v.items[0].r, v.items[1].r, fake)
    ck.analysed["configs"] += cells
    ck.floor("driving-force mode cells", cells, 8)
    P1 = Rat.sym("first_component_permeance.value", ("nonneg",))
    P2 = Rat.sym("second_component_permeance.value", ("nonneg",))
    pp = poly.T.sym("permeate_pressure")
    for basis in ("weight", "molar"):
        if ("vac", basis) in results and ("p", basis) in results:
            v0, v1, _ = results[("vac", basis)]
            p0, p1, fake = results[("p", basis)]
            z = {pp.id: Rat.const(0)}
            ck.ob("D2", DF, "permeate pressure 0 gives the vacuum fluxes", fake.func.loc(),
                  subst(p0, z) == v0 and subst(p1, z) == v1, expected=lambda: "%s, %s" % (v0, v1),
                  found=lambda: "%s, %s" % (subst(p0, z), subst(p1, z)))
            pf0 = oracle(fake, PF_SRC % 0).r
            pf1 = oracle(fake, PF_SRC % 1).r
            lhs = p0 / P1 + p1 / P2
            ck.ob("D2", DF, "J1/P1 + J2/P2 == pf1 + pf2 - p", fake.func.loc(), lhs == pf0 + pf1 - Rat.atom(pp),
                  expected=lambda: str(pf0 + pf1 - Rat.atom(pp)), found=lambda: str(lhs))
            ck.ob("D2", DF, "vacuum fluxes are exactly permeance * feed partial pressure", fake.func.loc(),
                  v0 == P1 * pf0 and v1 == P2 * pf1, found=lambda: "%s, %s" % (v0, v1))
    kap = Rat.sym("#kappa", ("nonneg", "pos"))
    for (mode, basis), (j0, j1, fake) in results.items():
        sc = {poly.T.sym("first_component_permeance.value").id: kap * P1, poly.T.sym("second_component_permeance.value").id: kap * P2}
        s0, s1 = subst(j0, sc), subst(j1, sc)
        ck.ob("D2", DF, "fluxes are homogeneous of degree 1 in the permeances [%s]" % mode, fake.func.loc(),
              s0 == kap * j0 and s1 == kap * j1, found=lambda: "%s ; %s" % (s0, s1), config="permeate basis=%s" % basis)


def check_solver(ck, repo, df, sv):
    n = 0
    judged = 0
    for (pm_first, pm_second), mode in itertools.product(itertools.product(("notnone", "none"), repeat=2), ("vac", "T", "p")):
        ft, fp = MODES[mode]
        facts = {"permeate_temperature": ft, "permeate_pressure": fp, "calculation_type": "notnone",
                 "first_component_permeance": pm_first, "second_component_permeance": pm_second,
                 "composition.type": ("str", "weight")}
        cfg = make_config(facts, ret_summary=permeance_summary)
        outs = analyse(repo, sv, cfg)
        ck.analysed["paths"] += len(outs)
        label = "mode=%s permeances=(%s,%s)" % (mode, "given" if pm_first == "notnone" else "None", "given" if pm_second == "notnone" else "None")
        sck = ck.scoped(label)
        for o in outs:
            n += 1
            if o.kind == "return" and any(l.kind == "while" and l.entered for l in o.loops):
                judged += 1
            check_solver_path(sck, repo, df, sv, o, pm_first == "notnone" and pm_second == "notnone")
    ck.floor("solver paths", n, 12)
    ck.floor("solver paths that iterate and return (the ones D3 judges)", judged, 12)


def pure_counters(lp):
    """Carried numeric variables whose transfer is 'previous value + non-zero constant' (counting up, or a budget counting down)."""
    out = set()
    for nm, b in getattr(lp, "bound", {}).items():
        t = lp.transfer.get(nm)
        if isinstance(b, Num) and isinstance(t, Num):
            d = t.r - b.r
            if d.is_const() and d.const_value() != 0:
                out.add(nm)
    return out


def is_counter_exit(o, lp, sv):
    """The path raises inside the loop body under a test that mentions only iteration counters and constants."""
    node = o.exc.node
    if not isinstance(node, ast.Raise):
        return False    # only an explicit raise statement is the iteration cap; a TypeError / IndexError of the loop's own code is not
    if node is None or not (lp.node.lineno <= getattr(node, "lineno", -1) <= getattr(lp.node, "end_lineno", 10 ** 9)):
        return False
    if not o.trace:
        return False
    cond, dec = o.trace[-1]
    names = set()
    for i in poly.key_deps(cond):
        a = poly.T.get(i)
        if a.kind == "sym":
            names.add(a.name)
        elif a.kind != "sym" and not a.deps:
            pass
    counters = {"#w.%s" % nm for nm in _counter_names(lp)}
    # the cap itself may be a parameter of the solver (`max_iterations: int = 10000`): loop-invariant, not part of the iteration
    caps = {p for p in list(sv.params) + list(sv.kwonly)
            if not any(isinstance(n, ast.Name) and n.id == p and isinstance(n.ctx, ast.Store) for n in ast.walk(sv.node))}
    return bool(names & counters) and names <= (counters | caps)


def syntactic_counters(loop: ast.While):
    """Names the loop body changes only by adding / subtracting a numeric constant."""
    writes = {}
    for n in ast.walk(loop):
        if isinstance(n, ast.AugAssign) and isinstance(n.target, ast.Name):
            ok = isinstance(n.op, (ast.Add, ast.Sub)) and isinstance(n.value, ast.Constant) and isinstance(n.value.value, (int, float)) \
                and not isinstance(n.value.value, bool)
            writes.setdefault(n.target.id, []).append(ok)
        elif isinstance(n, (ast.Assign, ast.AnnAssign, ast.NamedExpr, ast.For, ast.comprehension)):
            tgts = n.targets if isinstance(n, ast.Assign) else [n.target]
            for t in tgts:
                for x in ast.walk(t):
                    if isinstance(x, ast.Name) and isinstance(x.ctx, ast.Store):
                        writes.setdefault(x.id, []).append(False)
    return {nm for nm, oks in writes.items() if oks and all(oks)}


def is_cap_exit_after_loop(o, lp, sv):
    """`while <converging> and <budget left>: ...` followed directly by `if <converging>: raise`: the raise is the iteration
    cap (it is reached only when the budget conjunct ended the loop), written after the loop instead of inside it."""
    node = o.exc.node
    loop = lp.node
    if not (isinstance(node, ast.Raise) and isinstance(loop, ast.While) and getattr(node, "lineno", 0) > getattr(loop, "end_lineno", 10 ** 9)):
        return False
    if not (isinstance(loop.test, ast.BoolOp) and isinstance(loop.test.op, ast.And)):
        return False
    counters = syntactic_counters(loop)
    for blk in ast.walk(sv.node):
        for fld in ("body", "orelse", "finalbody"):
            seq = getattr(blk, fld, None)
            if not isinstance(seq, list) or loop not in seq:
                continue
            i = seq.index(loop)
            nxt = seq[i + 1] if i + 1 < len(seq) else None
            if not (isinstance(nxt, ast.If) and any(x is node for x in nxt.body)):
                return False
            same = [c for c in loop.test.values if ast.dump(c) == ast.dump(nxt.test)]
            rest = [c for c in loop.test.values if ast.dump(c) != ast.dump(nxt.test)]
            if len(same) != 1 or not rest:
                return False
            for c in rest:
                names = {x.id for x in ast.walk(c) if isinstance(x, ast.Name)}
                if not names or not names <= counters:
                    return False
            return True
    return False


def _counter_names(lp):
    # at the time of the raise the transfer of the counter may not have been recorded; recompute from the bound state
    out = set()
    for nm, b in getattr(lp, "bound", {}).items():
        if isinstance(b, Num):
            out.add(nm)
    comps = {nm for nm, v in getattr(lp, "bound", {}).items() if not isinstance(v, Num)}
    return out - comps - {nm for nm in out if lp.guard is not None and isinstance(lp.guard, BoolV) and isinstance(lp.guard.cond, tuple)
                          and any(poly.T.get(i).name == "#w.%s" % nm for i in poly.key_deps(lp.guard.cond) if poly.T.get(i).kind == "sym")}


def check_solver_path(ck, repo, df, sv, o, given):
    fq = sv.qualname
    wl = [l for l in o.loops if l.kind == "while" and in_function(l.func, sv)]
    if wl and wl[0].entered is False:
        # the loop is skipped only when the start distance is already below the precision, i.e. for a
        # precision above the start value of the distance (1): outside the property's domain (<= 1e-3)
        ck.note("path with the fixed-point loop skipped (precision above the initial distance) is outside the domain; not judged")
        return
    if o.kind != "return":
        if wl and (is_counter_exit(o, wl[0], sv) or is_cap_exit_after_loop(o, wl[0], sv)):
            ck.note("path leaving the loop through its iteration cap (raise guarded by a pure counter) is the bounded-iteration "
                    "exit required by C10; not judged here")
            return
        ck.ob("D3", fq, "solver returns under an admissible single permeate condition", o.exc.where or sv.loc(), False,
              "raises %s: %s" % (o.exc.exc_type, o.exc.msg))
        return
    loops = [l for l in o.loops if l.kind == "while" and in_function(l.func, sv)]
    ck.ob("D3", fq, "exactly one fixed-point loop", sv.loc(), len(loops) == 1, "found %d while loops" % len(loops))
    if len(loops) != 1:
        return
    lp = loops[0]
    where = sv.loc(lp.node)
    calls = [c for c in o.calls if isinstance(c.callee, FuncInfo) and c.callee.qualname == DF and called_from(c, sv)]
    fake = _FakePM(repo, sv, o)
    prec = Rat.sym("precision")
    # own parameters
    own = {"feed_temperature": Rat.sym("feed_temperature"),
           "feed_composition": ("obj", "Composition", "composition"),
           "calculation_type": None, "permeate_temperature": None, "permeate_pressure": None}
    if not lp.entered:
        # loop skipped (only possible when 1 < precision): a single DF evaluation at the start iterate
        ck.ob("D3e", fq, "loop skipped -> fluxes evaluated at the start iterate", where, len(calls) == 1)
        return
    in_loop = [c for c in calls if c.in_loop is not None]
    final = [c for c in calls if c.in_loop is None]
    ck.ob("D3a", fq, "one driving-force call inside the loop and one after it", where, len(in_loop) == 1 and len(final) == 1,
          "found %d in the loop, %d after" % (len(in_loop), len(final)))
    if len(in_loop) != 1 or len(final) != 1:
        return
    cl, cf = in_loop[0], final[0]
    # (a) same bindings at both sites and derived from the solver's own parameters
    for p in df.params[1:]:
        if p == "permeate_composition":
            continue
        a, b = cl.bound.get(p), cf.bound.get(p)
        ka, kb = val_key(a), val_key(b)
        ck.ob("D3a", fq, "both driving-force calls pass the same %s" % p, cf.where, key_equiv(ka, kb), expected=lambda: key_str(ka),
              found=lambda: key_str(kb))
    ent = o.env  # final environment of the solver frame
    expect = {
        "feed_temperature": "feed_temperature", "feed_composition": "composition", "permeate_temperature": "permeate_temperature",
        "permeate_pressure": "permeate_pressure", "calculation_type": "calculation_type",
    }
    for p, src in expect.items():
        want = oracle(fake, src)
        ck.ob("D3a", fq, "driving-force argument %s is the solver's own %s" % (p, src), cl.where,
              key_equiv(val_key(cl.bound.get(p)), val_key(want)), expected=lambda: key_str(val_key(want)),
              found=lambda: key_str(val_key(cl.bound.get(p))))
    for i, p in enumerate(("first_component_permeance", "second_component_permeance")):
        c = "first" if i == 0 else "second"
        if given:
            want = oracle(fake, p)
        else:
            want = oracle(fake, "self.membrane.get_permeance(feed_temperature, self.mixture.%s_component).convert("
                                "to_units=Units().kg_m2_h_kPa, component=self.mixture.%s_component)" % (c, c))
        ck.ob("D3a", fq, "driving-force argument %s is %s" % (p, "the caller's permeance" if given else "the membrane's permeance of its own component at the feed temperature"),
              cl.where, key_equiv(val_key(cl.bound.get(p)), val_key(want)), expected=lambda: key_str(val_key(want)),
              found=lambda: key_str(val_key(cl.bound.get(p))))
    # state variables: find the iterate (Composition-valued carried variable) and the distance (numeric carried variable)
    comps = [nm for nm, v in lp.bound.items() if isinstance(v, ObjV) and v.cls.name == "Composition"]
    nums = [nm for nm, v in lp.bound.items() if isinstance(v, Num) and nm not in pure_counters(lp)]
    ck.ob("D3", fq, "loop state = one iterate composition + one distance (+ iteration counters)", where, len(comps) == 1 and len(nums) == 1,
          "carried variables: %s" % sorted(lp.bound))
    if len(comps) != 1 or len(nums) != 1:
        return
    pc, d = comps[0], nums[0]
    beta_p = Rat.sym("#w.%s.p" % pc, ("nonneg", "comp_p"))
    beta_d = Rat.sym("#w.%s" % d)
    # (b) guard
    g = lp.guard
    okg = False
    gc = g.cond if isinstance(g, BoolV) else None
    neg = False
    if isinstance(gc, tuple) and gc and gc[0] == "and":
        # `while <distance test> and <iteration budget test>`: the other conjuncts may only involve pure counters
        cnt = {"#w.%s" % nm for nm in pure_counters(lp)}

        def only_counters(c):
            names = {poly.T.get(i).name for i in poly.key_deps(c) if poly.T.get(i).kind == "sym"}
            return bool(names) and names <= cnt
        rest = [c for c in gc[1:] if not only_counters(c)]
        gc = rest[0] if len(rest) == 1 else None
    while isinstance(gc, tuple) and len(gc) == 2 and gc[0] == "not":
        gc, neg = gc[1], not neg
    if isinstance(gc, tuple) and len(gc) == 3 and isinstance(gc[1], Rat):
        op, l, r = gc
        if neg:
            op = {"ge": "lt", "gt": "le", "le": "gt", "lt": "ge", "eq": "ne", "ne": "eq"}.get(op, op)
        okg = (op in ("ge", "gt") and l == beta_d and r == prec) or (op in ("le", "lt") and r == beta_d and l == prec)
    ck.ob("D3b", fq, "loop continues while distance >= precision (the caller's precision)", where, okg,
          found=lambda: key_str(g.cond) if isinstance(g, BoolV) else repr(g))
    # the iterate passed into the loop's DF call is the bound iterate
    arg = cl.bound.get("permeate_composition")
    ck.ob("D3d", fq, "driving force in the loop is evaluated at the current iterate", cl.where,
          isinstance(arg, ObjV) and arg.path == "#w.%s" % pc, found=repr(arg))
    # new iterate = composition of those fluxes
    res = cl.result
    newp = None
    if isinstance(res, TupV) and len(res.items) == 2 and all(isinstance(i, Num) for i in res.items):
        j0, j1 = res.items[0].r, res.items[1].r
        newp = j0 / (j0 + j1)
    tr_pc = lp.transfer.get(pc)
    got = tr_pc.fields.get("p").r if isinstance(tr_pc, ObjV) and isinstance(tr_pc.fields.get("p"), Num) else None
    ck.ob("D3d", fq, "iterate is replaced by the composition of the fluxes just computed", where,
          newp is not None and got is not None and got == newp, expected=lambda: str(newp), found=lambda: str(got))
    tt = tr_pc.fields.get("type") if isinstance(tr_pc, ObjV) else None
    ck.ob("D3d", fq, "iterate is a mass-fraction composition", where, isinstance(tt, StrV) and tt.s == "weight", found=repr(tt))
    # (c) distance
    tr_d = lp.transfer.get(d)
    if newp is not None:
        want_d = mk_fn("max", mk_fn("abs", newp - beta_p), mk_fn("abs", (1 - newp) - (1 - beta_p)))
        ck.ob("D3c", fq, "distance == max |new - old| over both fractions of successive iterates", where,
              isinstance(tr_d, Num) and tr_d.r == want_d, expected=lambda: str(want_d), found=lambda: str(tr_d.r) if isinstance(tr_d, Num) else repr(tr_d))
    # (e) final evaluation at the last iterate
    post = lp.post.get(pc)
    farg = cf.bound.get("permeate_composition")
    ck.ob("D3e", fq, "returned fluxes are the driving force at the last iterate", cf.where,
          isinstance(post, ObjV) and farg is post, found=repr(farg)[:200])
    ck.ob("D3e", fq, "the solver returns that final driving-force evaluation", cf.where,
          o.value is cf.result or key_equiv(val_key(o.value), val_key(cf.result)))
    # (f) start iterate
    init = lp.init.get(pc)
    ip = init.fields.get("p").r if isinstance(init, ObjV) and isinstance(init.fields.get("p"), Num) else None
    pf = [oracle(fake, "get_partial_pressures(feed_temperature, self.mixture, composition, calculation_type)[%d]" % i).r for i in (0, 1)]
    Pv = []
    for p in ("first_component_permeance", "second_component_permeance"):
        v = cl.bound.get(p)
        Pv.append(oracle(fake, "P.value", P=v).r)
    f0, f1 = Pv[0] * pf[0], Pv[1] * pf[1]
    ck.ob("D3f", fq, "start iterate is the composition of the vacuum fluxes permeance * feed partial pressure", where,
          ip is not None and ip == f0 / (f0 + f1), expected=lambda: str(f0 / (f0 + f1)), found=lambda: str(ip))
