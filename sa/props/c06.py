"""C06 — independence of the component order (kind A with the role permutation sigma)."""
from .. import poly
from ..poly import Rat, key_equiv, key_str, mk_log
from ..activity import gammas, ARMS, ACT, GPP
from ..evaluator import analyse
from ..procmodel import split_models, make_config, permeance_summary, process_functions, evaluate, PM, is_non_ideal
from ..sigma import Sigma, swap_ident
from ..symeval import val_key
from ..values import *
from ..symeval import called_from, in_function
from ..repo import AnalysisError, FuncInfo
from .c04 import addends

EXPL = ("For every function in scope the normal form of each output over the function's inputs is computed (locals are "
        "substituted away, so internal refactoring is invisible) and compared with its image under the role permutation sigma "
        "(first<->second component, 12<->21 parameters, p -> 1-p, pair positions swapped, role-named parameters of "
        "uninterpreted callees permuted): paired outputs must be each other's images, role-neutral outputs fixed points, "
        "compositions complement (1-E == sigma(E)), separation metrics invert (sigma(E) == 1/E). Call sites of role-named "
        "callees must be equivariant argument for argument (assume/guarantee over the call graph).")


class Scope:
    def __init__(self, ck):
        self.ck = ck
        self.n_funcs = 0


def neutral(ck, sg, func, what, v, where, config=None):
    k = val_key(v) if isinstance(v, Val) else v
    sk = sg.key(k)
    ck.ob("R-sigma", func, what + " is unchanged by relabelling", where, key_equiv(sk, k),
          expected=lambda: key_str(k)[:400], found=lambda: key_str(sk)[:400], config=config)


def paired(ck, sg, func, what, a, b, where, config=None):
    ka, kb = (val_key(a) if isinstance(a, Val) else a), (val_key(b) if isinstance(b, Val) else b)
    ck.ob("R-sigma", func, what + ": second is the relabelled first", where, key_equiv(sg.key(ka), kb),
          expected=lambda: key_str(sg.key(ka))[:400], found=lambda: key_str(kb)[:400], config=config)
    ck.ob("R-sigma", func, what + ": first is the relabelled second", where, key_equiv(sg.key(kb), ka),
          expected=lambda: key_str(sg.key(kb))[:400], found=lambda: key_str(ka)[:400], config=config)


def complement(ck, sg, func, what, e: Rat, where, config=None):
    ck.ob("R-sigma", func, what + ": fraction of the relabelled first component is 1 - fraction", where, sg(e) == 1 - e,
          expected=lambda: str(1 - e)[:400], found=lambda: str(sg(e))[:400], config=config)


def inverts(ck, sg, func, what, e: Rat, where, config=None):
    ck.ob("R-sigma", func, what + " inverts under relabelling", where, sg(e) * e == Rat.const(1),
          expected=lambda: str(1 / e)[:400], found=lambda: str(sg(e))[:400], config=config)


def comp_p_of(v):
    if isinstance(v, ObjV) and v.cls.name == "Composition":
        p = v.fields.get("p")
        if isinstance(p, Num):
            return p.r
        if v.path is not None:
            return Rat.sym(v.path + ".p", ("nonneg", "comp_p"))
    return None


def call_equivariant(ck, sg, caller, rec, config=None):
    """A call of a callee with role-named parameters: the argument bound to the second-role parameter must be the
    relabelled argument of the first-role parameter; the others must be fixed points."""
    callee = rec.callee
    names = callee.params + callee.kwonly
    for p in names:
        if p == "self" or p not in rec.bound:
            continue
        q = swap_ident(p)
        kp = val_key(rec.bound[p])
        if any(poly.T.get(i).kind == "fn" and poly.T.get(i).name == "loopfix" for i in poly.key_deps(kp)):
            continue  # result of the fixed-point loop: its summary (start, update, distance) is checked piece by piece
        if q != p and q in rec.bound:
            kq = val_key(rec.bound[q])
            ck.ob("R-sigma", caller, "call of %s: argument %s is the relabelled argument %s" % (callee.qualname, q, p), rec.where,
                  key_equiv(sg.key(kp), kq), expected=lambda: key_str(sg.key(kp))[:300], found=lambda: key_str(kq)[:300], config=config)
        elif q == p:
            ck.ob("R-sigma", caller, "call of %s: argument %s is unchanged by relabelling" % (callee.qualname, p), rec.where,
                  key_equiv(sg.key(kp), kp), expected=lambda: key_str(kp)[:300], found=lambda: key_str(sg.key(kp))[:300], config=config)


def run(ck):
    repo = ck.repo
    ck.explanation = EXPL
    ck.technique = "role permutation sigma on input/output normal forms; call-site equivariance"
    scope = []
    # 1. activity coefficients -------------------------------------------------
    for model, a21, label in ARMS:
        f, outs, o, g1, g2 = gammas(repo, model, a21)
        ck.analysed_function(f)
        ck.analysed["paths"] += len(outs)
        sg = Sigma(repo, fixed_paths=("mixture.nrtl_params.alpha12",) if (model == "NRTL" and a21 == "none") else ())
        a1, a2 = addends(g1), addends(g2)
        if len(a1) == len(a2) and len(a1) > 1:
            for i, (u, v) in enumerate(zip(a1, a2)):
                su = sg(u)
                okk = su == v
                sig = "" if okk else " residual-terms=%d" % (su - v).num.nterms()
                ck.ob("R-sigma", f.qualname, "addend %d of ln(gamma_2) is the relabelled addend %d of ln(gamma_1) [%s]%s" % (i + 1, i + 1, model, sig),
                      f.loc(), okk, config=label)
        else:
            l1, l2 = mk_log(g1), mk_log(g2)
            s1 = sg(l1)
            okk = s1 == l2
            sig = "" if okk else " residual-terms=%d" % (s1 - l2).num.nterms()
            ck.ob("R-sigma", f.qualname, "gamma_2 is the relabelled gamma_1 [%s]%s" % (model, sig), f.loc(), okk, config=label)
    scope.append(ACT)
    # 2. partial pressures ---------------------------------------------------------
    g = repo.find_function(GPP)
    ck.analysed_function(g)
    for basis in ("molar", "weight"):
        outs = analyse(repo, g, make_config({"composition.type": ("str", basis), "calculation_type": "notnone"}))
        ck.analysed["paths"] += len(outs)
        for o in outs:
            if o.kind == "return" and isinstance(o.value, TupV) and len(o.value.items) == 2:
                paired(ck, Sigma(repo), g.qualname, "partial pressures", o.value.items[0], o.value.items[1], g.loc(), "input basis=%s" % basis)
    scope.append(GPP)
    # 3. conversions ----------------------------------------------------------------
    for name, own in (("Composition.to_molar", "molar"), ("Composition.to_weight", "weight")):
        f = repo.find_function(name)
        ck.analysed_function(f)
        other = "weight" if own == "molar" else "molar"
        outs = analyse(repo, f, make_config({"self.type": ("str", other)}))
        for o in outs:
            e = comp_p_of(o.value) if o.kind == "return" else None
            if e is not None:
                complement(ck, Sigma(repo), name, "converted composition", e, f.loc())
        scope.append(name)
    # 4. driving force, solver, helpers ------------------------------------------------
    check_pervaporation(ck, repo, scope)
    # 5. ideal process models --------------------------------------------------------------
    check_processes(ck, repo, scope)
    # 6. diffusion curve and metrics ---------------------------------------------------------
    check_curve_and_metrics(ck, repo, scope)
    ck.extra["functions_in_scope"] = scope
    from ..purity import purity
    purity(ck, repo, [repo.find_function(n) for n in dict.fromkeys(scope)])
    ck.floor("functions in scope", len(scope), 14)
    ck.exhaustive = True
    ck.assume("uninterpreted callees with role-named parameters are themselves equivariant (each is checked where it is analysed)")
    ck.undecided("PSI (total flux x (separation factor - 1)) is not invariant under relabelling by definition and is not claimed")


MODES = {"vac": ("none", "none"), "T": ("notnone", "none"), "p": ("none", "notnone")}


def check_pervaporation(ck, repo, scope):
    df = repo.find_function("Pervaporation.get_partial_fluxes_from_permeate_composition")
    sv = repo.find_function("Pervaporation.calculate_partial_fluxes")
    for f in (df, sv):
        ck.analysed_function(f)
    for mode, (ft, fp) in MODES.items():
        facts = {"permeate_temperature": ft, "permeate_pressure": fp, "calculation_type": "notnone",
                 "permeate_composition.type": ("str", "weight")}
        outs = analyse(repo, df, make_config(facts))
        ck.analysed["paths"] += len(outs)
        for o in outs:
            if o.kind == "return" and isinstance(o.value, TupV) and len(o.value.items) == 2:
                paired(ck, Sigma(repo), df.qualname, "partial fluxes [%s]" % mode, o.value.items[0], o.value.items[1], df.loc(), "mode=%s" % mode)
                for c in o.calls:
                    if isinstance(c.callee, FuncInfo) and called_from(c, df):
                        call_equivariant(ck, Sigma(repo), df.qualname, c, "mode=%s" % mode)
    scope.append(df.qualname)
    # solver: the loop summary piece by piece
    for given in ("notnone", "none"):
        for mode, (ft, fp) in MODES.items():
            facts = {"permeate_temperature": ft, "permeate_pressure": fp, "calculation_type": "notnone",
                     "first_component_permeance": given, "second_component_permeance": given, "composition.type": ("str", "weight")}
            outs = analyse(repo, sv, make_config(facts, ret_summary=permeance_summary))
            ck.analysed["paths"] += len(outs)
            cfgl = "mode=%s permeances=%s" % (mode, "given" if given == "notnone" else "None")
            for o in outs:
                lps = [l for l in o.loops if l.kind == "while" and in_function(l.func, sv)]
                if o.kind != "return" or not lps or not lps[0].entered:
                    continue
                lp = lps[0]
                sg = Sigma(repo)
                for c in o.calls:
                    if isinstance(c.callee, FuncInfo) and called_from(c, sv) and c.callee.qualname in (df.qualname, "Membrane.get_permeance"):
                        if c.callee.qualname == df.qualname:
                            call_equivariant(ck, sg, sv.qualname, c, cfgl)
                for nm, v in lp.init.items():
                    e = comp_p_of(v)
                    if e is not None:
                        complement(ck, sg, sv.qualname, "start iterate", e, sv.loc(lp.node), cfgl)
                for nm, v in lp.transfer.items():
                    e = comp_p_of(v)
                    if e is not None:
                        complement(ck, sg, sv.qualname, "iterate update %s" % nm, e, sv.loc(lp.node), cfgl)
                    elif isinstance(v, Num):
                        neutral(ck, sg, sv.qualname, "loop variable %s" % nm, v, sv.loc(lp.node), cfgl)
                if isinstance(o.value, TupV) and len(o.value.items) == 2:
                    pass  # the returned pair is the (uninterpreted) driving-force call checked above
    scope.append(sv.qualname)
    # helpers
    g = repo.find_function("get_permeate_composition_from_fluxes")
    ck.analysed_function(g)
    for o in analyse(repo, g, make_config({})):
        e = comp_p_of(o.value) if o.kind == "return" else None
        if e is not None:
            complement(ck, Sigma(repo), g.qualname, "permeate composition", e, g.loc())
    scope.append(g.qualname)
    for name, kind in (("Pervaporation.calculate_permeate_composition", "comp"), ("Pervaporation.calculate_separation_factor", "sf")):
        f = repo.find_function(name)
        ck.analysed_function(f)
        for mode, (ft, fp) in MODES.items():
            facts = {"permeate_temperature": ft, "permeate_pressure": fp, "calculation_type": "notnone", "precision": "notnone",
                     "composition.type": ("str", "weight")}
            outs = analyse(repo, f, make_config(facts))
            ck.analysed["paths"] += len(outs)
            for o in outs:
                if o.kind != "return":
                    continue
                sg = Sigma(repo)
                if kind == "comp":
                    e = comp_p_of(o.value)
                    if e is not None:
                        complement(ck, sg, name, "permeate composition", e, f.loc(), "mode=%s" % mode)
                elif isinstance(o.value, Num):
                    inverts(ck, sg, name, "separation factor", o.value.r, f.loc(), "mode=%s" % mode)
                for c in o.calls:
                    if isinstance(c.callee, FuncInfo) and called_from(c, f) and c.callee.cls is f.cls:
                        call_equivariant(ck, sg, name, c, "mode=%s" % mode)
        scope.append(name)
    f = repo.find_function("Pervaporation.ideal_diffusion_curve")
    ck.analysed_function(f)
    for mode, (ft, fp) in MODES.items():
        facts = {"permeate_temperature": ft, "permeate_pressure": fp, "calculation_type": "notnone", "precision": "notnone"}
        outs = analyse(repo, f, make_config(facts))
        ck.analysed["paths"] += len(outs)
        for o in outs:
            if o.kind != "return" or not isinstance(o.value, ObjV):
                continue
            pf = famify(o.value.fields.get("partial_fluxes"))
            if isinstance(pf, ListV) and pf.kind == "fam" and isinstance(pf.elem, TupV) and len(pf.elem.items) == 2:
                paired(ck, Sigma(repo), f.qualname, "partial fluxes of a curve point", pf.elem.items[0], pf.elem.items[1], f.loc(), "mode=%s" % mode)
            for c in o.calls:
                if isinstance(c.callee, FuncInfo) and called_from(c, f) and c.callee.cls is f.cls:
                    call_equivariant(ck, Sigma(repo), f.qualname, c, "mode=%s" % mode)
    scope.append(f.qualname)


def check_processes(ck, repo, scope):
    for func in process_functions(repo):
        if is_non_ideal(repo, func):
            continue
        ck.analysed_function(func)
        models = split_models(ck, 'R0', func, evaluate(repo, func, ck.tier, bases=("weight",)))
        ck.floor("evaluated paths of %s" % func.qualname, len(models), 3)
        ck.analysed["paths"] += len(models)
        for pm in models:
            sg = Sigma(repo)
            cfgl = pm.path_label
            where = func.loc(pm.loop.node) if pm.loop else func.loc()
            fq = func.qualname
            for fld in ("partial_fluxes", "permeances"):
                v = pm.field(fld)
                elems = []
                if isinstance(v, ListV) and v.kind == "series":
                    elems = list(v.init) + list(v.per_iter)
                elif isinstance(v, ListV) and v.kind == "rep":
                    elems = [v.elem]
                for e in elems:
                    if isinstance(e, TupV) and len(e.items) == 2:
                        paired(ck, sg, fq, "reported %s of a step" % fld, e.items[0], e.items[1], where, cfgl)
            for fld in ("feed_mass", "feed_temperature", "feed_evaporation_heat", "permeate_condensation_heat"):
                v = pm.field(fld)
                elems = []
                if isinstance(v, ListV) and v.kind == "series":
                    elems = list(v.init) + list(v.per_iter)
                elif isinstance(v, ListV) and v.kind == "rep":
                    elems = [v.elem]
                for e in elems:
                    if isinstance(e, Num):
                        neutral(ck, sg, fq, "reported %s" % fld, e, where, cfgl)
            for fld in ("feed_compositions", "permeate_composition"):
                v = pm.field(fld)
                if isinstance(v, ListV) and v.kind == "series":
                    for e in v.per_iter:
                        p = comp_p_of(e)
                        if p is not None:
                            complement(ck, sg, fq, "reported %s" % fld, p, where, cfgl)
            for c in pm.solver_calls():
                call_equivariant(ck, sg, fq, c, cfgl)
        scope.append(func.qualname)


def check_curve_and_metrics(ck, repo, scope):
    DC = repo.find_class("DiffusionCurve")
    post = DC.methods.get("__attrs_post_init__")
    if post is None:
        raise AnalysisError("DiffusionCurve.__attrs_post_init__ not found")
    ck.analysed_function(post)
    n = 0
    for fl, pe in (("none", "notnone"), ("notnone", "none"), ("notnone", "notnone")):
        for mode, (ft, fp) in MODES.items():
            facts = {"self.partial_fluxes": fl, "self.permeances": pe, "self.permeate_temperature": ft, "self.permeate_pressure": fp,
                     "self.feed_compositions[#b0].type": ("str", "weight")}
            cfg = make_config(facts, ret_summary=permeance_summary)
            cfg.str_domains["*.units"] = ("kg/(m2*h*kPa)",)
            outs = analyse(repo, post, cfg)
            ck.analysed["paths"] += len(outs)
            cfgl = "fluxes %s, permeances %s, mode=%s" % ("given" if fl == "notnone" else "None", "given" if pe == "notnone" else "None", mode)
            for o in outs:
                if o.kind != "return":
                    continue
                me = o.env.get("self")
                for fld in ("partial_fluxes", "permeances"):
                    v = famify(me.fields.get(fld)) if isinstance(me, ObjV) else None
                    if isinstance(v, ListV) and v.kind == "fam" and isinstance(v.elem, TupV) and len(v.elem.items) == 2:
                        n += 1
                        paired(ck, Sigma(repo), post.qualname, "computed %s of a curve point" % fld, v.elem.items[0], v.elem.items[1], post.loc(), cfgl)
    ck.floor("curve construction outputs checked", n, 6)
    scope.append(post.qualname)
    # metrics
    for cls_name, meth, kind in (("DiffusionCurve", "permeate_composition", "comp"), ("DiffusionCurve", "get_separation_factor", "inv"),
                                 ("DiffusionCurve", "get_selectivity", "inv"), ("ProcessModel", "get_separation_factor", "inv"),
                                 ("ProcessModel", "get_selectivity", "inv")):
        f = repo.find_function("%s.%s" % (cls_name, meth))
        ck.analysed_function(f)
        facts = {"self.partial_fluxes": "notnone", "self.permeances": "notnone"}
        cfg = make_config(facts, extra_inline=("DiffusionCurve.permeate_composition",))
        cfg.str_domains["*.units"] = ("kg/(m2*h*kPa)",)
        outs = analyse(repo, f, cfg)
        ck.analysed["paths"] += len(outs)
        done = 0
        for o in outs:
            ov = famify(o.value) if o.kind == "return" else None
            if ov is None or not isinstance(ov, ListV) or ov.kind != "fam":
                continue
            e = ov.elem
            if kind == "comp":
                p = comp_p_of(e)
                if p is not None:
                    complement(ck, Sigma(repo), f.qualname, "permeate composition of a point", p, f.loc())
                    done += 1
            elif isinstance(e, Num):
                inverts(ck, Sigma(repo), f.qualname, "metric", e.r, f.loc())
                done += 1
        ck.floor("metric outputs of %s" % f.qualname, done, 1)
        scope.append(f.qualname)
    f = repo.find_function("Membrane.get_ideal_selectivity")
    ck.analysed_function(f)
    for basis in ("weight", "molar"):
        cfg = make_config({"calculation_type": ("str", basis)}, ret_summary=permeance_summary)
        outs = analyse(repo, f, cfg)
        ck.analysed["paths"] += len(outs)
        done = 0
        for o in outs:
            if o.kind == "return" and isinstance(o.value, Num):
                inverts(ck, Sigma(repo), f.qualname, "ideal selectivity [%s]" % basis, o.value.r, f.loc(), "basis=%s" % basis)
                done += 1
        ck.floor("selectivity outputs [%s]" % basis, done, 1)
    scope.append(f.qualname)
