"""C13 — latent and cooling heats vs vapour pressure and heat capacity (kind A).

K1  R*T^2 * d ln Psat/dT == 1000 * Hvap for every vapour-pressure equation arm
K2  pressure and heat dispatch on the same type tests and both raise otherwise
K3  cooling heat is the integral of the specific heat (4 polynomial identities)
K4  no augmented assignment to a (not yet rebound) parameter: for array arguments that is an in-place update of the caller's data
"""
import ast
from .. import poly
from ..poly import Rat, mk_log, diff, subst
from ..evaluator import analyse, Config
from ..values import Num
from ..repo import AnalysisError

EXPL = ("Closed normal forms (exact rational functions over the constants a,b,c,d and the temperature as "
        "uninterpreted atoms) of the return expression of every arm of Component.get_vapor_pressure / "
        "get_vaporisation_heat / get_specific_heat / get_cooling_heat are computed from the syntax tree; the "
        "Clausius-Clapeyron relation is decided as the polynomial identity R*T^2*d(ln P)/dT == 1000*H using a "
        "syntactic derivative, the integral relations as polynomial identities. Holds or fails for every constant "
        "set and temperature at once (away from the Antoine pole, where both sides share the denominator).")


def trace_key(o):
    """Dispatch decisions only (tests on the equation type); data-dependent tests inside an arm are part of the arm."""
    pos, neg, other = {}, {}, []
    for c, d in o.trace:
        if not (isinstance(c, tuple) and c):
            continue
        if c[0] == "streq":
            if d:
                pos[c[1]] = c[2]
            else:
                neg.setdefault(c[1], set()).add(c[2])
        elif c[0] == "streq2":
            other.append((poly.key_str(c), d))
    # what the path knows about each tested string, whatever the order and form of the tests that established it
    key = [("%s is %s" % (p, v), True) for p, v in sorted(pos.items())]
    key += [("%s is none of %s" % (p, sorted(vs)), True) for p, vs in sorted(neg.items()) if p not in pos]
    return tuple(key + other)


def run(ck):
    repo = ck.repo
    ck.explanation = EXPL
    ck.technique = "algebraic normal forms + syntactic differentiation (value numbering over Q[atoms])"
    ck.undecided("closeness of the formulas to tabulated data; floating-point rounding (identities are over the reals)")
    cfg = Config(inline=lambda f: False)
    fp = repo.find_function("Component.get_vapor_pressure")
    fh = repo.find_function("Component.get_vaporisation_heat")
    fc = repo.find_function("Component.get_specific_heat")
    fq = repo.find_function("Component.get_cooling_heat")
    for f in (fp, fh, fc, fq):
        ck.analysed_function(f)
    from ..purity import purity
    purity(ck, repo, [fp, fh, fc, fq])
    outs_p = analyse(repo, fp, cfg)
    outs_h = analyse(repo, fh, cfg)
    ck.analysed["paths"] += len(outs_p) + len(outs_h)
    Rconst = Num(Rat.const(0))
    from ..evaluator import eval_expr_src
    Rv = eval_expr_src(repo, cfg, "R", lambda ev: {}, module=fp.module)
    if not isinstance(Rv, Num) or not Rv.r.is_const():
        raise AnalysisError("gas constant R is not a module constant of %s" % fp.module.relpath)
    ck.extra["R"] = str(Rv.r)
    # parameter atoms
    tp = poly.T.sym(fp.params[1])
    th = poly.T.sym(fh.params[1])
    by_trace_h = {}
    for o in outs_h:
        by_trace_h.setdefault(trace_key(o), []).append(o)
    arms = 0
    seen_arms = set()
    pairs = []
    for o in outs_p:
        for oh in by_trace_h.get(trace_key(o), [None]):
            pairs.append((o, oh))
    for o, oh in pairs:
        tk = trace_key(o)
        arm = " & ".join("%s=%s" % (c, d) for c, d in tk) or "unconditional"
        extra = [(poly.key_str(c), d) for c, d in list(o.trace) + (list(oh.trace) if oh is not None else []) if (poly.key_str(c), d) not in tk]
        if extra:
            arm += " | " + ", ".join("%s=%s" % cd for cd in extra)
        if oh is None:
            ck.ob("K2", fh.qualname, "dispatch arm " + arm, fh.loc(), False,
                  "get_vapor_pressure has an arm that get_vaporisation_heat does not dispatch on")
            continue
        if o.kind == "raise" or oh.kind == "raise":
            ck.ob("K2", fh.qualname, "dispatch arm " + arm, fh.loc(), o.kind == oh.kind,
                  "pressure arm %ss, heat arm %ss" % (o.kind, oh.kind))
            continue
        if tk not in seen_arms:
            seen_arms.add(tk)
            arms += 1
        if not (isinstance(o.value, Num) and isinstance(oh.value, Num)):
            raise AnalysisError("non-numeric return in %s" % fp.qualname)
        try:
            lnp = mk_log(o.value.r)
            lhs = Rv.r * Rat.atom(tp) ** 2 * diff(lnp, tp)
            rhs = Rat.const(1000) * subst(oh.value.r, {th.id: Rat.atom(tp)})
            okk, exp_s, got_s = lhs == rhs, str(lhs), str(rhs)
        except poly.Unmodelled as e:
            okk, exp_s, got_s = False, "R*T^2*dlnP/dT", "cannot be formed: %s" % e
        ck.ob("K1", fh.qualname, "arm " + arm, fh.loc(), okk,
              "Clausius-Clapeyron: R*T^2*dlnP/dT vs 1000*H", expected=exp_s, found=got_s, sample=True)
    for tk in by_trace_h:
        if tk not in {trace_key(o) for o in outs_p}:
            ck.ob("K2", fh.qualname, "dispatch arm " + str(tk), fh.loc(), False,
                  "get_vaporisation_heat has an arm that get_vapor_pressure does not dispatch on")
    ck.floor("vapour-pressure equation arms", arms, 2)
    def nomatch(o):
        tk = trace_key(o)
        return bool(tk) and all(" is none of " in c for c, _ in tk)
    ck.ob("K2", fp.qualname, "unknown equation type raises", fp.loc(), any(nomatch(o) for o in outs_p) and
          all(o.kind == "raise" for o in outs_p if nomatch(o)), "the path on which no equation type matches must raise")
    ck.ob("K2", fh.qualname, "unknown equation type raises", fh.loc(), any(nomatch(o) for o in outs_h) and
          all(o.kind == "raise" for o in outs_h if nomatch(o)), "the path on which no equation type matches must raise")
    # K4: the four functions work elementwise on numpy arrays of temperatures as well as on numbers; for an array an augmented
    # assignment to the parameter (`temperature /= ...`) is an IN-PLACE update of the caller's array: the heat returned and the pressure
    # evaluated afterwards from the same array then belong to different temperatures. A plain rebinding before it makes it local.
    for f in (fp, fh, fc, fq):
        params = set(f.params[1:])
        rebound = set()
        hits = []
        for st in sorted((n for n in ast.walk(f.node) if isinstance(n, (ast.Assign, ast.AnnAssign, ast.AugAssign))), key=lambda n: (n.lineno, n.col_offset)):
            if isinstance(st, ast.AugAssign):
                if isinstance(st.target, ast.Name) and st.target.id in params and st.target.id not in rebound:
                    hits.append("%s: %s" % (f.loc(st), ast.unparse(st)))
            else:
                for t in (st.targets if isinstance(st, ast.Assign) else [st.target]):
                    for n in ast.walk(t):
                        if isinstance(n, ast.Name):
                            rebound.add(n.id)
        ck.ob("K4", f.qualname, "the temperature arguments are not updated in place (no augmented assignment to a parameter)", f.loc(), not hits,
              "for an array of temperatures this overwrites the caller's array, so the heat and the pressure computed from it refer to "
              "different temperatures: " + "; ".join(hits))
    # K3
    oc = analyse(repo, fc, cfg)
    oq = analyse(repo, fq, cfg)
    ck.analysed["paths"] += len(oc) + len(oq)
    if len(oc) != 1 or oc[0].kind != "return" or not oq or any(o.kind != "return" for o in oq):
        ck.ob("K3", fq.qualname, "specific heat is a single-path function and the cooling heat always returns", fq.loc(), False,
              "found %d / %d paths" % (len(oc), len(oq)))
        return
    cp = oc[0].value.r
    for oqi in oq:
        k3(ck, fq, fc, cp, oqi.value.r, " | ".join("%s=%s" % (poly.key_str(c), d) for c, d in oqi.trace))
    ck.exhaustive = True
    ck.assume("attrs converters float(value) on the constants are value-preserving")


def k3(ck, fq, fc, cp, E, label):
    ck = ck.scoped(label or "unconditional")
    tc = poly.T.sym(fc.params[1])
    t0 = poly.T.sym(fq.params[1])
    t1 = poly.T.sym(fq.params[2])
    a, b, c = (poly.T.sym("#ta"), poly.T.sym("#tb"), poly.T.sym("#tc"))
    A = lambda x, y: subst(E, {t0.id: Rat.atom(x), t1.id: Rat.atom(y)})

    def decide(what, detail, fn):
        """fn() -> (ok, expected, found); a form that cannot be differentiated / compared is an undischarged obligation"""
        try:
            okk, ex, fo = fn()
        except poly.Unmodelled as e:
            okk, ex, fo = False, None, "cannot be decided for this form of the cooling heat: %s" % e
        ck.ob("K3", fq.qualname, what, fq.loc(), okk, detail, expected=ex, found=fo, sample=True)

    decide("dE/dt0 == cp(t0)", "derivative with respect to the first limit is the specific heat",
           lambda: (diff(E, t0) == subst(cp, {tc.id: Rat.atom(t0)}), str(subst(cp, {tc.id: Rat.atom(t0)})), str(diff(E, t0))))
    decide("dE/dt1 == -cp(t1)", "derivative with respect to the second limit is minus the specific heat",
           lambda: (diff(E, t1) == -subst(cp, {tc.id: Rat.atom(t1)}), str(-subst(cp, {tc.id: Rat.atom(t1)})), str(diff(E, t1))))
    decide("E(t,t) == 0", "empty interval", lambda: (A(a, a).is_zero(), "0", str(A(a, a))))
    decide("E(a,b) + E(b,a) == 0", "antisymmetry", lambda: ((A(a, b) + A(b, a)).is_zero(), "0", str(A(a, b) + A(b, a))))
    decide("E(a,b) + E(b,c) == E(a,c)", "additivity", lambda: (A(a, b) + A(b, c) == A(a, c), "0", str(A(a, b) + A(b, c) - A(a, c))))
    ck.exhaustive = True
    ck.assume("attrs converters float(value) on the constants are value-preserving")
