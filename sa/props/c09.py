"""C09 — the flux->permeance inversion of a diffusion curve undoes the flux calculation (kinds T + A)."""
import itertools

from .. import poly
from ..poly import Rat, key_str
from ..evaluator import analyse
from ..procmodel import make_config, permeance_summary, KG, UNITS
from ..symeval import val_key
from ..values import *
from ..repo import AnalysisError, FuncInfo
from .c04 import canon_comp

EXPL = ("The forward driving-force function and DiffusionCurve.__attrs_post_init__ are both normalised, per permeate mode, over a "
        "common naming of the curve's fields; the inversion returns the permeances the fluxes were computed with iff the driving "
        "force (feed minus permeate partial pressure, as a function of the reported fluxes) is the same normal form on both sides, "
        "which is decided as a polynomial identity including the basis of the permeate composition. Flux construction from "
        "permeances, the unit of the exposed permeances on all paths (3x3 unit pairs) and the totality/exclusivity of the "
        "inverse's mode dispatch are decided on the same normal forms.")

DF = "Pervaporation.get_partial_fluxes_from_permeate_composition"
MODES = {"vac": ("none", "none"), "T": ("notnone", "none"), "p": ("none", "notnone"), "both": ("notnone", "notnone")}
INL = ("DiffusionCurve.permeate_composition",)


def run(ck):
    repo = ck.repo
    ck.explanation = EXPL
    ck.technique = "forward/inverse sibling comparison on normal forms; exhaustive mode and unit enumeration"
    ck.undecided("that the solver's returned permeate composition equals the composition of its fluxes exactly (C02 bounds it by the "
                 "precision); V1 is stated at the self-consistent point; rounding")
    DC = repo.find_class("DiffusionCurve")
    post = DC.methods.get("__attrs_post_init__")
    df = repo.find_function(DF)
    if post is None:
        raise AnalysisError("DiffusionCurve.__attrs_post_init__ not found")
    ck.analysed_function(post)
    ck.analysed_function(df)
    from ..purity import purity
    purity(ck, repo, [post, df, repo.find_function("Permeance.convert")])
    J = [Rat.sym("self.partial_fluxes[#b0][%d]" % i) for i in (0, 1)]
    from ..symeval import PAIR_PATHS
    PAIR_PATHS.add("self.partial_fluxes[#b0]")
    arms = 0
    for mode, (ft, fp), fbasis in [(m, MODES[m], b) for m in MODES for b in ("weight", "molar")]:
        facts = {"self.partial_fluxes": "notnone", "self.permeances": "none", "self.permeate_temperature": ft,
                 "self.permeate_pressure": fp, "self.feed_compositions[#b0].type": ("str", fbasis)}
        cfg = make_config(facts, extra_inline=INL, canon_arg=canon_comp)
        outs = analyse(repo, post, cfg)
        ck.analysed["paths"] += len(outs)
        sck = ck.scoped("curve from fluxes, mode=%s, feed basis=%s" % (mode, fbasis))
        if mode == "both":
            continue   # rejecting the double specification is C19's obligation, not a clause of C09
        ok1 = len(outs) == 1 and outs[0].kind == "return"
        sck.ob("V4", post.qualname, "mode %s is served by one non-raising arm" % mode, post.loc(), ok1,
               found=lambda: "; ".join(o.kind if o.kind == "return" else "raise %s at %s" % (o.exc.exc_type, o.exc.where) for o in outs))
        if not ok1:
            continue
        me = outs[0].env.get("self")
        perm = famify(me.fields.get("permeances")) if isinstance(me, ObjV) else None
        if not (isinstance(perm, ListV) and perm.kind == "fam" and isinstance(perm.elem, TupV) and len(perm.elem.items) == 2):
            sck.ob("V1", post.qualname, "permeances computed per curve point as a pair", post.loc(), False, found=repr(perm)[:200])
            continue
        arms += 1
        # forward, in the curve's naming, at the permeate composition of the reported fluxes
        fwd = forward(repo, df, mode, J, fbasis)
        for i in (0, 1):
            pe = perm.elem.items[i]
            un = pe.fields.get("units") if isinstance(pe, ObjV) else None
            sck.ob("V3", post.qualname, "computed permeance %d is exposed in kg/(m2 h kPa)" % (i + 1), post.loc(),
                   isinstance(un, StrV) and un.s == KG, found=repr(un))
            val = pe.fields.get("value") if isinstance(pe, ObjV) else None
            E = unclamp(val)
            if E is None or fwd is None:
                sck.ob("V1", post.qualname, "permeance %d = flux / driving force" % (i + 1), post.loc(), False,
                       found=repr(val)[:300])
                continue
            d_inv = J[i] / E
            Pi = Rat.sym("#P%d.value" % (i + 1), ("nonneg",))
            d_fwd = fwd[i] / Pi
            sck.ob("V1", post.qualname, "inversion uses the solver's driving force for component %d [%s]" % (i + 1, mode), post.loc(),
                   d_inv == d_fwd,
                   "flux/permeance on the inverse side must equal feed minus permeate partial pressure as used by the flux solver "
                   "(same partial pressures, same permeate composition, same basis)",
                   expected=lambda: str(d_fwd)[:500], found=lambda: str(d_inv)[:500], sample=True)
    ck.floor("inverse arms", arms, 6)
    # neither fluxes nor permeances
    # V2 / V3: permeances given
    n = 0
    for fl, (u1, u2) in itertools.product(("none", "notnone"), itertools.product(UNITS, UNITS)):
        facts = {"self.partial_fluxes": fl, "self.permeances": "notnone", "self.permeate_temperature": "none", "self.permeate_pressure": "none",
                 "self.permeances[#b0][0].units": ("str", u1), "self.permeances[#b0][1].units": ("str", u2),
                 "self.feed_compositions[#b0].type": ("str", "weight")}
        cfg = make_config(facts, extra_inline=INL, canon_arg=canon_comp)
        outs = analyse(repo, post, cfg)
        ck.analysed["paths"] += len(outs)
        sck = ck.scoped("permeances given in %s / %s, fluxes %s" % (u1, u2, "given" if fl == "notnone" else "None"))
        if len(outs) != 1 or outs[0].kind != "return":
            sck.ob("V3", post.qualname, "construction from permeances completes", post.loc(), False,
                   found=lambda: "; ".join(o.kind if o.kind == "return" else "raise %s at %s" % (o.exc.exc_type, o.exc.where) for o in outs))
            continue
        n += 1
        me = outs[0].env.get("self")
        perm = famify(me.fields.get("permeances"))
        ok = isinstance(perm, ListV) and perm.kind == "fam" and isinstance(perm.elem, TupV) and len(perm.elem.items) == 2
        sck.ob("V3", post.qualname, "permeances re-built per curve point", post.loc(), ok, found=repr(perm)[:200])
        if not ok:
            continue
        vals = []
        for i, (u, c) in enumerate(((u1, "first"), (u2, "second"))):
            pe = perm.elem.items[i]
            want = oracle_curve(repo, post, facts, "self.permeances[i][%d].convert(to_units=Units.kg_m2_h_kPa, component=self.mixture.%s_component)" % (i, c))
            un = pe.fields.get("units") if isinstance(pe, ObjV) and pe.constructed else (StrV(u) if isinstance(pe, ObjV) else None)
            sck.ob("V3", post.qualname, "exposed permeance %d is in kg/(m2 h kPa)" % (i + 1), post.loc(),
                   isinstance(un, StrV) and un.s == KG, found=repr(un))
            got = value_of(pe)
            wv = value_of(want)
            sck.ob("V3", post.qualname, "exposed permeance %d is the supplied one converted with its own component" % (i + 1), post.loc(),
                   got is not None and wv is not None and got == wv, expected=lambda: str(wv), found=lambda: str(got))
            vals.append(got)
        if fl == "none":
            fluxes = famify(me.fields.get("partial_fluxes"))
            okf = isinstance(fluxes, ListV) and fluxes.kind == "fam" and isinstance(fluxes.elem, TupV) and len(fluxes.elem.items) == 2
            sck.ob("V2", post.qualname, "fluxes computed per curve point", post.loc(), okf, found=repr(fluxes)[:200])
            if okf:
                for i in (0, 1):
                    pf = oracle_curve(repo, post, facts, "get_partial_pressures(self.feed_temperature, self.mixture, self.feed_compositions[i])[%d]" % i)
                    got = fluxes.elem.items[i]
                    sck.ob("V2", post.qualname, "flux %d == converted permeance %d * feed partial pressure %d" % (i + 1, i + 1, i + 1), post.loc(),
                           isinstance(got, Num) and vals[i] is not None and got.r == vals[i] * pf.r,
                           expected=lambda: str(vals[i] * pf.r)[:400], found=lambda: str(got.r)[:400] if isinstance(got, Num) else repr(got))
    ck.floor("constructions from permeances", n, 18)
    ck.exhaustive = True
    ck.assume("the curve carries no activity-model field: the inverse is compared with the forward law under the default model (the "
              "model mismatch for a non-default model is reported once, under C08-F3)")


def unclamp(val):
    """E such that val == clamp(E) (Permeance converter), or val itself when it is already non-negative by form."""
    if not isinstance(val, Num):
        return None
    a = val.r.single_atom()
    if a is not None and a.kind == "fn" and a.name == "ite":
        (op, l, r), ta, fb = a.args
        if fb.is_zero():
            return ta
        if ta.is_zero():
            return fb
    if a is not None and a.kind == "fn" and a.name == "max" and len(a.args) == 2 and any(z.is_zero() for z in a.args):
        return a.args[0] if a.args[1].is_zero() else a.args[1]
    return val.r


def value_of(pe):
    if isinstance(pe, ObjV):
        v = pe.fields.get("value")
        if isinstance(v, Num):
            return unclamp(v)
        if pe.path is not None:
            return Rat.sym(pe.path + ".value", ("nonneg",))
    return None


def forward(repo, df, mode, J, fbasis="weight"):
    ft, fp = MODES[mode]
    facts = {"permeate_temperature": ft, "permeate_pressure": fp}
    cfg = make_config(facts, canon_arg=canon_comp)
    DFcls = df.cls
    Comp = repo.find_class("Composition")
    Perm = repo.find_class("Permeance")

    def setup(ev):
        me = ObjV(DFcls, path="self")
        ov = {
            "self": me,
            "first_component_permeance": ObjV(Perm, path="#P1"),
            "second_component_permeance": ObjV(Perm, path="#P2"),
            "permeate_composition": ObjV(Comp, {"p": Num(J[0] / (J[0] + J[1])), "type": StrV("weight")}),
            "feed_composition": ObjV(Comp, path="self.feed_compositions[#b0]"),
            "feed_temperature": Num(Rat.sym("self.feed_temperature")),
            "permeate_temperature": Num(Rat.sym("self.permeate_temperature")) if ft == "notnone" else NONE,
            "permeate_pressure": Num(Rat.sym("self.permeate_pressure")) if fp == "notnone" else NONE,
            "calculation_type": StrV("NRTL"),
        }
        ev.ctx.facts["self.feed_compositions[#b0].type"] = ("str", fbasis)
        return ov

    outs = analyse(repo, df, cfg, setup=setup)
    if len(outs) != 1 or outs[0].kind != "return":
        return None
    v = outs[0].value
    if isinstance(v, TupV) and len(v.items) == 2 and all(isinstance(i, Num) for i in v.items):
        return [v.items[0].r, v.items[1].r]
    return None


def oracle_curve(repo, post, facts, src):
    import ast
    from ..evaluator import Evaluator
    from ..symeval import Ctx
    from ..interp import Frame
    cfg = make_config(dict(facts), extra_inline=INL, canon_arg=canon_comp)
    ctx = Ctx(repo, cfg, [])
    ev = Evaluator(ctx)
    env = {"self": ObjV(post.cls, path="self"), "i": Num(Rat.atom(poly.T.sym("#b0", ("int", "nonneg", "bound"))))}
    return ev.eval(ast.parse(src, mode="eval").body, Frame(post, post.module, env, post.cls))
