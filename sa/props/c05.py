"""C05 — non-ideal models follow the fitted permeance functions they return (kinds S + T + A)."""
import ast

from .. import poly
from ..poly import Rat, key_equiv, key_str, mk_log
from ..evaluator import analyse, Evaluator
from ..symeval import Ctx, val_key, RaiseSignal
from ..interp import Frame
from ..procmodel import (process_functions, configurations, make_config, permeance_summary, PM, is_non_ideal, param_of_type,
                         returns_constructor_of, KG)
from ..values import *
from ..repo import AnalysisError, FuncInfo
from .c01 import comp_p, comp_type, num
from .c09 import unclamp

EXPL = ("The three non-ideal generators (two process models, one curve model; found by shape) are evaluated with the fitted "
        "function objects kept symbolic (find_best_fit is an uninterpreted function of its data and orders; calling a fitted "
        "function is inlined so that alpha*exp(sum a_i x^(i+1) - sum b_i x^i / T) appears in the normal forms). Decided as identities: "
        "the permeance pair appended for step k+1 equals the returned fit evaluated at the stated composition and temperature times "
        "(initial permeance / fit at the initial state), with the initial state in mass fractions; factor 1 without initial "
        "permeances; each flux call receives the permeances of its own step; provenance of each returned fit (component's own "
        "measurements, component index, orders); single-curve Arrhenius re-scaling in the log domain.")

FIT = "find_best_fit"
INL = ("PervaporationFunction.__call__", "PervaporationFunction.__mul__")


def fit_summary(ev, func, res, bound):
    res = permeance_summary(ev, func, res, bound)
    if func.qualname == FIT and isinstance(res, ObjV):
        # assumption: fitted permeance functions are positive (Permeance clips negative values to 0)
        res.fields["alpha"] = Num(Rat.atom(poly.T.app("fn", "attr", (Rat.atom(res.parent), "alpha"), flags=("nonneg", "pos"))))
        m = bound.get("m")
        if isinstance(m, Num) and m.r.as_int() == 0:
            # from_array: b = array[n+1:], len(array) == 2+n+m  =>  with m = 0 the list b has exactly one element
            b0 = poly.T.app("fn", "idx", (Rat.atom(poly.T.app("fn", "attr", (Rat.atom(res.parent), "b"))), Rat.const(0)))
            res.fields["b"] = ListV("lit", items=[Num(Rat.atom(b0))])
    return res


def generators(repo):
    out = []
    from ..symeval import is_new_function
    for f in repo.all_functions():
        if f.cls is None or not is_non_ideal(repo, f) or is_new_function(f):
            continue   # (a private driver extracted from the generators is part of them, not a generator of its own)
        if returns_constructor_of(repo, f, "ProcessModel") or returns_constructor_of(repo, f, "DiffusionCurve"):
            out.append(f)
    return out


def curve_configs(repo, func):
    for basis in ("weight", "molar"):
        for mode, (ft, fp) in (("vac", ("none", "none")), ("T", ("notnone", "none")), ("p", ("none", "notnone"))):
            for init, us in (("none", None), ("notnone", (KG, KG)), ("notnone", ("SI", "GPU"))):
                facts = {"initial_feed_composition.type": ("str", basis), "permeate_temperature": ft, "permeate_pressure": fp,
                         "initial_permeances": init, "precision": "notnone", "calculation_type": "notnone"}
                if us:
                    facts["initial_permeances[0].units"] = ("str", us[0])
                    facts["initial_permeances[1].units"] = ("str", us[1])
                for p in func.params:
                    if p.startswith(("n_", "m_")):
                        facts[p] = "notnone"
                yield "basis=%s mode=%s initial_permeances=%s%s" % (basis, mode, "given" if init == "notnone" else "None",
                                                                   (" units=%s/%s" % us) if us else ""), facts, \
                    {"basis": basis, "mode": mode, "initial_permeances": init, "units": us}


def call_fit(repo, cfg, facts, fit: Val, x: Rat, t: Rat):
    ctx = Ctx(repo, cfg, [])
    ctx.facts.update(facts)
    ev = Evaluator(ctx)
    fr = Frame(None, next(iter(repo.modules.values())), {})
    node = ast.parse("f(x, t)", mode="eval").body
    return ev.call_function(fit, [Num(x), Num(t)], {}, fr, node)


def run(ck):
    repo = ck.repo
    ck.explanation = EXPL
    ck.technique = "series model with symbolic fit objects; polynomial / log-domain identities; call-record provenance"
    ck.undecided("what the optimiser returns (library numerics); negative fit values are clipped to 0 by Permeance (stated as assumption)")
    gens = generators(repo)
    ck.floor("non-ideal generators", len(gens), 3)
    from ..purity import purity
    purity(ck, repo, gens + [repo.find_function("find_best_fit"), repo.find_function("PervaporationFunction.__call__"), repo.find_function("PervaporationFunction.__mul__")])
    for func in gens:
        ck.analysed_function(func)
        is_curve = returns_constructor_of(repo, func, "DiffusionCurve")
        confs = curve_configs(repo, func) if is_curve else configurations(repo, func, ck.tier)
        n = 0
        for label, facts, meta in confs:
            cfg = make_config(facts, extra_inline=INL, ret_summary=fit_summary)
            outs = analyse(repo, func, cfg, max_paths=2048)
            for o in outs:
                from ..procmodel import is_admissibility_exit
                if is_admissibility_exit(o):
                    continue
                if o.kind != "return":
                    ck.ob("N0", func.qualname, "model completes", o.exc.where or func.loc(), False,
                          "raises %s: %s" % (o.exc.exc_type, o.exc.msg), config=label)
                    continue
                n += 1
                pm = PM(repo, func, label, meta, o)
                check_path(ck.scoped(pm.path_label), repo, cfg, pm, is_curve)
        ck.analysed["paths"] += n
        ck.floor("evaluated paths of %s" % func.qualname, n, 12)
    check_measurements(ck, repo)
    ck.exhaustive = True
    ck.assume("find_best_fit is an uninterpreted function of (measurements, orders, component index, include_zero); its own selection logic is C16")
    ck.assume("fitted permeance functions are positive (alpha > 0); negative values would be clipped to 0 by Permeance")
    ck.assume("with m = 0 a fitted function has exactly one temperature coefficient (from_array slicing, C16-P4)")


def fits_of(pm: PM, is_curve):
    """(fit1, fit2) objects used by the model: the returned permeance_fits, or for the curve model the objects called in the loop."""
    if not is_curve:
        pf = pm.field("permeance_fits")
        if isinstance(pf, TupV) and len(pf.items) == 2:
            return pf.items
        return None
    objs = []
    for c in pm.out.calls:
        if isinstance(c.callee, FuncInfo) and c.callee.qualname == "PervaporationFunction.__call__" and c.in_loop:
            s = c.bound.get("self")
            if not any(s is x for x in objs):
                objs.append(s)
    return objs if len(objs) == 2 else None


def check_path(ck, repo, cfg, pm: PM, is_curve):
    f = pm.func
    fq = f.qualname
    where = f.loc(pm.loop.node) if pm.loop else f.loc()
    facts = pm.out.facts
    fits = fits_of(pm, is_curve)
    if fits is None:
        ck.ob("N1", fq, "the model returns / uses one fitted function per component", where, False,
              found=repr(pm.field("permeance_fits"))[:200])
        return
    # series and state
    P = pm.series("permeances")
    X = pm.series("feed_compositions")
    if P is None or X is None or len(P.per_iter) != 1 or len(P.init) != 1 or len(X.init) != 1:
        ck.ob("N2", fq, "permeances and compositions are state series with one initial element", where, False,
              found="%r / %r" % (pm.field("permeances"), pm.field("feed_compositions")))
        return
    Ts = pm.field("feed_temperature")
    if isinstance(Ts, ListV) and Ts.kind == "series":
        T0 = num(Ts.init[0])
        T_next = num(Ts.per_iter[0])
        iso = False
    elif isinstance(Ts, ListV) and Ts.kind == "rep":
        T0 = T_next = num(Ts.elem)
        iso = True
    elif isinstance(Ts, Num):          # curve model: one feed temperature
        T0 = T_next = Ts.r
        iso = True
    else:
        ck.ob("N2", fq, "feed temperature available", where, False, found=repr(Ts)[:200])
        return
    x0 = comp_p(X.init[0])
    x0_type = comp_type(pm, X.init[0])
    xk = comp_p(X.elem_k) if X.elem_k is not None else None
    x1 = comp_p(X.per_iter[0])
    P0 = P.init[0]
    Pn = P.per_iter[0]
    if not (isinstance(P0, TupV) and isinstance(Pn, TupV) and len(P0.items) == 2 and len(Pn.items) == 2):
        ck.ob("N2", fq, "permeance elements are pairs", where, False)
        return
    ck.ob("N3", fq, "initial state of the fits is a mass fraction", where, x0_type == "weight", found=str(x0_type))
    for i in (0, 1):
        comp = "first" if i == 0 else "second"
        try:
            F0 = call_fit(repo, cfg, facts, fits[i], x0, T0)
        except (RaiseSignal, poly.Unmodelled) as e:
            ck.ob("N2", fq, "fit %d can be evaluated" % (i + 1), where, False, str(e)[:300])
            continue
        p0v = perm_value(pm, P0.items[i])
        init_given = facts.get("initial_permeances") == "notnone"
        if not init_given:
            ck.ob("N3", fq, "without initial permeances step 0 uses the fit itself (factor 1), component %d" % (i + 1), where,
                  p0v is not None and unclamp_r(p0v) == F0.r,
                  "permeances[0] must be the returned fit evaluated at the initial mass fraction and temperature",
                  expected=lambda: str(F0.r)[:400], found=lambda: str(p0v)[:400])
        else:
            want = "initial_permeances[%d].convert(to_units=Units.kg_m2_h_kPa, component=self.mixture.%s_component)" % (i, comp)
            from ..procmodel import oracle
            w = oracle(pm, want)
            ck.ob("N3", fq, "step 0 reproduces the supplied initial permeance %d (converted to kg units)" % (i + 1), where,
                  key_equiv(val_key(w), val_key(P0.items[i])), expected=lambda: key_str(val_key(w))[:300],
                  found=lambda: key_str(val_key(P0.items[i]))[:300])
        # per-step use
        cands = []
        if x1 is not None:
            cands.append(("composition of step k+1", x1))
        if iso and not is_curve and xk is not None:
            cands.append(("composition of step k (isothermal model)", xk))
        got = perm_value(pm, Pn.items[i])
        okk = False
        wants = []
        if got is not None and p0v is not None:
            for nm, xx in cands:
                Fx = call_fit(repo, cfg, facts, fits[i], xx, T_next)
                want = Fx.r * unclamp_r(p0v) / F0.r
                wants.append((nm, want))
                if unclamp_r(got) == want:
                    okk = True
        ck.ob("N2", fq, "permeance %d of step k+1 == returned fit(composition, temperature of step k+1) * (initial permeance / fit at the initial state)" % (i + 1),
              where, okk, "the factor must be constant over the run and be fixed by step 0",
              expected=lambda: "; ".join("%s: %s" % (nm, str(w)[:300]) for nm, w in wants), found=lambda: str(got)[:400], sample=True)
        un = Pn.items[i].fields.get("units") if isinstance(Pn.items[i], ObjV) else None
        ck.ob("N2", fq, "permeance %d of step k+1 is in kg/(m2 h kPa)" % (i + 1), where, isinstance(un, StrV) and un.s == KG, found=repr(un))
    # flux call receives the permeances of its own step
    for c in pm.solver_calls():
        for i, p in enumerate(("first_component_permeance", "second_component_permeance")):
            a = c.bound.get(p)
            want = P.elem_k.items[i] if isinstance(P.elem_k, TupV) else None
            ck.ob("N2", fq, "flux call of step k uses permeances[k][%d]" % i, c.where, want is not None and a is want, found=repr(a)[:200])
    check_provenance(ck, repo, cfg, pm, fits, is_curve)


def perm_value(pm, pe):
    if isinstance(pe, ObjV):
        v = pe.fields.get("value")
        if isinstance(v, Num):
            return v.r
        if pe.path is not None:
            return Rat.sym(pe.path + ".value", ("nonneg",))
        if pe.parent is not None:
            return Rat.atom(poly.T.app("fn", "attr", (Rat.atom(pe.parent), "value"), flags=("nonneg",)))
    return None


def unclamp_r(r: Rat) -> Rat:
    return unclamp(Num(r))


def check_provenance(ck, repo, cfg, pm: PM, fits, is_curve):
    f = pm.func
    fq = f.qualname
    cs = param_of_type(repo, f, "DiffusionCurveSet")
    recs = [c for c in pm.out.calls if isinstance(c.callee, FuncInfo) and c.callee.qualname == FIT]
    ck.ob("N1", fq, "exactly one best-fit search per component", f.loc(), len(recs) == 2, "found %d calls of find_best_fit" % len(recs))
    if len(recs) != 2:
        return
    from ..symeval import signs_on_path
    ncurves = Rat.sym("len(%s.diffusion_curves)" % cs, ("nonneg", "int"))
    single = signs_on_path(pm.out.trace, ncurves - 1) == {0}
    for i, c in enumerate(recs):
        comp = "first" if i == 0 else "second"
        data = c.bound.get("data")
        ok = False
        if isinstance(data, ObjV) and data.parent is not None and data.parent.kind == "ucall":
            a = data.parent
            ok = a.name == "Measurements.from_diffusion_curves_%s" % comp and any(
                isinstance(k, tuple) and k[:1] == ("obj",) and k[-1] == cs for k in a.args)
        ck.ob("N1", fq, "fit %d is searched on the %s component's measurements of the supplied curve set" % (i + 1, comp), c.where, ok,
              found=repr(data)[:200])
        ci = c.bound.get("component_index")
        ck.ob("N1", fq, "fit %d is searched with component index %d" % (i + 1, i), c.where, isinstance(ci, Num) and ci.r.as_int() == i, found=repr(ci))
        nn = c.bound.get("n")
        ck.ob("N1", fq, "fit %d uses the caller's composition order n_%s" % (i + 1, comp), c.where,
              isinstance(nn, Num) and nn.r == Rat.sym("n_%s" % comp), found=repr(nn))
        mm = c.bound.get("m")
        if single:
            ck.ob("N1", fq, "single curve: fit %d has no temperature polynomial (m = 0)" % (i + 1), c.where,
                  isinstance(mm, Num) and mm.r.is_zero(), found=repr(mm))
        else:
            ck.ob("N1", fq, "fit %d uses the caller's temperature order m_%s" % (i + 1, comp), c.where,
                  isinstance(mm, Num) and mm.r == Rat.sym("m_%s" % comp), found=repr(mm))
        # the function used/returned for component i derives from this search
        res = c.result
        used = fits[i]
        same = used is res
        scaled = False
        if not same and isinstance(used, ObjV) and used.constructed and isinstance(res, ObjV):
            # Arrhenius re-scaled copy: shares a and b with the search result
            scaled = used.fields.get("a") is res.fields.get("a") or key_equiv(val_key(used.fields.get("a")), val_key(res.fields.get("a")))
        ck.ob("N1", fq, "the function of component %d is the result of its own best-fit search" % (i + 1), c.where, same or scaled,
              found=repr(used)[:200])
        if single and isinstance(res, ObjV) and res.parent is not None:
            check_arrhenius(ck, repo, cfg, pm, i, res, used, c, is_curve)


def check_arrhenius(ck, repo, cfg, pm, i, raw, used, rec, is_curve=False):
    f = pm.func
    comp = "first" if i == 0 else "second"
    x, T = Rat.sym("#x", ("nonneg",)), Rat.sym("#T", ("nonneg", "pos"))
    cs = param_of_type(repo, f, "DiffusionCurveSet")
    Tc = Rat.sym("%s.diffusion_curves[0].feed_temperature" % cs)
    # temperatures at which the model evaluates the fit: any T for a non-isothermal model, the (initial) feed temperature otherwise
    Ts = pm.field("feed_temperature")
    varying = isinstance(Ts, ListV) and Ts.kind == "series"
    if not varying:
        T0 = Ts.elem.r if isinstance(Ts, ListV) and Ts.kind == "rep" and isinstance(Ts.elem, Num) else (Ts.r if isinstance(Ts, Num) else None)
        if T0 is None:
            return
        T = T0
        # on the path where the curve temperature was found equal to the modelling temperature the two are one atom
        from ..symeval import signs_on_path
        if signs_on_path(pm.out.trace, Tc - T0) == {0}:
            Tc = T0
    from ..procmodel import oracle
    Ea = oracle(pm, "self.membrane.calculate_activation_energy(self.mixture.%s_component)" % comp).r
    R = oracle(pm, "R").r
    # the raw fit as it was before the in-place store of b[0]: rebuild from the search result's atoms
    raw_b0 = Rat.atom(poly.T.app("fn", "idx", (Rat.atom(poly.T.app("fn", "attr", (Rat.atom(raw.parent), "b"))), Rat.const(0))))
    alpha = Rat.atom(poly.T.app("fn", "attr", (Rat.atom(raw.parent), "alpha")))
    try:
        Fu = call_fit(repo, cfg, pm.out.facts, used, x, T).r
    except (RaiseSignal, poly.Unmodelled) as e:
        ck.ob("N4", f.qualname, "re-scaled fit %d can be evaluated" % (i + 1), rec.where, False, str(e)[:200])
        return
    # ln F'(x,T) - ln F(x,Tc), with F(x,Tc) = alpha*exp(S_a(x) - b0/Tc): S_a cancels if F' kept the a-coefficients
    lhs = mk_log(Fu) - (mk_log(alpha) - raw_b0 / Tc)
    # S_a(x): the part of ln F' that depends on x
    want = -Ea / R * (1 / T - 1 / Tc)
    resid = lhs - want
    # resid must be exactly the composition polynomial S_a(x) of the search result (independent of T, Tc, Ea, b0)
    tnames = {a.name for a in (T.single_atom(), Tc.single_atom()) if a is not None}
    bad = [poly.T.get(j).name for j in resid.deps() if poly.T.get(j).kind == "sym" and poly.T.get(j).name in tnames]
    dep_ea = any(j in Ea.deps() for j in resid.deps()) or raw_b0.single_atom().id in resid.deps()
    ck.ob("N4", f.qualname, "single curve: fit %d at temperature T equals the fit at the curve temperature times exp(-Ea/R (1/T - 1/Tc))" % (i + 1),
          rec.where, not bad and not dep_ea,
          "ln f'(x,T) - ln f(x,Tc) must be -Ea_%d/R * (1/T - 1/Tc) with the membrane's activation energy of that component" % (i + 1),
          found=lambda: "residual: %s" % str(resid)[:400], sample=True)


def check_measurements(ck, repo):
    """from_diffusion_curve_<first|second> read permeances[j][0|1] and the feed mass fraction; the set-level constructors use them."""
    for i, comp in enumerate(("first", "second")):
        f = repo.find_function("Measurements.from_diffusion_curve_%s" % comp)
        ck.analysed_function(f)
        cfg = make_config({"curve.permeances": "notnone"}, extra_inline=("DiffusionCurve.__len__",))
        outs = analyse(repo, f, cfg)
        ok = bool(outs)
        found = ""
        okxs = []
        for o in outs:
            oko = False
            if o.kind == "return" and isinstance(o.value, ObjV):
                d = famify(o.value.fields.get("data"))
                if isinstance(d, ListV) and d.kind == "fam" and isinstance(d.elem, ObjV):
                    p = d.elem.fields.get("p")
                    t = d.elem.fields.get("t")
                    found = "p=%r t=%r" % (p, t)
                    oko = isinstance(p, Num) and p.r.single_atom() is not None and \
                        p.r.single_atom().name == "curve.permeances[#b0][%d].value" % i and \
                        isinstance(t, Num) and t.r == Rat.sym("curve.feed_temperature")
                    # ... paired with the mass fraction of the SAME point j, for every point of the curve
                    x = d.elem.fields.get("x")
                    pj = Rat.sym("curve.feed_compositions[#b0].p")
                    M1, M2 = (Rat.sym("curve.mixture.%s_component.molecular_weight" % c) for c in ("first", "second"))
                    is_weight = [dd for cn, dd in o.trace if isinstance(cn, tuple) and cn[0] == "streq" and
                                 cn[1] == "curve.feed_compositions[#b0].type" and cn[2] == "weight"]
                    want = pj if (is_weight and is_weight[0]) else (pj * M1 / (pj * M1 + (1 - pj) * M2) if is_weight else None)
                    okx = isinstance(x, Num) and want is not None and x.r == want
                    okn = d.lo == Rat.const(0) and d.hi in (Rat.sym("len(curve.feed_compositions)", ("nonneg", "int")),
                                                            Rat.sym("len(curve.permeances)", ("nonneg", "int")))
                    found += " x=%r range=[%s, %s)" % (x, d.lo, d.hi)
                    okxs.append(okx and okn)
            ok = ok and oko
        ck.ob("N1", f.qualname, "measurement j of component %d carries permeances[j][%d].value at the curve's temperature" % (i + 1, i), f.loc(), ok,
              found=found[:300])
        ck.ob("N1", f.qualname, "measurement j of component %d pairs that permeance with the feed mass fraction of the same point j, for every "
              "point of the curve" % (i + 1), f.loc(), bool(okxs) and all(okxs) and len(okxs) == len(outs),
              "a composition list that is filtered, sorted or shifted on one side only pairs permeances with other points' compositions",
              found=found[:400])
        g = repo.find_function("Measurements.from_diffusion_curves_%s" % comp)
        ck.analysed_function(g)
        # every reference (call or function value handed to a helper) to a per-curve extractor inside the set-level constructor
        refs = sorted({n.attr for n in ast.walk(g.node) if isinstance(n, ast.Attribute) and n.attr.startswith("from_diffusion_curve_")} |
                      {n.id for n in ast.walk(g.node) if isinstance(n, ast.Name) and n.id.startswith("from_diffusion_curve_")})
        other = "second" if comp == "first" else "first"
        ck.ob("N1", g.qualname, "set-level measurements of component %d are built from from_diffusion_curve_%s" % (i + 1, comp), g.loc(),
              ("from_diffusion_curve_%s" % comp) in refs and ("from_diffusion_curve_%s" % other) not in refs, found=", ".join(refs))
