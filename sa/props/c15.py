"""C15 — mole/mass conversion is a consistent bijection (kind A + who-may-write)."""
import ast

from .. import poly
from ..poly import Rat, diff, subst, is_nonneg
from ..evaluator import analyse, Config
from ..values import Num, ObjV, StrV
from ..repo import AnalysisError, FuncInfo
from ..structural import attribute_writes

EXPL = ("Composition.to_molar / to_weight are normalised to rational functions of p, M1, M2 (uninterpreted atoms); "
        "round trip, end points, first+second=1, the mole-ratio law and strict monotonicity (derivative = positive "
        "monomial over a square of a form that is positive on [0,1]) are decided as polynomial identities; the "
        "identity arms, the [0,1] validator (every accepting path implies 0 <= p <= 1 over the reals) "
        "and the absence of any assignment to Composition.p are decided structurally.")


def arm(outs, path, want):
    sel = [o for o in outs if any(c == ("streq", path, want[0]) and d == want[1] for c, d in o.trace)]
    return sel


def run(ck):
    repo = ck.repo
    ck.explanation = EXPL
    ck.technique = "rational normal forms, substitution, syntactic derivative; who-may-write scan"
    ck.undecided("behaviour within 1e-12 of 0 and 1 in floating point (identities are over the reals): a re-association that is exact "
                 "over the reals but cancels in floats, e.g. first share = 1 - second share, is not reported (seeded_limits/C15-K)")
    cfg = Config(inline=lambda f: f.qualname in ("Composition.first", "Composition.second"),
                 str_domains={"self.type": ("molar", "weight")})
    C = repo.find_class("Composition")
    fm = repo.find_function("Composition.to_molar")
    fw = repo.find_function("Composition.to_weight")
    for f in (fm, fw):
        ck.analysed_function(f)
    from ..purity import purity
    purity(ck, repo, [fm, fw, repo.find_function("Composition.first"), repo.find_function("Composition.second")])
    om = analyse(repo, fm, cfg)
    ow = analyse(repo, fw, cfg)
    ck.analysed["paths"] += len(om) + len(ow)

    def split(outs, own, func):
        ident = [o for o in outs if o.facts.get("self.type") == ("str", own)]
        conv = [o for o in outs if o.facts.get("self.type") != ("str", own)]
        ck.ob("I1", func.qualname, "identity arm", func.loc(),
              len(ident) == 1 and ident[0].kind == "return" and isinstance(ident[0].value, ObjV) and ident[0].value.path == "self",
              "a composition already in basis %r must be returned unchanged" % own)
        ok = len(conv) == 1 and conv[0].kind == "return" and isinstance(conv[0].value, ObjV) and conv[0].value.constructed \
            and conv[0].value.cls.name == "Composition"
        ck.ob("I2", func.qualname, "conversion arm", func.loc(), ok, "exactly one converting path returning a new Composition")
        if not ok:
            return None
        v = conv[0].value
        t = v.fields.get("type")
        ck.ob("I3", func.qualname, "result basis", func.loc(), isinstance(t, StrV) and t.s == own,
              "converted composition must be labelled %r" % own, found=repr(t))
        p = v.fields.get("p")
        if not isinstance(p, Num):
            raise AnalysisError("non-numeric p in %s" % func.qualname)
        return p.r

    m = split(om, "molar", fm)
    w = split(ow, "weight", fw)
    ck.floor("conversion formulas", (m is not None) + (w is not None), 0)
    if m is None or w is None:
        return
    p = poly.T.sym("self.p")
    M1 = poly.T.sym("mixture.first_component.molecular_weight")
    M2 = poly.T.sym("mixture.second_component.molecular_weight")
    P, m1, m2 = Rat.atom(p), Rat.atom(M1), Rat.atom(M2)
    for r, name in ((m, "to_molar"), (w, "to_weight")):
        extra = r.deps() - {p.id, M1.id, M2.id}
        ck.ob("A0", "Composition." + name, "formula depends only on p, M1, M2", (fm if name == "to_molar" else fw).loc(),
              not extra, "unexpected inputs: %s" % [poly.T.get(i).name for i in extra])
    S = lambda f, x: subst(f, {p.id: x})
    ck.ob("A1", fw.qualname, "to_weight(to_molar(p)) == p", fw.loc(), S(w, m) == P, "round trip mass->mole->mass",
          expected=str(P), found=str(S(w, m)), sample=True)
    ck.ob("A1", fm.qualname, "to_molar(to_weight(p)) == p", fm.loc(), S(m, w) == P, "round trip mole->mass->mole",
          expected=str(P), found=str(S(m, w)))
    for f, fn, nm in ((m, fm, "to_molar"), (w, fw, "to_weight")):
        ck.ob("A2", fn.qualname, "fixes 0", fn.loc(), S(f, Rat.const(0)).is_zero(), found=str(S(f, Rat.const(0))))
        ck.ob("A2", fn.qualname, "fixes 1", fn.loc(), S(f, Rat.const(1)) == Rat.const(1), found=str(S(f, Rat.const(1))))
    ck.ob("A3", fm.qualname, "mole ratio == mass ratio * M2/M1", fm.loc(), m / (1 - m) == P / (1 - P) * m2 / m1,
          expected=str(P / (1 - P) * m2 / m1), found=str(m / (1 - m)), sample=True)
    ck.ob("A3", fw.qualname, "mass ratio == mole ratio * M1/M2", fw.loc(), w / (1 - w) == P / (1 - P) * m1 / m2,
          expected=str(P / (1 - P) * m1 / m2), found=str(w / (1 - w)))
    # monotonicity
    def monomial_sign(e):
        """+1 / -1 if e is a non-zero monomial in positive atoms, else 0."""
        if e.is_zero() or len(e.num.t) != 1 or e.df:
            return 0
        if not all("pos" in poly.T.get(i).flags for i in e.atom_ids()):
            return 0
        (c1,) = e.num.t.values()
        return 1 if c1 > 0 else -1

    for f, fn in ((m, fm), (w, fw)):
        D = Rat(f.den)
        try:
            d = diff(f, p) * D * D
        except poly.Unmodelled as e:
            ck.ob("A4", fn.qualname, "strictly increasing", fn.loc(), False, "the derivative cannot be formed for this formula: %s" % e)
            continue
        cand = S(d, Rat.const(0))          # if d*D^2 is a monomial free of p it equals its value at p = 0
        pos_mono = monomial_sign(cand) == 1 and d == cand
        lin = all(dict(mn).get(p.id, 0) <= 1 for mn in f.den.t)
        e0, e1 = S(D, Rat.const(0)), S(D, Rat.const(1))
        endpos = monomial_sign(e0) != 0 and monomial_sign(e0) == monomial_sign(e1)
        ck.ob("A4", fn.qualname, "strictly increasing", fn.loc(), pos_mono and lin and endpos,
              "d/dp * den^2 must be a positive monomial in M1, M2; den linear in p with the same sign at p=0 and p=1",
              found="d*den^2 = %s; den(0) = %s; den(1) = %s" % (cand if pos_mono else d, e0, e1))
    # first + second == 1
    ff, fs = repo.find_function("Composition.first"), repo.find_function("Composition.second")
    o1, o2 = analyse(repo, ff, cfg), analyse(repo, fs, cfg)
    ok = len(o1) == 1 and len(o2) == 1 and isinstance(o1[0].value, Num) and isinstance(o2[0].value, Num)
    ck.ob("A5", "Composition.second", "first + second == 1", fs.loc(),
          ok and (o1[0].value.r + o2[0].value.r) == Rat.const(1) and o1[0].value.r == P,
          found=str(o1[0].value.r + o2[0].value.r) if ok else "non-numeric")
    # validator
    fld = C.field("p")
    vok = False
    detail = "field p of Composition has no validator"
    if fld is not None and fld.validator is not None:
        r = repo.resolve(C.module, ast.unparse(fld.validator))
        if isinstance(r, FuncInfo):
            ck.analysed_function(r)
            outs = analyse(repo, r, Config())
            ck.analysed["paths"] += len(outs)
            val = poly.T.sym(r.params[-1])
            passing = [o for o in outs if o.kind == "return"]
            need = [("le", Rat.const(0), Rat.atom(val)), ("le", Rat.atom(val), Rat.const(1))]

            def implies(o):
                got = []
                NEG = {"lt": "ge", "ge": "lt", "gt": "le", "le": "gt"}
                for c, d in o.trace:
                    if isinstance(c, tuple) and c and c[0] == "not":
                        c, d = c[1], not d
                    if not d:
                        if isinstance(c, tuple) and len(c) == 3 and c[0] in NEG:
                            c = (NEG[c[0]], c[1], c[2])   # over the reals: not (a < b)  ==  a >= b
                        else:
                            continue
                    got.append(c)
                def has(n):
                    for c in got:
                        if isinstance(c, tuple) and len(c) == 3 and isinstance(c[1], Rat):
                            if c[0] == n[0] and c[1] == n[1] and c[2] == n[2]:
                                return True
                            flip = {"le": "ge", "ge": "le", "lt": "gt", "gt": "lt"}
                            if flip.get(c[0]) == n[0] and c[1] == n[2] and c[2] == n[1]:
                                return True
                    return False
                return all(has(n) for n in need)
            vok = bool(passing) and all(implies(o) for o in passing) and any(o.kind == "raise" for o in outs)
            detail = "every accepting path of %s must establish 0 <= value and value <= 1" % r.qualname

            def rejects_nan(o):
                """A comparison with NaN is never true: an accepting path on which some comparison involving the value came out
                TRUE (as written, an even number of `not`s around it) cannot be taken by NaN."""
                for c, d in o.trace:
                    neg = False
                    while isinstance(c, tuple) and c and c[0] == "not":
                        c, neg = c[1], not neg
                    if isinstance(c, tuple) and len(c) == 3 and c[0] in ("lt", "le", "gt", "ge", "eq") and isinstance(c[1], Rat) \
                            and (val.id in c[1].deps() or val.id in c[2].deps()) and (d != neg):
                        return True
                return False
            nan_ok = bool(passing) and all(rejects_nan(o) for o in passing)
    ck.ob("V1", "Composition", "p validator rejects values outside [0,1]", C.module.relpath + ":%d" % C.node.lineno,
          vok, detail)
    if fld is not None and fld.validator is not None and vok:
        ck.ob("V1", "Composition", "p validator rejects NaN (every accepting path rests on a comparison that came out true)",
              C.module.relpath + ":%d" % C.node.lineno, nan_ok,
              "an accepting path decided only by comparisons that are false lets NaN through: a NaN fraction is then a valid Composition")
    # who may write .p
    hits = attribute_writes(repo, "Composition", "p")
    ck.ob("W1", "package", "no assignment to Composition.p", C.module.relpath, not hits,
          "; ".join("%s in %s (%s)" % (f.loc(n), f.qualname, cert) for f, n, cert in hits))
    ck.extra["who_may_write_scan"] = {"functions_scanned": len(repo.all_functions()), "writes_to_Composition.p": len(hits)}
    ck.assume("molecular weights are positive; attrs runs the validator on construction (attrs documented semantics)")
    ck.exhaustive = True
