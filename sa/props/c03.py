"""C03 — heat balance of the process models (kinds S + A)."""
from .. import poly
from ..poly import Rat, subst, rename_syms, rewrite
from ..procmodel import split_models, process_functions, evaluate, PM, oracle, field_renamer, is_non_ideal
from ..values import *
from ..repo import AnalysisError, FuncInfo
from ..evaluator import analyse, Config
from .c01 import num, comp_p, comp_type, step_params

EXPL = ("On the series models of the four process functions (see C01) the evaporation heat, the self-cooling update, the "
        "programme argument and the condensation-heat presence are compared, as polynomial identities over uninterpreted "
        "atoms (latent heat, specific heat and cooling heat of each component are uninterpreted functions of the component "
        "and the temperature), with the property's formulas; isothermal and non-isothermal siblings are instantiated at "
        "step 0 and compared argument for argument.")

H_SRC = ("self.mixture.{c}_component.get_vaporisation_heat(T) / self.mixture.{c}_component.molecular_weight * 1000")
CP_SRC = ("self.mixture.{c}_component.get_specific_heat(T) / self.mixture.{c}_component.molecular_weight")


def run(ck):
    repo = ck.repo
    ck.explanation = EXPL
    ck.technique = "series model + polynomial identities; sibling comparison at step 0"
    ck.undecided("physical adequacy of the condensation-heat formula (the property only asks for presence and iso/non-iso agreement); rounding")
    funcs = process_functions(repo)
    ck.floor("process functions", len(funcs), 4)
    from ..purity import purity
    purity(ck, repo, funcs + [repo.find_function("TemperatureProgram.program")])
    all_models = {}
    for func in funcs:
        ck.analysed_function(func)
        models = split_models(ck, 'H0', func, evaluate(repo, func, ck.tier))
        ck.floor("evaluated paths of %s" % func.qualname, len(models), 6)
        all_models[func.qualname] = models
        ck.analysed["paths"] += len(models)
        for pm in models:
            check_model(ck.scoped(pm.path_label), pm)
    check_siblings(ck, repo, funcs, all_models)
    check_program_dispatch(ck, repo)
    ck.exhaustive = True
    ck.assume("latent heat, specific heat and cooling heat are uninterpreted functions of (component, temperature); their own consistency is C13")


def linear_coeffs(Q: Rat, j0, j1):
    """Q == c0*j0 + c1*j1 (+ rest). j0/j1 single atoms."""
    a0, a1 = j0.single_atom(), j1.single_atom()
    if a0 is None or a1 is None:
        return None
    zero = Rat.const(0)
    c0 = subst(Q, {a1.id: zero}) / j0
    c1 = subst(Q, {a0.id: zero}) / j1
    if a0.id in c0.deps() or a1.id in c1.deps():
        return None
    if not (Q == c0 * j0 + c1 * j1):
        return None
    return c0, c1


def check_model(ck, pm: PM):
    f = pm.func
    fq = f.qualname
    where = f.loc(pm.loop.node) if pm.loop else f.loc()
    dt, n, err = step_params(pm)
    if err or pm.loop is None:
        ck.ob("H0", fq, "series model available", where, False, err or "no Euler loop")
        return
    A = pm.cond_field("membrane_area")
    J = pm.series("partial_fluxes")
    Qs = pm.series("feed_evaporation_heat")
    if J is None or Qs is None or len(J.per_iter) != 1 or len(Qs.per_iter) != 1:
        ck.ob("H0", fq, "flux and evaporation-heat series", where, False, "not appended exactly once per step")
        return
    Jk = J.per_iter[0]
    j0, j1 = Jk.items[0].r, Jk.items[1].r
    Tk = num(pm.elem_k("feed_temperature"))
    if Tk is None:
        ck.ob("H0", fq, "feed temperature of step k", where, False, "not available")
        return
    Q = num(Qs.per_iter[0])
    co = linear_coeffs(Q, j0, j1) if Q is not None else None
    if co is None:
        ck.ob("H2", fq, "evaporation heat is linear in the two fluxes of the step", where, False, found=lambda: str(Q)[:300])
    else:
        for i, c in enumerate(("first", "second")):
            want = oracle(pm, H_SRC.format(c=c), T=Tk).r * A * dt
            ck.ob("H1", fq, "latent heat per kg of the %s component in feed_evaporation_heat" % c, where, co[i] == want,
                  "coefficient of flux %d must be Hvap_%d(T_feed[k]) / M_%d * 1000 * A * dt" % (i + 1, i + 1, i + 1),
                  expected=lambda: str(want / (A * dt)), found=lambda: str(co[i] / (A * dt)), sample=True)
    # temperature update
    T = pm.field("feed_temperature")
    iso = isinstance(T, ListV) and T.kind == "rep"
    T0 = pm.cond_field("initial_feed_temperature")
    if iso:
        ck.ob("H5", fq, "isothermal: temperature series is constant", where, num(T.elem) == T0 and T.n == n, found=repr(T)[:120])
        for c in pm.solver_calls():
            ft = c.bound.get("feed_temperature")
            ck.ob("H5", fq, "isothermal: flux call uses the initial feed temperature", c.where, isinstance(ft, Num) and ft.r == T0,
                  found=repr(ft))
    else:
        Ts = pm.series("feed_temperature")
        if Ts is None or len(Ts.per_iter) != 1:
            ck.ob("H3", fq, "temperature series appended once per step", where, False)
        else:
            T1 = num(Ts.per_iter[0])
            prog = pm.out.facts.get(pm.cond + ".temperature_program")
            if prog == "none":
                mk = num(pm.elem_k("feed_mass"))
                xk = comp_p(pm.elem_k("feed_compositions"))
                if Q is None or mk is None or xk is None or T1 is None:
                    ck.ob("H3", fq, "self-cooling update", where, False, "state of step k not available")
                else:
                    c1 = oracle(pm, CP_SRC.format(c="first"), T=Tk).r
                    c2 = oracle(pm, CP_SRC.format(c="second"), T=Tk).r
                    want = Tk - Q / ((xk * c1 + (1 - xk) * c2) * mk)
                    ck.ob("H3", fq, "T[k+1] == T[k] - Q[k] / (m[k] * (x1*cp1/M1 + x2*cp2/M2))", where, T1 == want,
                          expected=lambda: str(want)[:500], found=lambda: str(T1)[:500])
                    ck.ob("H3", fq, "heat capacity weighted by mass fractions", where,
                          comp_type(pm, pm.elem_k("feed_compositions")) == "weight")
            else:
                want = oracle(pm, "%s.temperature_program.program(t)" % pm.cond, t=dt * (Rat.atom(pm.k) + 1))
                ck.ob("H4", fq, "T[k+1] == programme(time[k+1])", where, T1 is not None and isinstance(want, Num) and T1 == want.r,
                      expected=lambda: str(want.r)[:300], found=lambda: str(T1)[:300])
    # H7 presence of the condensation heat
    Cs = pm.series("permeate_condensation_heat")
    pt = pm.out.facts.get(pm.cond + ".permeate_temperature")
    cv = pm.field("permeate_condensation_heat")
    if (Cs is None or len(Cs.per_iter) != 1) and not (isinstance(cv, ListV) and cv.kind == "rep"):
        ck.ob("H7", fq, "condensation-heat series appended once per step", where, False)
    else:
        e = Cs.per_iter[0] if Cs is not None else cv.elem   # the same value at every step is one value per step too
        if pt == "none":
            ck.ob("H7", fq, "no condensation heat without a permeate temperature", where, isinstance(e, NoneV), found=repr(e)[:200])
        else:
            ck.ob("H7", fq, "condensation heat reported when a permeate temperature is given", where, isinstance(e, Num),
                  found=repr(e)[:200])


def step0(pm: PM):
    """Rewriting that instantiates the step-k normal forms of a model at step 0,
    in field-named atoms."""
    ren = field_renamer(pm)
    inv = {}
    objkeys = {}
    from ..symeval import val_key
    for fld, v in pm.value.fields.items():
        if isinstance(v, ListV) and v.kind == "series" and len(v.init) == 1 and v.elem_k is not None:
            collect(v.elem_k, v.init[0], inv, objkeys, val_key)
    k = pm.k

    def atom_fn(a):
        if a.id == k.id:
            return Rat.const(0)
        if a.id in inv:
            return inv[a.id]
        return None

    def key_fn(kk):
        for old, new in objkeys.items():
            if kk == old:
                return new
        return None

    fn = lambda r: rewrite(r, atom_fn, key_fn)
    fn.key_fn = key_fn
    return fn


def map_key_deep(k, rat_fn, key_fn):
    """map_key that also offers every (sub)key tuple to key_fn — object values are keys, not numbers"""
    if isinstance(k, Rat):
        return rat_fn(k)
    if isinstance(k, tuple):
        r = key_fn(k) if key_fn is not None else None
        if r is not None:
            return r
        return tuple(map_key_deep(x, rat_fn, key_fn) for x in k)
    return k


def collect(hyp, init, inv, objkeys, val_key):
    if isinstance(hyp, Num) and isinstance(init, Num):
        a = hyp.r.single_atom()
        if a is not None:
            inv[a.id] = init.r
    elif isinstance(hyp, TupV) and isinstance(init, TupV):
        for h, i in zip(hyp.items, init.items):
            collect(h, i, inv, objkeys, val_key)
    elif isinstance(hyp, ObjV):
        objkeys[val_key(hyp)] = val_key(init)
        if isinstance(init, ObjV):
            for fname, hv in list(hyp.fields.items()):
                iv = init.fields.get(fname)
                if iv is None and init.path is not None and isinstance(hv, Num):
                    a = hv.r.single_atom()
                    if a is not None:
                        inv[a.id] = Rat.sym(init.path + "." + fname, a.flags)
                elif iv is None and init.parent is not None and isinstance(hv, Num):
                    a = hv.r.single_atom()
                    if a is not None:
                        inv[a.id] = Rat.atom(poly.T.app("fn", "attr", (Rat.atom(init.parent), fname), flags=a.flags))
                elif iv is not None:
                    collect(hv, iv, inv, objkeys, val_key)


def check_siblings(ck, repo, funcs, all_models):
    from ..symeval import val_key
    groups = {}
    for f in funcs:
        groups.setdefault(is_non_ideal(repo, f), []).append(f)
    for nonideal, fs in groups.items():
        iso = [f for f in fs if any(isinstance(pm.field("feed_temperature"), ListV) and pm.field("feed_temperature").kind == "rep"
                                    for pm in all_models[f.qualname])]
        non = [f for f in fs if f not in iso]
        if len(iso) != 1 or len(non) != 1:
            ck.note("sibling pairing: %d isothermal / %d non-isothermal %s functions — H6 skipped"
                    % (len(iso), len(non), "non-ideal" if nonideal else "ideal"))
            continue
        fi, fn = iso[0], non[0]
        pairs = 0
        for pi in all_models[fi.qualname]:
            for pn in all_models[fn.qualname]:
                # (with a temperature programme too: the programme takes over from step 1, step 0 is the stated initial state)
                if (pi.meta["basis"], pi.meta["mode"], pi.meta["initial_permeances"], pi.meta.get("units")) != \
                        (pn.meta["basis"], pn.meta["mode"], pn.meta["initial_permeances"], pn.meta.get("units")):
                    continue
                if nonideal:
                    def curve_count(pm):
                        """what the path knows about the number of curves: ('one',) / ('several',) / None, whatever form the test has"""
                        for c, d in pm.out.trace:
                            neg = False
                            while isinstance(c, tuple) and c and c[0] == "not":
                                c, neg = c[1], not neg
                            if isinstance(c, tuple) and len(c) == 3 and c[0] in ("eq", "ne") and "len(" in poly.key_str(c) \
                                    and isinstance(c[2], Rat) and c[2] == Rat.const(1):
                                holds = (d != neg)
                                return "one" if (holds == (c[0] == "eq")) else "several"
                        return None
                    ti, tn = curve_count(pi), curve_count(pn)
                    if ti != tn or ti is None or ti == "one":
                        continue  # single-curve Arrhenius re-scaling is C05-N4's business
                    di = [d for c, d in pi.out.trace if "#b" in poly.key_str(c)]
                    dn = [d for c, d in pn.out.trace if "#b" in poly.key_str(c)]
                    if di != dn:
                        continue
                pairs += 1
                compare_step0(ck.scoped(pi.path_label), fi, fn, pi, pn)
        ck.floor("iso/non-iso sibling pairs (%s)" % ("non-ideal" if nonideal else "ideal"), pairs, 3)


def compare_step0(ck, fi, fn, pi: PM, pn: PM):
    from ..symeval import val_key
    s_i, s_n = step0(pi), step0(pn)
    r_i, r_n = field_renamer(pi), field_renamer(pn)
    where = fi.loc(pi.loop.node)

    def norm(v, s, r):
        k = val_key(v)
        def ren_key(kk):
            if kk and kk[0] in ("obj", "list", "maybe", "str?") and isinstance(kk[-1], str):
                return kk[:-1] + (r(kk[-1]),)
            return None
        return map_key_deep(map_key_deep(k, s, getattr(s, "key_fn", None)), lambda x: rename_syms(x, r), ren_key)

    ci, cn = pi.solver_calls(), pn.solver_calls()
    if len(ci) == 1 and len(cn) == 1:
        for p in ci[0].callee.params[1:]:
            a, b = ci[0].bound.get(p), cn[0].bound.get(p)
            if a is None or b is None:
                continue
            ka, kb = norm(a, s_i, r_i), norm(b, s_n, r_n)
            ck.ob("H6", fi.qualname, "step-0 flux call argument %s agrees with %s" % (p, fn.qualname), ci[0].where,
                  poly.key_equiv(ka, kb), expected=lambda: poly.key_str(kb)[:300], found=lambda: poly.key_str(ka)[:300])
    for fld in ("partial_fluxes", "feed_evaporation_heat", "permeate_condensation_heat"):
        a, b = pi.series(fld), pn.series(fld)
        if a is None or b is None or len(a.per_iter) != 1 or len(b.per_iter) != 1:
            continue
        ka, kb = norm(a.per_iter[0], s_i, r_i), norm(b.per_iter[0], s_n, r_n)
        ck.ob("H6", fi.qualname, "step-0 %s agrees with %s" % (fld, fn.qualname), where, poly.key_equiv(ka, kb),
              "isothermal and non-isothermal models started from the same conditions must report the same value at step 0",
              expected=lambda: poly.key_str(kb)[:600], found=lambda: poly.key_str(ka)[:600])


def check_program_dispatch(ck, repo):
    TP = repo.find_class("TemperatureProgram")
    prog = TP.methods.get("program")
    CT = repo.find_class("CalculationType")
    names = [v.value for v in CT.class_attrs.values() if v is not None and hasattr(v, "value") and isinstance(v.value, str)]
    ck.floor("programme kinds", len(names), 3)
    if prog is None:
        raise AnalysisError("TemperatureProgram.program not found")
    ck.analysed_function(prog)
    for nm in names:
        cfg = Config(facts={"self.type": ("str", nm)}, inline=lambda f: False)
        outs = analyse(repo, prog, cfg)
        ok = False
        found = ""
        if len(outs) == 1 and outs[0].kind == "return" and isinstance(outs[0].value, Num):
            a = outs[0].value.r.single_atom()
            found = str(outs[0].value.r)
            if a is not None and a.kind == "ucall" and a.name == "TemperatureProgram." + nm:
                arg = a.args[1]
                ok = isinstance(arg, Rat) and arg == Rat.sym(prog.params[1])
        elif outs:
            found = repr(outs[0])
        ck.ob("H4", prog.qualname, "programme kind %r dispatches to the method of that name with the given time" % nm,
              prog.loc(), ok, found=found[:200])
