"""C07 — results do not depend on the mole- vs mass-fraction input basis (kinds T + A)."""
from .. import poly
from ..poly import Rat, subst, key_equiv, key_str, map_key, rewrite
from ..evaluator import analyse
from ..procmodel import (make_config, permeance_summary, process_functions, configurations, PM, is_admissibility_exit, KG)
from ..symeval import val_key
from ..values import *
from ..repo import AnalysisError, FuncInfo
from .c01 import comp_p, comp_type
from .c05 import curve_configs, INL as FIT_INL, fit_summary

EXPL = ("Each modelling entry point is normalised twice: with its composition input labelled 'weight' and labelled 'molar' "
        "(finite basis domain, enumerated). Supplying the same physical composition means p_molar = to_molar(p_weight); the "
        "property therefore holds iff the molar normal form with p := to_molar(p) substituted equals the weight normal form, "
        "which is decided as a polynomial identity for every output (fluxes, permeate compositions, separation factors, curve "
        "fluxes / permeances, every series of the process models, extracted measurement points). Compositions handed to "
        "uninterpreted callees are keyed by their mole fraction once the callee's own independence has been established "
        "(partial pressures -> driving force -> solver -> helpers/curves/processes).")

BASIS_INDEPENDENT = {            # callee -> composition parameters through which only basis-normalising reads happen
    "get_partial_pressures": ("composition",),
    "calculate_activity_coefficients": ("composition",),
}


def molar_of(ev, v, frame, node):
    """mole fraction (Rat) of a Composition value of known basis, None if the basis is unknown"""
    if not (isinstance(v, ObjV) and v.cls.name == "Composition"):
        return None
    t = ev.resolve_maybe(ev.obj_attr(v, "type", frame, node))
    p = ev.obj_attr(v, "p", frame, node)
    if not (isinstance(t, StrV) and t.s in ("molar", "weight") and isinstance(p, Num)):
        return None
    if t.s == "molar":
        return p.r
    m = ev.call_function(FuncV("repo", func=v.cls.methods["to_molar"], self_val=v), [], {"mixture": _mixture_for(ev, frame)}, frame, node,
                         force_inline=True)
    return m.fields["p"].r if isinstance(m, ObjV) and isinstance(m.fields.get("p"), Num) else None


def _mixture_for(ev, frame):
    me = frame.lookup("self")
    if isinstance(me, ObjV) and (me.cls.field("mixture") is not None):
        return ev.obj_attr(me, "mixture", frame, None)
    mx = frame.lookup("mixture")
    if mx is not None:
        return mx
    # a helper that takes the modelling object (or the mixture) under another name
    f = frame
    while f is not None:
        for v in f.env.values():
            if isinstance(v, ObjV) and v.cls is not None:
                if v.cls.name == "Mixture":
                    return v
                if v.cls.field("mixture") is not None:
                    return ev.obj_attr(v, "mixture", frame, None)
        f = f.parent
    raise poly.Unmodelled("no mixture in scope to convert a composition")


def make_canon(independent):
    def canon(ev, func, p, v, frame, node):
        if func.qualname in independent and p in independent[func.qualname]:
            m = molar_of(ev, v, frame, node)
            if m is not None:
                return Num(m)
        return v
    return canon


def to_molar_formula(p: Rat, mix="self.mixture") -> Rat:
    M1 = Rat.sym("%s.first_component.molecular_weight" % mix, ("nonneg", "pos"))
    M2 = Rat.sym("%s.second_component.molecular_weight" % mix, ("nonneg", "pos"))
    return (p / M1) / (p / M1 + (1 - p) / M2)


def norm_out(v, facts):
    """Key of an output in which every Composition is represented by its mass fraction."""
    def conv(x):
        if isinstance(x, ObjV) and x.cls.name == "Composition":
            p = comp_p(x)
            t = x.fields.get("type")
            ts = t.s if isinstance(t, StrV) else None
            if ts is None and x.path is not None:
                f = facts.get(x.path + ".type")
                ts = f[1] if isinstance(f, tuple) and f[0] == "str" else None
            if p is not None and ts == "weight":
                return ("comp-w", p)
            if p is not None and ts == "molar":
                return ("comp-m", p)
            return val_key(x)
        if isinstance(x, TupV):
            return ("tup",) + tuple(conv(i) for i in x.items)
        x = famify(x)
        if isinstance(x, ListV) and x.kind == "fam":
            return ("fam", Rat.atom(x.idx), x.lo, x.hi, conv(x.elem))
        if isinstance(x, ListV) and x.kind == "series":
            return ("series", tuple(conv(i) for i in x.init), tuple(conv(i) for i in x.per_iter), x.popped)
        if isinstance(x, ListV) and x.kind == "rep":
            return ("rep", conv(x.elem), x.n)
        if isinstance(x, ListV) and x.kind == "lit":
            return ("lit",) + tuple(conv(i) for i in x.items)
        if isinstance(x, ObjV) and x.constructed:
            return ("new", x.cls.name) + tuple((k, conv(val)) for k, val in sorted(x.fields.items()) if k not in ("comments", "comment"))
        if isinstance(x, Opaque):
            return ("opaque",)
        return val_key(x)
    return conv(v)


def trace_sig(o, skip=()):
    out = []
    for c, d in o.trace:
        s = key_str(c)
        if "loopfix" in s or "loopfix" in poly.full_key_text(c):
            # a test of what the fixed-point loop left behind: the loop's result is written in terms of the input basis, so the
            # two runs are paired on the outcome of the test, not on its text
            out.append(("<test of the loop's result>", d))
            continue
        if ".type'" in s or any(k in s for k in skip):
            continue
        out.append((s, d))
    return tuple(out)


def compare(ck, func, what, where, kw, km, p_atoms, mix, label):
    mp = {}
    for a in p_atoms:
        mp[a.id] = to_molar_formula(Rat.atom(a), mix)
    km2 = map_key(km, lambda r: subst(r, mp))
    # a ('comp-m', m) entry with m = to_molar(w) denotes the mass fraction w
    ck.ob("B", func.qualname, what, where, key_equiv(kw, km2),
          "the molar-input result with p := to_molar(p) must equal the mass-input result",
          expected=lambda: key_str(kw)[:500], found=lambda: key_str(km2)[:500], config=label, sample=True)


def run(ck):
    repo = ck.repo
    ck.explanation = EXPL
    ck.technique = "finite basis enumeration + substitution p := to_molar(p) + polynomial identity on every output"
    ck.undecided("equality of fitted coefficients themselves (the property compares fits only through their inputs)")
    independent = dict(BASIS_INDEPENDENT)
    n = 0
    # level 1: partial pressures (callee calculate_activity_coefficients keyed by mole fraction: C04-A1 establishes its guard)
    n += simple_entry(ck, repo, "get_partial_pressures", ["composition"], independent, "mixture", {})
    independent["get_partial_pressures"] = ("composition",)
    # level 2: driving force
    name = "Pervaporation.get_partial_fluxes_from_permeate_composition"
    for mode, (ft, fp) in MODES.items():
        n += simple_entry(ck, repo, name, ["feed_composition"], independent, "self.mixture",
                          {"permeate_temperature": ft, "permeate_pressure": fp, "permeate_composition.type": ("str", "weight")}, "mode=%s" % mode)
    independent[name] = ("feed_composition",)
    # level 3: solver
    name = "Pervaporation.calculate_partial_fluxes"
    for mode, (ft, fp) in MODES.items():
        for perm in ("notnone", "none"):
            n += simple_entry(ck, repo, name, ["composition"], independent, "self.mixture",
                              {"permeate_temperature": ft, "permeate_pressure": fp, "first_component_permeance": perm,
                               "second_component_permeance": perm}, "mode=%s permeances %s" % (mode, perm),
                              inline=("get_permeate_composition_from_fluxes",))
    independent[name] = ("composition",)
    # level 4: helpers and the ideal curve
    for name in ("Pervaporation.calculate_permeate_composition", "Pervaporation.calculate_separation_factor"):
        for mode, (ft, fp) in MODES.items():
            n += simple_entry(ck, repo, name, ["composition"], independent, "self.mixture",
                              {"permeate_temperature": ft, "permeate_pressure": fp, "precision": "notnone"}, "mode=%s" % mode,
                              inline=("Pervaporation.calculate_permeate_composition",) if name.endswith("factor") else ())
    independent["Pervaporation.calculate_permeate_composition"] = ("composition",)
    for mode, (ft, fp) in MODES.items():
        n += simple_entry(ck, repo, "Pervaporation.ideal_diffusion_curve", ["compositions[#b0]"], independent, "self.mixture",
                          {"permeate_temperature": ft, "permeate_pressure": fp, "precision": "notnone"}, "mode=%s" % mode)
    # curve object: construction and metrics
    for mname in ("__attrs_post_init__", "get_separation_factor", "permeate_composition", "get_psi"):
        for mode, (ft, fp) in MODES.items():
            for fl, pe in (("notnone", "none"), ("none", "notnone")):
                if mname != "__attrs_post_init__" and fl == "none":
                    continue
                facts = {"self.partial_fluxes": fl, "self.permeances": pe, "self.permeate_temperature": ft, "self.permeate_pressure": fp}
                n += simple_entry(ck, repo, "DiffusionCurve." + mname, ["self.feed_compositions[#b0]"], independent, "self.mixture", facts,
                                  "mode=%s fluxes %s" % (mode, "given" if fl == "notnone" else "None"),
                                  inline=("DiffusionCurve.permeate_composition", "DiffusionCurve.get_separation_factor"), units_kg=True,
                                  self_fields=("partial_fluxes", "permeances"))
    # measurement extraction
    for comp in ("first", "second"):
        n += simple_entry(ck, repo, "Measurements.from_diffusion_curve_%s" % comp, ["curve.feed_compositions[#b0]"], independent, "curve.mixture",
                          {"curve.permeances": "notnone"}, inline=("DiffusionCurve.__len__",))
    # process models and the non-ideal curve
    for func in process_functions(repo):
        n += process_entry(ck, repo, func, independent)
    n += curve_entry(ck, repo, independent)
    ck.floor("entry-point configurations compared", n, 60)
    from ..purity import purity
    names = ["get_partial_pressures", "Pervaporation.get_partial_fluxes_from_permeate_composition", "Pervaporation.calculate_partial_fluxes",
             "Pervaporation.calculate_permeate_composition", "Pervaporation.calculate_separation_factor", "Pervaporation.ideal_diffusion_curve",
             "Pervaporation.non_ideal_diffusion_curve", "DiffusionCurve.__attrs_post_init__", "DiffusionCurve.get_separation_factor",
             "Measurements.from_diffusion_curve_first", "Measurements.from_diffusion_curve_second", "Composition.to_weight", "Composition.to_molar"]
    purity(ck, repo, [repo.find_function(x) for x in names] + process_functions(repo))
    # B6: a stored curve keeps a composition's value and its basis label together: both columns of the table DiffusionCurve.save
    # writes come from the same composition object, unconverted (a value converted on one side only is read back on the other
    # basis). Read from the values the evaluator computes for save() (the C17 machinery).
    from .c17 import writer_table
    DC = repo.find_class("DiffusionCurve")
    sv = DC.methods.get("save")
    if sv is not None:
        ck.analysed_function(sv)
        tbl, order, kinds, where_w = writer_table(ck.scoped("stored curve"), repo, sv)
        val_cols = [c for c, sl in tbl.items() if sl is not None and sl.field == "feed_compositions" and sl.selector.replace(".first", ".p") == ".p"]
        lab_cols = [c for c, sl in tbl.items() if sl is not None and sl.field == "feed_compositions" and sl.selector == ".type"]
        ck.ob("B6", sv.qualname, "a stored curve writes each feed composition's own value next to its own basis label", where_w,
              len(val_cols) == 1 and len(lab_cols) == 1,
              "the stored number and the stored basis label must both be the composition's own fields: a value converted before it is "
              "written, under the label of the unconverted one, is re-converted on loading",
              found="value column(s) %s, label column(s) %s; composition <- %s" % (val_cols, lab_cols, tbl.get("composition")))
    ck.exhaustive = True
    ck.assume("Composition.to_molar / to_weight are mutually inverse (C15) and the activity model converts its input (C04-A1)")


MODES = {"vac": ("none", "none"), "T": ("notnone", "none"), "p": ("none", "notnone")}


def simple_entry(ck, repo, name, comp_paths, independent, mix, facts, label="", inline=(), units_kg=False, self_fields=()):
    f = repo.find_function(name)
    ck.analysed_function(f)
    res = {}
    for basis in ("weight", "molar"):
        fx = dict(facts)
        fx.setdefault("calculation_type", "notnone")
        for cp in comp_paths:
            fx[cp + ".type"] = ("str", basis)
        cfg = make_config(fx, extra_inline=inline, ret_summary=permeance_summary, canon_arg=make_canon(independent))
        if units_kg:
            cfg.str_domains["*.units"] = (KG,)
        outs = analyse(repo, f, cfg)
        ck.analysed["paths"] += len(outs)
        res[basis] = outs
    p_atoms = [poly.T.sym(cp + ".p", ("nonneg", "comp_p")) for cp in comp_paths]
    byw = {trace_sig(o): o for o in res["weight"]}
    n = 0
    for om in res["molar"]:
        ow = byw.get(trace_sig(om))
        lab = ("%s " % label if label else "") + "| " + ", ".join("%s=%s" % (s[:60], d) for s, d in trace_sig(om))
        if ow is None or ow.kind != om.kind:
            ck.ob("B", f.qualname, "same control flow for both input bases", f.loc(), False,
                  "the molar-input path has no mass-input counterpart with the same decisions", config=lab)
            continue
        if om.kind != "return":
            continue
        n += 1
        vw, vm = ow.value, om.value
        if self_fields:
            mw, mm = ow.env.get("self"), om.env.get("self")
            vw = TupV([ow.value] + [mw.fields.get(k, NONE) for k in self_fields])
            vm = TupV([om.value] + [mm.fields.get(k, NONE) for k in self_fields])
        kw, km = norm_out(vw, ow.facts), norm_out(vm, om.facts)
        compare(ck, f, "result is the same for a mass-fraction and the equivalent mole-fraction input", f.loc(), kw, km, p_atoms, mix, lab)
    return n


def process_entry(ck, repo, func, independent):
    ck.analysed_function(func)
    groups = {}
    for label, facts, meta in configurations(repo, func, ck.tier):
        cfg = make_config(facts, ret_summary=permeance_summary, canon_arg=make_canon(independent))
        outs = analyse(repo, func, cfg, max_paths=2048)
        ck.analysed["paths"] += len(outs)
        for o in outs:
            if is_admissibility_exit(o) or o.kind != "return":
                continue
            key = (meta["mode"], meta["programme"], meta["initial_permeances"], meta.get("units"), trace_sig(o))
            groups.setdefault(key, {})[meta["basis"]] = (label, PM(repo, func, label, meta, o))
    n = 0
    from ..procmodel import param_of_type
    cond = param_of_type(repo, func, "Conditions")
    p0 = poly.T.sym(cond + ".initial_feed_composition.p", ("nonneg", "comp_p"))
    for key, d in groups.items():
        if "weight" not in d or "molar" not in d:
            ck.ob("B", func.qualname, "same control flow for both input bases", func.loc(), False, "unpaired path %s" % (key[:3],))
            continue
        n += 1
        (lw, pw), (lm, pm) = d["weight"], d["molar"]
        kw, km = norm_out(pw.value, pw.out.facts), norm_out(pm.value, pm.out.facts)
        compare(ck, func, "every reported series is the same for a mass-fraction and the equivalent mole-fraction initial feed", func.loc(),
                kw, km, [p0], "self.mixture", pw.path_label)
        x = pw.series("feed_compositions")
        ok = x is not None and all(comp_type(pw, e) == "weight" for e in list(x.init) + list(x.per_iter)) and \
            all(comp_type(pm, e) == "weight" for e in list(pm.series("feed_compositions").init) + list(pm.series("feed_compositions").per_iter))
        ck.ob("B5", func.qualname, "reported feed compositions are mass fractions whatever the input basis", func.loc(), ok, config=pw.path_label)
    return n


def curve_entry(ck, repo, independent):
    f = repo.find_function("Pervaporation.non_ideal_diffusion_curve")
    ck.analysed_function(f)
    groups = {}
    for label, facts, meta in curve_configs(repo, f):
        cfg = make_config(facts, extra_inline=FIT_INL, ret_summary=fit_summary, canon_arg=make_canon(independent))
        outs = analyse(repo, f, cfg, max_paths=2048)
        ck.analysed["paths"] += len(outs)
        for o in outs:
            if o.kind != "return":
                continue
            groups.setdefault((meta["mode"], meta["initial_permeances"], trace_sig(o)), {})[meta["basis"]] = (label, o)
    n = 0
    p0 = poly.T.sym("initial_feed_composition.p", ("nonneg", "comp_p"))
    for key, d in groups.items():
        if len(d) != 2:
            ck.ob("B", f.qualname, "same control flow for both input bases", f.loc(), False, "unpaired path %s" % (key[:2],))
            continue
        n += 1
        (lw, ow), (lm, om) = d["weight"], d["molar"]
        compare(ck, f, "the modelled curve is the same for a mass-fraction and the equivalent mole-fraction initial composition", f.loc(),
                norm_out(ow.value, ow.facts), norm_out(om.value, om.facts), [p0], "self.mixture", lw)
    return n
