"""C19 — contradictory or incomplete specifications are rejected at every entry point (kinds S + T)."""
from .. import poly
from ..evaluator import analyse
from ..procmodel import make_config, permeance_summary, process_functions, param_of_type, configurations, is_non_ideal
from ..values import *
from ..repo import AnalysisError, FuncInfo
from .c05 import fit_summary

EXPL = ("Must-raise analysis: each entry point is evaluated with the abstract input 'both permeate parameters are set' (for the "
        "process functions: both Conditions fields) and with the callees on the path to the driving force inlined, so that a raise "
        "inside a callee, a loop body or a comprehension is seen at the entry; every syntactic path of the entry must end in a raise. "
        "The three hand-copied permeate-mode chains are evaluated in all four None-ness cells (exactly one non-raising arm per "
        "legal cell, raise in the (set,set) cell). The other rejection classes are must-raise queries under their own abstract input.")

INLINE = {"Pervaporation.calculate_partial_fluxes", "Pervaporation.get_partial_fluxes_from_permeate_composition",
          "Pervaporation.calculate_permeate_composition", "get_permeate_composition_from_fluxes",
          "Composition.first", "Composition.second", "Composition.to_weight", "Composition.to_molar", "Permeance.convert",
          "DiffusionCurve.permeate_composition", "PervaporationFunction.__call__", "PervaporationFunction.__mul__"}


def cfg_for(facts, post_init=True):
    c = make_config(facts, extra_inline=INLINE, ret_summary=fit_summary)
    if post_init:
        c.post_init = lambda cls: cls.name in ("DiffusionCurve", "Mixture")
    c.lenient = True   # only raise / return behaviour matters here, not values
    return c


def must_raise(ck, repo, func, facts, rule, what, label=None, max_paths=4096):
    outs = analyse(repo, func, cfg_for(facts), max_paths=max_paths)
    ck.analysed["paths"] += len(outs)
    bad = [o for o in outs if o.kind != "raise"]
    types = sorted({o.exc.exc_type for o in outs if o.kind == "raise"})
    wh = func.loc()
    ck.ob(rule, func.qualname, what, wh, bool(outs) and not bad,
          lambda: "%d of %d syntactic paths return normally, e.g. along %s" %
          (len(bad), len(outs), [("%s=%s" % (poly.key_str(c)[:80], d)) for c, d in bad[0].trace][:6]),
          found="raises %s" % ", ".join(types) if not bad else None, config=label, sample=True)
    return outs


def run(ck):
    repo = ck.repo
    ck.explanation = EXPL
    ck.technique = "interprocedural must-raise on all syntactic paths under abstract None-ness inputs; exhaustive 2x2 dispatch tables"
    both = {"permeate_temperature": "notnone", "permeate_pressure": "notnone", "calculation_type": "notnone", "precision": "notnone",
            "first_component_permeance": "notnone", "second_component_permeance": "notnone"}
    entries = 0
    for name in ("Pervaporation.get_partial_fluxes_from_permeate_composition", "Pervaporation.calculate_partial_fluxes",
                 "Pervaporation.calculate_permeate_composition", "Pervaporation.calculate_separation_factor",
                 "Pervaporation.ideal_diffusion_curve", "Membrane.get_estimated_pure_component_flux"):
        f = repo.find_function(name)
        ck.analysed_function(f)
        for perm in ("notnone", "none"):
            facts = dict(both)
            facts["first_component_permeance"] = facts["second_component_permeance"] = perm
            must_raise(ck, repo, f, facts, "J1", "both permeate temperature and pressure given -> the call raises",
                       "permeances %s" % ("given" if perm == "notnone" else "None"))
        entries += 1
    # curve model
    f = repo.find_function("Pervaporation.non_ideal_diffusion_curve")
    ck.analysed_function(f)
    for init in ("none", "notnone"):
        facts = dict(both)
        facts.update({"initial_permeances": init, "initial_permeances[0].units": ("str", "kg/(m2*h*kPa)"),
                      "initial_permeances[1].units": ("str", "kg/(m2*h*kPa)"), "initial_feed_composition.type": ("str", "weight")})
        for p in f.params:
            if p.startswith(("n_", "m_")):
                facts[p] = "notnone"
        must_raise(ck, repo, f, facts, "J1", "both permeate temperature and pressure given -> the call raises",
                   "initial_permeances %s" % ("given" if init == "notnone" else "None"))
    entries += 1
    # process models
    for func in process_functions(repo):
        ck.analysed_function(func)
        for label, facts, meta in configurations(repo, func, "quick", modes=("both",), bases=("weight",)):
            must_raise(ck, repo, func, facts, "J1", "both permeate temperature and pressure in the conditions -> the call raises", label)
        entries += 1
    # curve from fluxes
    DC = repo.find_class("DiffusionCurve")
    post = DC.methods["__attrs_post_init__"]
    ck.analysed_function(post)
    must_raise(ck, repo, post, {"self.partial_fluxes": "notnone", "self.permeances": "none", "self.permeate_temperature": "notnone",
                                "self.permeate_pressure": "notnone", "self.feed_compositions[#b0].type": ("str", "weight")},
               "J1", "curve built from fluxes with both permeate temperature and pressure -> construction raises")
    entries += 1
    ck.floor("entry points computing a driving force", entries, 12)
    ck.assume("loops over steps / compositions execute at least once (step count >= 1, non-empty composition list)")
    # J2 dispatch tables
    chains = [("Pervaporation.get_partial_fluxes_from_permeate_composition", "permeate_temperature", "permeate_pressure", {}),
              ("Membrane.get_estimated_pure_component_flux", "permeate_temperature", "permeate_pressure", {}),
              ("DiffusionCurve.__attrs_post_init__", "self.permeate_temperature", "self.permeate_pressure",
               {"self.partial_fluxes": "notnone", "self.permeances": "none", "self.feed_compositions[#b0].type": ("str", "weight")})]
    for name, pt, pp, extra in chains:
        f = repo.find_function(name)
        for a in ("none", "notnone"):
            for b in ("none", "notnone"):
                facts = {pt: a, pp: b, "calculation_type": "notnone", "permeate_composition.type": ("str", "weight")}
                facts.update(extra)
                outs = analyse(repo, f, cfg_for(facts))
                ck.analysed["paths"] += len(outs)
                cell = "(T %s, p %s)" % ("set" if a == "notnone" else "None", "set" if b == "notnone" else "None")
                if a == "notnone" and b == "notnone":
                    ok = bool(outs) and all(o.kind == "raise" for o in outs)
                    what = "cell %s raises" % cell
                else:
                    ok = bool(outs) and all(o.kind == "return" for o in outs)
                    what = "cell %s is accepted (no path raises)" % cell
                ck.ob("J2", f.qualname, what, f.loc(), ok,
                      found=lambda: "; ".join(o.kind if o.kind == "return" else "raise %s" % o.exc.exc_type for o in outs))
    # J3 other classes
    M = repo.find_class("Mixture")
    pi = M.methods.get("__attrs_post_init__")
    if pi is None:
        ck.ob("J3", "Mixture", "a mixture without interaction parameters is rejected", M.module.relpath, False, "no __attrs_post_init__")
    else:
        ck.analysed_function(pi)
        must_raise(ck, repo, pi, {"self.nrtl_params": "none", "self.uniquac_params": "none"}, "J3",
                   "a mixture with neither NRTL nor UNIQUAC parameters is rejected")
        for a, b in (("notnone", "none"), ("none", "notnone"), ("notnone", "notnone")):
            outs = analyse(repo, pi, cfg_for({"self.nrtl_params": a, "self.uniquac_params": b}))
            ck.ob("J3", pi.qualname, "a mixture with at least one parameter set is accepted (NRTL %s, UNIQUAC %s)" % (a, b), pi.loc(),
                  bool(outs) and all(o.kind == "return" for o in outs))
    act = repo.find_function("calculate_activity_coefficients")
    ck.analysed_function(act)
    base = {"composition.type": ("str", "molar"), "mixture.nrtl_params": "notnone", "mixture.uniquac_params": "notnone",
            "mixture.first_component.uniquac_constants": "notnone", "mixture.second_component.uniquac_constants": "notnone",
            "mixture.nrtl_params.alpha21": "notnone", "mixture.nrtl_params.a12": "notnone", "mixture.nrtl_params.a21": "notnone",
            "mixture.first_component.uniquac_constants.q_interaction": "notnone",
            "mixture.second_component.uniquac_constants.q_interaction": "notnone"}
    for model, missing, what in (("NRTL", "mixture.nrtl_params", "NRTL without NRTL parameters"),
                                 ("UNIQUAC", "mixture.uniquac_params", "UNIQUAC without UNIQUAC parameters"),
                                 ("UNIQUAC", "mixture.first_component.uniquac_constants", "UNIQUAC without the first component's constants"),
                                 ("UNIQUAC", "mixture.second_component.uniquac_constants", "UNIQUAC without the second component's constants")):
        facts = dict(base)
        facts["calculation_type"] = ("str", model)
        facts[missing] = "none"
        must_raise(ck, repo, act, facts, "J3", "%s is rejected" % what, what)
    g = repo.find_function("get_partial_pressures")
    facts = dict(base)
    facts.update({"calculation_type": ("str", "NRTL"), "mixture.nrtl_params": "none"})
    c = cfg_for(facts)
    inl = c.inline
    c.inline = lambda fn: inl(fn) or fn.qualname == "calculate_activity_coefficients"
    outs = analyse(repo, g, c)
    ck.ob("J3", g.qualname, "partial pressures with a model whose parameters are missing are rejected", g.loc(),
          bool(outs) and all(o.kind == "raise" for o in outs))
    must_raise(ck, repo, post, {"self.partial_fluxes": "none", "self.permeances": "none"}, "J3",
               "a curve with neither fluxes nor permeances is rejected")
    ae = repo.find_function("Membrane.calculate_activation_energy")
    ck.analysed_function(ae)
    c = make_config({}, extra_inline=("Membrane.get_penetrant_data", "IdealExperiments.__len__"))
    outs = analyse(repo, ae, c)
    sel = []
    from ..oracle import Oracle
    from ..poly import Rat
    try:
        # the quantity that must be tested: how many experiments there are FOR THIS COMPONENT
        count = Oracle(repo, ae, c, {}).eval("len(self.get_penetrant_data(component))").r
    except Exception as e:
        raise AnalysisError("number of experiments of a component cannot be expressed: %s" % e)

    def is_few(cn, d):
        if not (isinstance(cn, tuple) and len(cn) == 3 and isinstance(cn[1], Rat) and isinstance(cn[2], Rat)):
            return False
        op, l, r = cn
        if not d:
            op = {"lt": "ge", "le": "gt", "gt": "le", "ge": "lt", "eq": "ne", "ne": "eq"}.get(op)
        if l == count and r.is_const():
            return (op == "lt" and r.const_value() == 2) or (op == "le" and r.const_value() == 1) or (op == "eq" and r.const_value() == 1)
        if r == count and l.is_const():
            return (op == "gt" and l.const_value() == 2) or (op == "ge" and l.const_value() == 1) or (op == "eq" and l.const_value() == 1)
        return False
    foreign = []
    own_prefix = None
    try:
        own = Oracle(repo, ae, c, {}).eval("self.get_penetrant_data(component).experiments[0].activation_energy")
        name = getattr(own, "path", None)
        if isinstance(name, str) and name.endswith("[0].activation_energy"):
            own_prefix = name[:-len("0].activation_energy")]
    except Exception:
        own_prefix = None
    for o in outs:
        few = any(is_few(cn, d) for cn, d in o.trace)
        # the stated value that excuses a single experiment must be read from the component's OWN experiments (the filtered list)
        nostated = any(isinstance(cn, tuple) and cn[0] == "isnone" and cn[1].endswith(".activation_energy") and d for cn, d in o.trace)
        if nostated and own_prefix:
            foreign += [cn[1] for cn, d in o.trace if isinstance(cn, tuple) and cn[0] == "isnone" and cn[1].endswith(".activation_energy")
                        and not cn[1].startswith(own_prefix)]
        if few and nostated:
            sel.append(o)
    ck.ob("J3", ae.qualname, "fewer than two experiments without a stated activation energy are rejected", ae.loc(),
          bool(sel) and all(o.kind == "raise" for o in sel), "found %d such path(s)" % len(sel))
    ck.ob("J3", ae.qualname, "the stated activation energy that excuses a single experiment is read from the component's own experiments", ae.loc(),
          own_prefix is not None and not foreign,
          "the value tested for presence is %s, which is not an element of the experiments selected for the component: another component's "
          "stated constant lets an under-specified component through" % "; ".join(sorted(set(foreign)))[:300] if foreign else "the component's own stated value could not be expressed")
    for name in ("Component.get_vapor_pressure", "Component.get_vaporisation_heat"):
        f = repo.find_function(name)
        ck.analysed_function(f)
        outs = analyse(repo, f, make_config({}))
        sel = [o for o in outs if all(not d for c, d in o.trace)]
        ck.ob("J3", name, "an unknown vapour-pressure equation type is rejected", f.loc(), bool(sel) and all(o.kind == "raise" for o in sel))
    # J4: a rejection is not swallowed on its way out: no handler catches an exception class that a repository function called in
    # its try block raises explicitly, unless the handler raises itself
    import ast as _ast
    byname = {}
    for g in repo.all_functions():
        byname.setdefault(g.name, []).append(g)
    _mr = {}

    def may_raise(g, depth=0):
        k = g.module.name + ":" + g.qualname
        if k in _mr:
            return _mr[k]
        _mr[k] = set()
        out = set()
        for n in _ast.walk(g.node):
            if isinstance(n, _ast.Raise) and n.exc is not None:
                e = n.exc.func if isinstance(n.exc, _ast.Call) else n.exc
                out.add(_ast.unparse(e).split(".")[-1])
            elif isinstance(n, _ast.Call) and depth < 2:
                nm = n.func.attr if isinstance(n.func, _ast.Attribute) else (n.func.id if isinstance(n.func, _ast.Name) else None)
                for h in byname.get(nm, [])[:3]:
                    if h is not g:
                        out |= may_raise(h, depth + 1)
        _mr[k] = out
        return out
    n_try = 0
    for g in repo.all_functions():
        for t in _ast.walk(g.node):
            if not isinstance(t, _ast.Try):
                continue
            n_try += 1
            raised = set()
            for stx in t.body:
                for n in _ast.walk(stx):
                    if isinstance(n, _ast.Call):
                        nm = n.func.attr if isinstance(n.func, _ast.Attribute) else (n.func.id if isinstance(n.func, _ast.Name) else None)
                        for h in byname.get(nm, [])[:3]:
                            raised |= may_raise(h)
            for h in t.handlers:
                if h.type is None:
                    names = {"*"}
                elif isinstance(h.type, _ast.Tuple):
                    names = {_ast.unparse(x).split(".")[-1] for x in h.type.elts}
                else:
                    names = {_ast.unparse(h.type).split(".")[-1]}
                if not names:
                    continue    # `except ():` catches nothing
                reraises = any(isinstance(x, _ast.Raise) for stx in h.body for x in _ast.walk(stx))
                hit = (names & raised) or (raised if names & {"*", "Exception", "BaseException"} else set())
                ck.ob("J4", g.qualname, "a rejection raised inside this try block is not swallowed by `except %s`" % ", ".join(sorted(names)),
                      g.loc(h), reraises or not hit,
                      "the handler catches %s, which a function called in the try block raises to reject its input, and goes on without raising"
                      % ", ".join(sorted(hit)))
    ck.extra["try_statements"] = n_try
    ck.exhaustive = True
