"""E6 — interprocedural effect (mutation) and alias analysis over the resolved program.

Objects are identified by tags: 'F' (allocated during the call), ('P', param, 0) the object bound to a parameter,
('P', param, 1) anything strictly inside it, ('G', name, d) likewise for module-level objects.  A value is a pair
(top, inner) of tag sets: what the value itself may be, and what may be reachable through its fields / elements.
Flow-insensitive inside a function, summaries bottom-up over the (acyclic) call graph.
"""
from __future__ import annotations

import ast
from typing import Dict, List, Set, Tuple, Optional

from .repo import Repo, FuncInfo, ClassInfo, External, Module, Const
from .structural import type_env
from .callgraph import CallGraph, fkey

F = "F"
MUTATORS = {"append", "extend", "insert", "pop", "remove", "sort", "reverse", "clear", "update", "setdefault", "fill", "put",
            "popitem", "add", "discard", "resize", "itemset"}
FRESH_TOP_INNER_ALIAS = {"list", "tuple", "sorted", "set", "dict", "reversed", "filter", "enumerate", "zip", "map", "iter"}
ALIAS_ARRAY = {"numpy.asarray", "numpy.asanyarray", "numpy.ravel", "numpy.reshape", "numpy.transpose", "numpy.squeeze"}


DEPTH = 4


class ParamFields:
    """Field map of a parameter that is an instance of a private helper class: field f of parameter p is the abstract object
    ('P', p, 1, f), what is inside it ('P', p, 2, f) ...; `over` holds what the function itself stored into a field."""

    def __init__(self, p, over=None):
        self.p = p
        self.over = dict(over or {})

    def get(self, name):
        base = Val(levels=[{("P", self.p, min(i + 1, DEPTH - 1), name)} for i in range(DEPTH)])
        return base.join(self.over[name]) if name in self.over else base

    def __eq__(self, o):
        return isinstance(o, ParamFields) and o.p == self.p and o.over == self.over

    def __contains__(self, name):
        return True


class Val:
    """levels[d]: tags of the objects exactly d reference steps inside the value (last level: d or deeper).
    fields (optional): for ONE object built here (or a parameter of a private helper class), what each named field holds;
    the key '*' stands for the elements of a container.  Where fields are known an attribute load is field-sensitive; the
    levels always remain a sound summary of everything inside."""
    __slots__ = ("levels", "fields")

    def __init__(self, top=(), inner=(), levels=None, fields=None):
        if levels is not None:
            self.levels = tuple(frozenset(l) for l in levels)
        else:
            inner = frozenset(inner)
            self.levels = (frozenset(top),) + (inner,) * (DEPTH - 1)
        self.fields = fields

    @property
    def top(self):
        return self.levels[0]

    @property
    def inner(self):
        r = frozenset()
        for l in self.levels[1:]:
            r |= l
        return r

    def join(self, o: "Val") -> "Val":
        lv = [a | b for a, b in zip(self.levels, o.levels)]
        fl = None
        if isinstance(self.fields, dict) and isinstance(o.fields, dict):
            fl = {}
            for k in set(self.fields) | set(o.fields):
                a, b = self.fields.get(k), o.fields.get(k)
                fl[k] = a.join(b) if a is not None and b is not None else (a if a is not None else b).join(
                    (o if a is not None else self).child_levels())
        elif isinstance(self.fields, ParamFields) and self.fields == o.fields:
            fl = self.fields
        elif self.fields is not None and o.fields is None and not o.inner and o.top <= {F}:
            fl = self.fields      # joined with a scalar / None: still the same object
        elif o.fields is not None and self.fields is None and not self.inner and self.top <= {F}:
            fl = o.fields
        return Val(levels=lv, fields=fl)

    def all(self):
        return self.top | self.inner

    def child_levels(self) -> "Val":
        lv = list(self.levels[1:]) + [self.levels[-1]]
        return Val(levels=lv)

    def child(self) -> "Val":
        """what one reference step inside holds (element access, or a field whose name is not tracked)"""
        if isinstance(self.fields, dict) and "*" in self.fields and len(self.fields) == 1:
            return self.fields["*"]
        return self.child_levels()

    def attr(self, name) -> "Val":
        """what field `name` holds"""
        if isinstance(self.fields, dict) and "*" not in self.fields:
            if name in self.fields:
                return self.fields[name]
            return self.child_levels()
        if isinstance(self.fields, ParamFields):
            return self.fields.get(name)
        return self.child_levels()

    def with_field(self, name, v: "Val") -> "Val":
        """the same object after `obj.name = v` may have happened (weak update)"""
        lv = [a | b for a, b in zip(self.levels, v.wrapped().levels)]
        lv[0] = self.levels[0]
        if isinstance(self.fields, dict) and "*" not in self.fields:
            fl = dict(self.fields)
            fl[name] = fl[name].join(v) if name in fl else v
            return Val(levels=lv, fields=fl)
        if isinstance(self.fields, ParamFields):
            ov = dict(self.fields.over)
            ov[name] = ov[name].join(v) if name in ov else v
            return Val(levels=self.levels, fields=ParamFields(self.fields.p, ov))
        return Val(levels=lv, fields=self.fields)

    def wrapped(self) -> "Val":
        """a fresh container / object holding this value"""
        lv = [frozenset({F})] + list(self.levels[:-1])
        lv[-1] = lv[-1] | self.levels[-1]
        return Val(levels=lv, fields=({"*": self} if self.fields is not None else None))

    def shallow_copy(self) -> "Val":
        return Val(levels=[frozenset({F})] + list(self.levels[1:]), fields=self.fields if isinstance(self.fields, dict) else None)

    def __eq__(self, o):
        return self.levels == o.levels and self.fields == o.fields

    def __repr__(self):
        return "Val(%s%s)" % ([sorted(map(str, l)) for l in self.levels], "" if self.fields is None else " fields")


FRESH = Val({F}, {F})
SCALAR = Val({F}, ())


class Mutation:
    def __init__(self, func: FuncInfo, node, tags, what, via=None):
        self.func = func
        self.node = node
        self.tags = frozenset(tags)
        self.what = what
        self.via = via  # chain of call sites (for interprocedural mutations)

    def __repr__(self):
        return "%s mutates %s (%s)" % (self.func.loc(self.node), sorted(map(str, self.tags)), self.what)


class Summary:
    def __init__(self):
        self.mutates: List[Mutation] = []      # in the function's own tag space
        self.field_writes: List[Tuple[str, str, Val]] = []   # (parameter, field, value stored) for parameters of private helper classes
        self.ret = Val()
        self.ambient = False


class Effects:
    def __init__(self, repo: Repo, cg: Optional[CallGraph] = None):
        self.repo = repo
        self.cg = cg or CallGraph(repo)
        self.summaries: Dict[str, Summary] = {}
        self.in_progress = set()

    # ------------------------------------------------------------------
    def summary(self, f: FuncInfo) -> Summary:
        k = fkey(f)
        if k in self.summaries:
            return self.summaries[k]
        if k in self.in_progress:
            return Summary()   # recursion: C10-T3 reports it
        self.in_progress.add(k)
        s = self._analyse(f)
        self.in_progress.discard(k)
        self.summaries[k] = s
        return s

    def _param_val(self, p):
        return Val(levels=[{("P", p, d)} for d in range(DEPTH)])

    def _analyse(self, f: FuncInfo) -> Summary:
        env = type_env(self.repo, f)
        vals: Dict[str, Val] = {}
        for p in f.params + f.kwonly:
            vals[p] = self._param_val(p)
        if f.cls is not None and _is_helper_class(f.cls) and f.params and not f.is_staticmethod and not f.is_classmethod:
            p0 = f.params[0]
            vals[p0] = Val(levels=vals[p0].levels, fields=ParamFields(p0))
        if f.vararg:
            vals[f.vararg] = self._param_val(f.vararg)
        if f.kwarg:
            vals[f.kwarg] = self._param_val(f.kwarg)
        summ = Summary()
        # fixpoint over assignments
        for _ in range(8):
            changed = False
            for n in ast.walk(f.node):
                tgts = None
                if isinstance(n, ast.Assign):
                    tgts, v = n.targets, self.value(f, env, vals, n.value)
                elif isinstance(n, ast.AnnAssign) and n.value is not None:
                    tgts, v = [n.target], self.value(f, env, vals, n.value)
                elif isinstance(n, ast.AugAssign):
                    tgts, v = [n.target], self.value(f, env, vals, n.value).join(self.value(f, env, vals, _load(n.target)))
                elif isinstance(n, (ast.For, ast.comprehension)):
                    changed |= self._bind_iter(f, env, vals, n.target, n.iter)
                    continue
                elif isinstance(n, ast.With):
                    for item in n.items:
                        if item.optional_vars is not None:
                            changed |= self._bind(vals, item.optional_vars, FRESH)
                    continue
                elif isinstance(n, ast.NamedExpr):
                    tgts, v = [n.target], self.value(f, env, vals, n.value)
                elif isinstance(n, ast.Call) and isinstance(n.func, ast.Attribute) and isinstance(n.func.value, ast.Name) \
                        and n.func.value.id in vals and vals[n.func.value.id].fields is not None:
                    # a method of a private helper class that stores into its own fields: the receiver now holds those values
                    c, self_val = self._callee_and_self(f, env, vals, n)
                    if isinstance(c, FuncInfo) and c.params and self_val is not None:
                        s = self.summary(c)
                        if s.field_writes:
                            argmap = self._bind_call(c, n, f, env, vals, self_val)
                            for p0, fld, fv in s.field_writes:
                                if p0 == c.params[0]:
                                    changed |= self._store_field(vals, n.func.value.id, fld, self._map_ret(fv, argmap))
                    continue
                if tgts is None:
                    continue
                for t in tgts:
                    changed |= self._bind(vals, t, v)
            if not changed:
                break
        # mutations
        for n in ast.walk(f.node):
            if isinstance(n, (ast.Assign, ast.AugAssign, ast.AnnAssign, ast.Delete)):
                tgts = n.targets if isinstance(n, (ast.Assign, ast.Delete)) else [n.target]
                flat = []
                for t in tgts:
                    flat.extend(t.elts if isinstance(t, (ast.Tuple, ast.List)) else [t])
                for t in flat:
                    if isinstance(t, (ast.Attribute, ast.Subscript)):
                        base = self.value(f, env, vals, t.value)
                        summ.mutates.append(Mutation(f, n, base.top, "store to %s" % ast.unparse(t)))
                    if isinstance(t, ast.Attribute) and isinstance(t.value, ast.Name) and isinstance(vals.get(t.value.id, SCALAR).fields, ParamFields) \
                            and not isinstance(n, ast.Delete):
                        pf = vals[t.value.id].fields
                        if t.attr in pf.over:
                            summ.field_writes.append((pf.p, t.attr, pf.over[t.attr]))
            elif isinstance(n, ast.Call):
                self._call_effects(f, env, vals, n, summ)
            elif isinstance(n, (ast.Global, ast.Nonlocal)):
                summ.mutates.append(Mutation(f, n, {("G", nm, 0) for nm in n.names}, "global/nonlocal declaration"))
        # return value
        ret = Val()
        for n in ast.walk(f.node):
            if isinstance(n, ast.Return) and n.value is not None:
                ret = ret.join(self.value(f, env, vals, n.value))
            elif isinstance(n, ast.Lambda) and False:
                pass
        summ.ret = ret
        self._vals_cache = getattr(self, "_vals_cache", {})
        self._vals_cache[fkey(f)] = vals
        return summ

    def _bind_iter(self, f, env, vals, target, it_expr) -> bool:
        """Bind a loop / comprehension target to the elements of the iterable; zip and enumerate are bound column by column
        (the first name of `for a, b in zip(xs, ys)` only ever holds elements of xs)."""
        if isinstance(it_expr, ast.Call) and isinstance(it_expr.func, ast.Name) and not it_expr.keywords \
                and not any(isinstance(a, ast.Starred) for a in it_expr.args) and isinstance(target, (ast.Tuple, ast.List)) \
                and not any(isinstance(t, ast.Starred) for t in target.elts) and it_expr.func.id not in vals:
            if it_expr.func.id == "zip" and len(target.elts) == len(it_expr.args):
                ch = False
                for t, a in zip(target.elts, it_expr.args):
                    ch |= self._bind_iter(f, env, vals, t, a)
                return ch
            if it_expr.func.id == "enumerate" and len(target.elts) == 2 and len(it_expr.args) >= 1:
                ch = self._bind(vals, target.elts[0], SCALAR)
                return self._bind_iter(f, env, vals, target.elts[1], it_expr.args[0]) or ch
        return self._bind(vals, target, self.value(f, env, vals, it_expr).child())

    def _bind(self, vals, target, v: Val) -> bool:
        if isinstance(target, ast.Name):
            old = vals.get(target.id)
            new = v if old is None else old.join(v)
            if old is None or new != old:
                vals[target.id] = new
                return True
            return False
        if isinstance(target, (ast.Tuple, ast.List)):
            ch = False
            elem = v.child()
            for e in target.elts:
                ch |= self._bind(vals, e, elem if not isinstance(e, ast.Starred) else v)
            return ch
        if isinstance(target, ast.Attribute) and isinstance(target.value, ast.Name) and target.value.id in vals:
            # obj.field = v: the object now (also) holds v in that field
            return self._store_field(vals, target.value.id, target.attr, v)
        return False

    def _store_field(self, vals, name, field, v: Val) -> bool:
        ch = False
        old = vals[name]
        if old.fields is None:
            return False
        # the same store may have hit any local that can be the same object: every tracked object with that field (weak update)
        for nm, cur in list(vals.items()):
            if nm != name and not (isinstance(cur.fields, dict) and (field in cur.fields or ("*" in cur.fields and isinstance(cur.fields["*"].fields, dict)
                                                                                              and field in cur.fields["*"].fields))):
                continue
            if nm != name and isinstance(old.fields, ParamFields):
                continue
            if isinstance(cur.fields, dict) and "*" in cur.fields:
                inner = cur.fields["*"].with_field(field, v)
                new = Val(levels=[a | b for a, b in zip(cur.levels, inner.wrapped().levels)], fields={"*": inner})
            else:
                new = cur.with_field(field, v)
            if new != cur:
                vals[nm] = new
                ch = True
        return ch

    # ------------------------------------------------------------------
    def value(self, f: FuncInfo, env, vals, e) -> Val:
        if e is None or isinstance(e, ast.Constant):
            return SCALAR
        v = self._value(f, env, vals, e)
        if v.all() - {F}:
            try:
                t = env.type_of(e)
            except Exception:
                t = None
            if t is not None and t.kind in ("float", "int", "str", "bool", "none"):
                return SCALAR   # immutable scalars carry no aliasing
        return v

    def _value(self, f: FuncInfo, env, vals, e) -> Val:
        if isinstance(e, ast.Name):
            if e.id in vals:
                return vals[e.id]
            r = self.repo.resolve(f.module, e.id)
            if isinstance(r, (ClassInfo, Const)):
                return Val(levels=[{("G", r.name, d)} for d in range(DEPTH)])
            return SCALAR
        if isinstance(e, ast.Attribute):
            b = self.value(f, env, vals, e.value)
            # a property call may return something fresh; stay conservative: field objects are inside the base
            bt = env.type_of(e.value).strip_opt()
            if bt.kind == "cls" and e.attr in bt.cls.methods and bt.cls.methods[e.attr].is_property:
                s = self.summary(bt.cls.methods[e.attr])
                return self._map_ret(s.ret, {bt.cls.methods[e.attr].params[0]: b} if bt.cls.methods[e.attr].params else {})
            return b.attr(e.attr)
        if isinstance(e, ast.Subscript):
            b = self.value(f, env, vals, e.value)
            if isinstance(e.slice, ast.Slice):
                bt = env.type_of(e.value).strip_opt()
                # slicing a list copies the top level; slicing an array gives a view (aliases the array itself)
                if bt.kind == "list" and not _maybe_array(bt):
                    return b.shallow_copy()
                return b.join(b.shallow_copy())   # a view: may be the array itself
            return b.child()
        if isinstance(e, ast.Call):
            return self._call_value(f, env, vals, e)
        if isinstance(e, (ast.List, ast.Tuple, ast.Set)):
            v = SCALAR
            for x in e.elts:
                v = v.join(self.value(f, env, vals, x).wrapped())
            return v
        if isinstance(e, ast.Dict):
            v = SCALAR
            for x in e.values:
                v = v.join(self.value(f, env, vals, x).wrapped())
            return v
        if isinstance(e, (ast.ListComp, ast.SetComp, ast.GeneratorExp)):
            return self.value(f, env, vals, e.elt).wrapped()
        if isinstance(e, ast.DictComp):
            return self.value(f, env, vals, e.value).wrapped()
        if isinstance(e, ast.IfExp):
            return self.value(f, env, vals, e.body).join(self.value(f, env, vals, e.orelse))
        if isinstance(e, ast.BoolOp):
            v = Val()
            for x in e.values:
                v = v.join(self.value(f, env, vals, x))
            return v
        if isinstance(e, ast.BinOp):
            lt = env.type_of(e.left).strip_opt()
            dn = {ast.Add: "__add__", ast.Mult: "__mul__"}.get(type(e.op))
            if lt.kind == "cls" and dn and dn in lt.cls.methods:
                m = lt.cls.methods[dn]
                s = self.summary(m)
                argmap = {m.params[0]: self.value(f, env, vals, e.left)}
                if len(m.params) > 1:
                    argmap[m.params[1]] = self.value(f, env, vals, e.right)
                return self._map_ret(s.ret, argmap)
            if lt.kind == "list" or isinstance(e.left, (ast.List,)):
                l, r = self.value(f, env, vals, e.left), self.value(f, env, vals, e.right)
                return l.shallow_copy().join(r.shallow_copy())
            return SCALAR
        if isinstance(e, ast.Lambda):
            return FRESH
        if isinstance(e, ast.Starred):
            return self.value(f, env, vals, e.value)
        if isinstance(e, ast.NamedExpr):
            return self.value(f, env, vals, e.value)
        return SCALAR

    def _map_ret(self, ret: Val, argmap: Dict[str, Val]) -> Val:
        """Translate a value expressed in the callee's tag space into the caller's."""
        def m(tags):
            out = set()
            for t in tags:
                if t == F:
                    out.add(F)
                elif t[0] == "P":
                    a = argmap.get(t[1])
                    if a is None:
                        continue
                    if len(t) == 4 and a.fields is not None:
                        sub = a.attr(t[3])      # the object(s) in that field of the argument, then d-1 steps inside
                        d = min(max(t[2] - 1, 0), DEPTH - 1)
                        out |= sub.levels[d]
                        if t[2] - 1 >= DEPTH - 1:
                            out |= sub.levels[-1]
                        continue
                    d = min(t[2], DEPTH - 1)
                    out |= a.levels[d]
                    if t[2] >= DEPTH - 1:
                        out |= a.levels[-1]
                else:
                    out.add(t)
            return out
        fl = None
        if isinstance(ret.fields, dict):
            fl = {k: self._map_ret(v, argmap) for k, v in ret.fields.items()}
        elif isinstance(ret.fields, ParamFields):
            a = argmap.get(ret.fields.p)
            if a is not None and a.fields is not None and not ret.fields.over:
                fl = a.fields    # the parameter object itself is handed back
        return Val(levels=[m(l) for l in ret.levels], fields=fl)

    def _bind_call(self, callee: FuncInfo, call: ast.Call, f, env, vals, self_val: Optional[Val]):
        argmap: Dict[str, Val] = {}
        params = list(callee.params)
        if self_val is not None and params:
            argmap[params.pop(0)] = self_val
        for p, a in zip(params, call.args):
            argmap[p] = self.value(f, env, vals, a)
        for kw in call.keywords:
            if kw.arg is not None:
                argmap[kw.arg] = self.value(f, env, vals, kw.value)
        return argmap

    def _callee_and_self(self, f, env, vals, call):
        c = env.resolve_callee(call)
        self_val = None
        if isinstance(c, FuncInfo) and c.cls is not None and not c.is_staticmethod and isinstance(call.func, ast.Attribute):
            recv_t = env.type_of(call.func.value)
            if c.is_classmethod:
                self_val = SCALAR
            elif recv_t.kind != "type":
                self_val = self.value(f, env, vals, call.func.value)
        elif isinstance(c, FuncInfo) and c.cls is not None and c.is_classmethod:
            self_val = SCALAR
        return c, self_val

    def _call_value(self, f, env, vals, call: ast.Call) -> Val:
        c, self_val = self._callee_and_self(f, env, vals, call)
        if isinstance(c, FuncInfo):
            s = self.summary(c)
            return self._map_ret(s.ret, self._bind_call(c, call, f, env, vals, self_val))
        if isinstance(c, ClassInfo):
            return self._constructed(f, env, vals, call)
        name = ast.unparse(call.func)
        if isinstance(c, External):
            d = c.dotted
            if d == "copy.copy" and call.args:
                return self.value(f, env, vals, call.args[0]).shallow_copy()
            if d == "copy.deepcopy":
                return FRESH
            if d in ALIAS_ARRAY and call.args:
                a = self.value(f, env, vals, call.args[0])
                return a.join(a.shallow_copy())
            return FRESH
        if isinstance(call.func, ast.Name):
            n = call.func.id
            if n in FRESH_TOP_INNER_ALIAS and call.args:
                a = Val()
                for x in call.args:
                    a = a.join(self.value(f, env, vals, x))
                return a.shallow_copy()
            if n == "getattr" and call.args:
                return self.value(f, env, vals, call.args[0]).child()
            if n == "copy" and call.args:
                return self.value(f, env, vals, call.args[0]).shallow_copy()
            if n == "deepcopy":
                return FRESH
            return SCALAR if n in ("len", "int", "float", "str", "sum", "abs", "max", "min", "round", "bool", "type", "isinstance", "hash", "print", "range") else FRESH
        if isinstance(call.func, ast.Attribute):
            b = self.value(f, env, vals, call.func.value)
            m = call.func.attr
            if m in ("copy",):
                return b.shallow_copy()
            if m in ("pop", "get", "setdefault", "__getitem__", "iloc", "loc"):
                return b.child()
            if m in ("items", "values", "keys"):
                return b.shallow_copy()
            # unknown method of an unknown / external object: result may be a view of the receiver
            bt = env.type_of(call.func.value).strip_opt()
            if bt.kind in ("any", "external", "list"):
                return b.shallow_copy()
        return FRESH

    def _constructed(self, f, env, vals, call: ast.Call) -> Val:
        v = SCALAR
        for a in call.args:
            v = v.join(self.value(f, env, vals, a).wrapped())
        for kw in call.keywords:
            v = v.join(self.value(f, env, vals, kw.value).wrapped())
        c = env.resolve_callee(call)
        if isinstance(c, ClassInfo) and _is_helper_class(c):
            # an instance of a private helper class: remember which field holds what
            fl = {}
            if c.is_attrs or getattr(c, "is_namedtuple", False):
                names = [x.name for x in c.fields]
                for nm in names:
                    fl[nm] = SCALAR
                for nm, a in zip(names, call.args):
                    fl[nm] = self.value(f, env, vals, a)
                for kw in call.keywords:
                    if kw.arg is not None:
                        fl[kw.arg] = self.value(f, env, vals, kw.value)
            elif "__init__" in c.methods:
                init = c.methods["__init__"]
                s = self.summary(init)
                argmap = self._bind_call(init, call, f, env, vals, Val(levels=v.levels, fields={}))
                for p0, fld, fv in s.field_writes:
                    if init.params and p0 == init.params[0]:
                        mv = self._map_ret(fv, argmap)
                        fl[fld] = fl[fld].join(mv) if fld in fl else mv
                        v = v.join(mv.wrapped())
            return Val(levels=v.levels, fields=fl)
        return v

    def _call_effects(self, f, env, vals, call: ast.Call, summ: Summary):
        c, self_val = self._callee_and_self(f, env, vals, call)
        if isinstance(c, FuncInfo):
            s = self.summary(c)
            argmap = self._bind_call(c, call, f, env, vals, self_val)
            for mu in s.mutates:
                tags = self._map_ret(Val(mu.tags, ()), argmap).top
                tags = {t for t in tags if t != F}
                if tags:
                    summ.mutates.append(Mutation(f, call, tags, "call of %s, which does: %s" % (c.qualname, mu.what), via=mu))
            if s.ambient:
                summ.ambient = True
            return
        if isinstance(c, ClassInfo):
            for mname in ("__attrs_post_init__",):
                if mname in c.methods:
                    m = c.methods[mname]
                    s = self.summary(m)
                    argmap = {m.params[0]: self._constructed(f, env, vals, call)}
                    for mu in s.mutates:
                        tags = {t for t in self._map_ret(Val(mu.tags, ()), argmap).top if t != F}
                        if tags:
                            summ.mutates.append(Mutation(f, call, tags, "constructor %s: %s" % (c.name, mu.what), via=mu))
            return
        if isinstance(call.func, ast.Attribute) and call.func.attr in MUTATORS:
            bt = env.type_of(call.func.value).strip_opt()
            if bt.kind == "cls" and call.func.attr in bt.cls.methods:
                return  # resolved above if it were a repo method
            base = self.value(f, env, vals, call.func.value)
            summ.mutates.append(Mutation(f, call, base.top, "%s.%s(...)" % (ast.unparse(call.func.value), call.func.attr)))
        for kw in call.keywords:
            if kw.arg == "out":
                v = self.value(f, env, vals, kw.value)
                summ.mutates.append(Mutation(f, call, v.top, "out= argument"))
        if isinstance(call.func, ast.Name) and call.func.id in ("setattr", "delattr") and call.args:
            v = self.value(f, env, vals, call.args[0])
            summ.mutates.append(Mutation(f, call, v.top, "%s(...)" % call.func.id))

    # ------------------------------------------------------------------
    def external_mutations(self, f: FuncInfo, allow_self_top=False):
        """Mutations of objects that exist before the call (parameters, module-level objects)."""
        s = self.summary(f)
        out = []
        for mu in s.mutates:
            tags = {t for t in mu.tags if t != F}
            if allow_self_top and f.params:
                tags.discard(("P", f.params[0], 0))
            if tags:
                out.append((mu, tags))
        return out


def _is_helper_class(c: ClassInfo) -> bool:
    """A private class (leading underscore): not part of the API, only ever built and used inside the package's own functions."""
    return c.name.startswith("_") and not c.name.startswith("__")


def _load(node):
    n = ast.parse(ast.unparse(node), mode="eval").body
    return n


def _maybe_array(t):
    return False


def chain(mu: Mutation) -> str:
    parts = []
    while mu is not None:
        parts.append("%s: %s" % (mu.func.loc(mu.node), mu.what if mu.via is None else mu.what.split(", which does")[0]))
        mu = mu.via
    return " -> ".join(parts)
