"""E6 — interprocedural effect (mutation) and alias analysis over the resolved program.

Objects are identified by tags: 'F' (allocated during the call), ('P', param, 0) the object bound to a parameter,
('P', param, 1) anything strictly inside it, ('G', name, d) likewise for module-level objects.  A value is a pair
(top, inner) of tag sets: what the value itself may be, and what may be reachable through its fields / elements.
Flow-insensitive inside a function, summaries bottom-up over the (acyclic) call graph.
"""
from __future__ import annotations

import ast
from typing import Dict, List, Set, Tuple, Optional

from .repo import Repo, FuncInfo, ClassInfo, External, Module, Const
from .structural import type_env
from .callgraph import CallGraph, fkey

F = "F"
MUTATORS = {"append", "extend", "insert", "pop", "remove", "sort", "reverse", "clear", "update", "setdefault", "fill", "put",
            "popitem", "add", "discard", "resize", "itemset"}
FRESH_TOP_INNER_ALIAS = {"list", "tuple", "sorted", "set", "dict", "reversed", "filter", "enumerate", "zip", "map", "iter"}
ALIAS_ARRAY = {"numpy.asarray", "numpy.asanyarray", "numpy.ravel", "numpy.reshape", "numpy.transpose", "numpy.squeeze"}


DEPTH = 4


class Val:
    """levels[d]: tags of the objects exactly d reference steps inside the value (last level: d or deeper)."""
    __slots__ = ("levels",)

    def __init__(self, top=(), inner=(), levels=None):
        if levels is not None:
            self.levels = tuple(frozenset(l) for l in levels)
        else:
            inner = frozenset(inner)
            self.levels = (frozenset(top),) + (inner,) * (DEPTH - 1)

    @property
    def top(self):
        return self.levels[0]

    @property
    def inner(self):
        r = frozenset()
        for l in self.levels[1:]:
            r |= l
        return r

    def join(self, o: "Val") -> "Val":
        return Val(levels=[a | b for a, b in zip(self.levels, o.levels)])

    def all(self):
        return self.top | self.inner

    def child(self) -> "Val":
        """what one reference step inside holds (field / element access)"""
        lv = list(self.levels[1:]) + [self.levels[-1]]
        return Val(levels=lv)

    def wrapped(self) -> "Val":
        """a fresh container / object holding this value"""
        lv = [frozenset({F})] + list(self.levels[:-1])
        lv[-1] = lv[-1] | self.levels[-1]
        return Val(levels=lv)

    def shallow_copy(self) -> "Val":
        return Val(levels=[frozenset({F})] + list(self.levels[1:]))

    def __eq__(self, o):
        return self.levels == o.levels

    def __repr__(self):
        return "Val(%s)" % [sorted(map(str, l)) for l in self.levels]


FRESH = Val({F}, {F})
SCALAR = Val({F}, ())


class Mutation:
    def __init__(self, func: FuncInfo, node, tags, what, via=None):
        self.func = func
        self.node = node
        self.tags = frozenset(tags)
        self.what = what
        self.via = via  # chain of call sites (for interprocedural mutations)

    def __repr__(self):
        return "%s mutates %s (%s)" % (self.func.loc(self.node), sorted(map(str, self.tags)), self.what)


class Summary:
    def __init__(self):
        self.mutates: List[Mutation] = []      # in the function's own tag space
        self.ret = Val()
        self.ambient = False


class Effects:
    def __init__(self, repo: Repo, cg: Optional[CallGraph] = None):
        self.repo = repo
        self.cg = cg or CallGraph(repo)
        self.summaries: Dict[str, Summary] = {}
        self.in_progress = set()

    # ------------------------------------------------------------------
    def summary(self, f: FuncInfo) -> Summary:
        k = fkey(f)
        if k in self.summaries:
            return self.summaries[k]
        if k in self.in_progress:
            return Summary()   # recursion: C10-T3 reports it
        self.in_progress.add(k)
        s = self._analyse(f)
        self.in_progress.discard(k)
        self.summaries[k] = s
        return s

    def _param_val(self, p):
        return Val(levels=[{("P", p, d)} for d in range(DEPTH)])

    def _analyse(self, f: FuncInfo) -> Summary:
        env = type_env(self.repo, f)
        vals: Dict[str, Val] = {}
        for p in f.params + f.kwonly:
            vals[p] = self._param_val(p)
        if f.vararg:
            vals[f.vararg] = self._param_val(f.vararg)
        if f.kwarg:
            vals[f.kwarg] = self._param_val(f.kwarg)
        summ = Summary()
        # fixpoint over assignments
        for _ in range(8):
            changed = False
            for n in ast.walk(f.node):
                tgts = None
                if isinstance(n, ast.Assign):
                    tgts, v = n.targets, self.value(f, env, vals, n.value)
                elif isinstance(n, ast.AnnAssign) and n.value is not None:
                    tgts, v = [n.target], self.value(f, env, vals, n.value)
                elif isinstance(n, ast.AugAssign):
                    tgts, v = [n.target], self.value(f, env, vals, n.value).join(self.value(f, env, vals, _load(n.target)))
                elif isinstance(n, (ast.For, ast.comprehension)):
                    changed |= self._bind_iter(f, env, vals, n.target, n.iter)
                    continue
                elif isinstance(n, ast.With):
                    for item in n.items:
                        if item.optional_vars is not None:
                            changed |= self._bind(vals, item.optional_vars, FRESH)
                    continue
                elif isinstance(n, ast.NamedExpr):
                    tgts, v = [n.target], self.value(f, env, vals, n.value)
                if tgts is None:
                    continue
                for t in tgts:
                    changed |= self._bind(vals, t, v)
            if not changed:
                break
        # mutations
        for n in ast.walk(f.node):
            if isinstance(n, (ast.Assign, ast.AugAssign, ast.AnnAssign, ast.Delete)):
                tgts = n.targets if isinstance(n, (ast.Assign, ast.Delete)) else [n.target]
                flat = []
                for t in tgts:
                    flat.extend(t.elts if isinstance(t, (ast.Tuple, ast.List)) else [t])
                for t in flat:
                    if isinstance(t, (ast.Attribute, ast.Subscript)):
                        base = self.value(f, env, vals, t.value)
                        summ.mutates.append(Mutation(f, n, base.top, "store to %s" % ast.unparse(t)))
            elif isinstance(n, ast.Call):
                self._call_effects(f, env, vals, n, summ)
            elif isinstance(n, (ast.Global, ast.Nonlocal)):
                summ.mutates.append(Mutation(f, n, {("G", nm, 0) for nm in n.names}, "global/nonlocal declaration"))
        # return value
        ret = Val()
        for n in ast.walk(f.node):
            if isinstance(n, ast.Return) and n.value is not None:
                ret = ret.join(self.value(f, env, vals, n.value))
            elif isinstance(n, ast.Lambda) and False:
                pass
        summ.ret = ret
        self._vals_cache = getattr(self, "_vals_cache", {})
        self._vals_cache[fkey(f)] = vals
        return summ

    def _bind_iter(self, f, env, vals, target, it_expr) -> bool:
        """Bind a loop / comprehension target to the elements of the iterable; zip and enumerate are bound column by column
        (the first name of `for a, b in zip(xs, ys)` only ever holds elements of xs)."""
        if isinstance(it_expr, ast.Call) and isinstance(it_expr.func, ast.Name) and not it_expr.keywords \
                and not any(isinstance(a, ast.Starred) for a in it_expr.args) and isinstance(target, (ast.Tuple, ast.List)) \
                and not any(isinstance(t, ast.Starred) for t in target.elts) and it_expr.func.id not in vals:
            if it_expr.func.id == "zip" and len(target.elts) == len(it_expr.args):
                ch = False
                for t, a in zip(target.elts, it_expr.args):
                    ch |= self._bind_iter(f, env, vals, t, a)
                return ch
            if it_expr.func.id == "enumerate" and len(target.elts) == 2 and len(it_expr.args) >= 1:
                ch = self._bind(vals, target.elts[0], SCALAR)
                return self._bind_iter(f, env, vals, target.elts[1], it_expr.args[0]) or ch
        return self._bind(vals, target, self.value(f, env, vals, it_expr).child())

    def _bind(self, vals, target, v: Val) -> bool:
        if isinstance(target, ast.Name):
            old = vals.get(target.id)
            new = v if old is None else old.join(v)
            if old is None or new != old:
                vals[target.id] = new
                return True
            return False
        if isinstance(target, (ast.Tuple, ast.List)):
            ch = False
            elem = v.child()
            for e in target.elts:
                ch |= self._bind(vals, e, elem if not isinstance(e, ast.Starred) else v)
            return ch
        return False

    # ------------------------------------------------------------------
    def value(self, f: FuncInfo, env, vals, e) -> Val:
        if e is None or isinstance(e, ast.Constant):
            return SCALAR
        v = self._value(f, env, vals, e)
        if v.all() - {F}:
            try:
                t = env.type_of(e)
            except Exception:
                t = None
            if t is not None and t.kind in ("float", "int", "str", "bool", "none"):
                return SCALAR   # immutable scalars carry no aliasing
        return v

    def _value(self, f: FuncInfo, env, vals, e) -> Val:
        if isinstance(e, ast.Name):
            if e.id in vals:
                return vals[e.id]
            r = self.repo.resolve(f.module, e.id)
            if isinstance(r, (ClassInfo, Const)):
                return Val(levels=[{("G", r.name, d)} for d in range(DEPTH)])
            return SCALAR
        if isinstance(e, ast.Attribute):
            b = self.value(f, env, vals, e.value)
            # a property call may return something fresh; stay conservative: field objects are inside the base
            bt = env.type_of(e.value).strip_opt()
            if bt.kind == "cls" and e.attr in bt.cls.methods and bt.cls.methods[e.attr].is_property:
                s = self.summary(bt.cls.methods[e.attr])
                return self._map_ret(s.ret, {bt.cls.methods[e.attr].params[0]: b} if bt.cls.methods[e.attr].params else {})
            return b.child()
        if isinstance(e, ast.Subscript):
            b = self.value(f, env, vals, e.value)
            if isinstance(e.slice, ast.Slice):
                bt = env.type_of(e.value).strip_opt()
                # slicing a list copies the top level; slicing an array gives a view (aliases the array itself)
                if bt.kind == "list" and not _maybe_array(bt):
                    return b.shallow_copy()
                return b.join(b.shallow_copy())   # a view: may be the array itself
            return b.child()
        if isinstance(e, ast.Call):
            return self._call_value(f, env, vals, e)
        if isinstance(e, (ast.List, ast.Tuple, ast.Set)):
            v = SCALAR
            for x in e.elts:
                v = v.join(self.value(f, env, vals, x).wrapped())
            return v
        if isinstance(e, ast.Dict):
            v = SCALAR
            for x in e.values:
                v = v.join(self.value(f, env, vals, x).wrapped())
            return v
        if isinstance(e, (ast.ListComp, ast.SetComp, ast.GeneratorExp)):
            return self.value(f, env, vals, e.elt).wrapped()
        if isinstance(e, ast.DictComp):
            return self.value(f, env, vals, e.value).wrapped()
        if isinstance(e, ast.IfExp):
            return self.value(f, env, vals, e.body).join(self.value(f, env, vals, e.orelse))
        if isinstance(e, ast.BoolOp):
            v = Val()
            for x in e.values:
                v = v.join(self.value(f, env, vals, x))
            return v
        if isinstance(e, ast.BinOp):
            lt = env.type_of(e.left).strip_opt()
            dn = {ast.Add: "__add__", ast.Mult: "__mul__"}.get(type(e.op))
            if lt.kind == "cls" and dn and dn in lt.cls.methods:
                m = lt.cls.methods[dn]
                s = self.summary(m)
                argmap = {m.params[0]: self.value(f, env, vals, e.left)}
                if len(m.params) > 1:
                    argmap[m.params[1]] = self.value(f, env, vals, e.right)
                return self._map_ret(s.ret, argmap)
            if lt.kind == "list" or isinstance(e.left, (ast.List,)):
                l, r = self.value(f, env, vals, e.left), self.value(f, env, vals, e.right)
                return l.shallow_copy().join(r.shallow_copy())
            return SCALAR
        if isinstance(e, ast.Lambda):
            return FRESH
        if isinstance(e, ast.Starred):
            return self.value(f, env, vals, e.value)
        if isinstance(e, ast.NamedExpr):
            return self.value(f, env, vals, e.value)
        return SCALAR

    def _map_ret(self, ret: Val, argmap: Dict[str, Val]) -> Val:
        """Translate a value expressed in the callee's tag space into the caller's."""
        def m(tags):
            out = set()
            for t in tags:
                if t == F:
                    out.add(F)
                elif t[0] == "P":
                    a = argmap.get(t[1])
                    if a is None:
                        continue
                    d = min(t[2], DEPTH - 1)
                    out |= a.levels[d]
                    if t[2] >= DEPTH - 1:
                        out |= a.levels[-1]
                else:
                    out.add(t)
            return out
        return Val(levels=[m(l) for l in ret.levels])

    def _bind_call(self, callee: FuncInfo, call: ast.Call, f, env, vals, self_val: Optional[Val]):
        argmap: Dict[str, Val] = {}
        params = list(callee.params)
        if self_val is not None and params:
            argmap[params.pop(0)] = self_val
        for p, a in zip(params, call.args):
            argmap[p] = self.value(f, env, vals, a)
        for kw in call.keywords:
            if kw.arg is not None:
                argmap[kw.arg] = self.value(f, env, vals, kw.value)
        return argmap

    def _callee_and_self(self, f, env, vals, call):
        c = env.resolve_callee(call)
        self_val = None
        if isinstance(c, FuncInfo) and c.cls is not None and not c.is_staticmethod and isinstance(call.func, ast.Attribute):
            recv_t = env.type_of(call.func.value)
            if c.is_classmethod:
                self_val = SCALAR
            elif recv_t.kind != "type":
                self_val = self.value(f, env, vals, call.func.value)
        elif isinstance(c, FuncInfo) and c.cls is not None and c.is_classmethod:
            self_val = SCALAR
        return c, self_val

    def _call_value(self, f, env, vals, call: ast.Call) -> Val:
        c, self_val = self._callee_and_self(f, env, vals, call)
        if isinstance(c, FuncInfo):
            s = self.summary(c)
            return self._map_ret(s.ret, self._bind_call(c, call, f, env, vals, self_val))
        if isinstance(c, ClassInfo):
            return self._constructed(f, env, vals, call)
        name = ast.unparse(call.func)
        if isinstance(c, External):
            d = c.dotted
            if d == "copy.copy" and call.args:
                return self.value(f, env, vals, call.args[0]).shallow_copy()
            if d == "copy.deepcopy":
                return FRESH
            if d in ALIAS_ARRAY and call.args:
                a = self.value(f, env, vals, call.args[0])
                return a.join(a.shallow_copy())
            return FRESH
        if isinstance(call.func, ast.Name):
            n = call.func.id
            if n in FRESH_TOP_INNER_ALIAS and call.args:
                a = Val()
                for x in call.args:
                    a = a.join(self.value(f, env, vals, x))
                return a.shallow_copy()
            if n == "getattr" and call.args:
                return self.value(f, env, vals, call.args[0]).child()
            if n == "copy" and call.args:
                return self.value(f, env, vals, call.args[0]).shallow_copy()
            if n == "deepcopy":
                return FRESH
            return SCALAR if n in ("len", "int", "float", "str", "sum", "abs", "max", "min", "round", "bool", "type", "isinstance", "hash", "print", "range") else FRESH
        if isinstance(call.func, ast.Attribute):
            b = self.value(f, env, vals, call.func.value)
            m = call.func.attr
            if m in ("copy",):
                return b.shallow_copy()
            if m in ("pop", "get", "setdefault", "__getitem__", "iloc", "loc"):
                return b.child()
            if m in ("items", "values", "keys"):
                return b.shallow_copy()
            # unknown method of an unknown / external object: result may be a view of the receiver
            bt = env.type_of(call.func.value).strip_opt()
            if bt.kind in ("any", "external", "list"):
                return b.shallow_copy()
        return FRESH

    def _constructed(self, f, env, vals, call: ast.Call) -> Val:
        v = SCALAR
        for a in call.args:
            v = v.join(self.value(f, env, vals, a).wrapped())
        for kw in call.keywords:
            v = v.join(self.value(f, env, vals, kw.value).wrapped())
        return v

    def _call_effects(self, f, env, vals, call: ast.Call, summ: Summary):
        c, self_val = self._callee_and_self(f, env, vals, call)
        if isinstance(c, FuncInfo):
            s = self.summary(c)
            argmap = self._bind_call(c, call, f, env, vals, self_val)
            for mu in s.mutates:
                tags = self._map_ret(Val(mu.tags, ()), argmap).top
                tags = {t for t in tags if t != F}
                if tags:
                    summ.mutates.append(Mutation(f, call, tags, "call of %s, which does: %s" % (c.qualname, mu.what), via=mu))
            if s.ambient:
                summ.ambient = True
            return
        if isinstance(c, ClassInfo):
            for mname in ("__attrs_post_init__",):
                if mname in c.methods:
                    m = c.methods[mname]
                    s = self.summary(m)
                    argmap = {m.params[0]: self._constructed(f, env, vals, call)}
                    for mu in s.mutates:
                        tags = {t for t in self._map_ret(Val(mu.tags, ()), argmap).top if t != F}
                        if tags:
                            summ.mutates.append(Mutation(f, call, tags, "constructor %s: %s" % (c.name, mu.what), via=mu))
            return
        if isinstance(call.func, ast.Attribute) and call.func.attr in MUTATORS:
            bt = env.type_of(call.func.value).strip_opt()
            if bt.kind == "cls" and call.func.attr in bt.cls.methods:
                return  # resolved above if it were a repo method
            base = self.value(f, env, vals, call.func.value)
            summ.mutates.append(Mutation(f, call, base.top, "%s.%s(...)" % (ast.unparse(call.func.value), call.func.attr)))
        for kw in call.keywords:
            if kw.arg == "out":
                v = self.value(f, env, vals, kw.value)
                summ.mutates.append(Mutation(f, call, v.top, "out= argument"))
        if isinstance(call.func, ast.Name) and call.func.id in ("setattr", "delattr") and call.args:
            v = self.value(f, env, vals, call.args[0])
            summ.mutates.append(Mutation(f, call, v.top, "%s(...)" % call.func.id))

    # ------------------------------------------------------------------
    def external_mutations(self, f: FuncInfo, allow_self_top=False):
        """Mutations of objects that exist before the call (parameters, module-level objects)."""
        s = self.summary(f)
        out = []
        for mu in s.mutates:
            tags = {t for t in mu.tags if t != F}
            if allow_self_top and f.params:
                tags.discard(("P", f.params[0], 0))
            if tags:
                out.append((mu, tags))
        return out


def _load(node):
    n = ast.parse(ast.unparse(node), mode="eval").body
    return n


def _maybe_array(t):
    return False


def chain(mu: Mutation) -> str:
    parts = []
    while mu is not None:
        parts.append("%s: %s" % (mu.func.loc(mu.node), mu.what if mu.via is None else mu.what.split(", which does")[0]))
        mu = mu.via
    return " -> ".join(parts)
