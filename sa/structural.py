"""Structural helpers shared by the kind-S rules."""
from __future__ import annotations

import ast
from typing import List, Tuple

from .repo import Repo, FuncInfo, ClassInfo
from .tyinfer import TypeEnv

_ENV_CACHE = {}


def type_env(repo: Repo, func: FuncInfo) -> TypeEnv:
    k = (id(repo), func.module.name, func.qualname)
    if k not in _ENV_CACHE:
        _ENV_CACHE[k] = TypeEnv(repo, func)
    return _ENV_CACHE[k]


def field_owners(repo: Repo, attr: str) -> List[ClassInfo]:
    return [c for c in repo.all_classes() if c.field(attr) is not None or attr in c.class_attrs]


def attribute_writes(repo: Repo, cls_name: str, attr: str):
    """All statements that (may) assign <obj of cls_name>.<attr>.
    Returns list of (func, node, certainty) with certainty 'typed' | 'untyped-unique'."""
    owners = field_owners(repo, attr)
    unique = len(owners) == 1 and owners[0].name == cls_name
    hits = []
    for f in repo.all_functions():
        env = None
        for node in ast.walk(f.node):
            targets = []
            if isinstance(node, ast.Assign):
                targets = node.targets
            elif isinstance(node, (ast.AugAssign, ast.AnnAssign)):
                targets = [node.target]
            elif isinstance(node, ast.Delete):
                targets = node.targets
            elif isinstance(node, ast.Call) and isinstance(node.func, ast.Name) and node.func.id == "setattr" \
                    and len(node.args) >= 2 and isinstance(node.args[1], ast.Constant) and node.args[1].value == attr:
                targets = [ast.Attribute(value=node.args[0], attr=attr, ctx=ast.Store(), lineno=node.lineno)]
            elif isinstance(node, ast.Call) and isinstance(node.func, ast.Attribute) and node.func.attr == "__setattr__" \
                    and len(node.args) >= 2 and isinstance(node.args[-2], ast.Constant) and node.args[-2].value == attr:
                targets = [ast.Attribute(value=node.args[0] if len(node.args) == 3 else node.func.value, attr=attr,
                                         ctx=ast.Store(), lineno=node.lineno)]
            flat = []
            for t in targets:
                if isinstance(t, (ast.Tuple, ast.List)):
                    flat.extend(t.elts)
                else:
                    flat.append(t)
            for t in flat:
                if isinstance(t, ast.Attribute) and t.attr == attr:
                    if env is None:
                        env = type_env(repo, f)
                    bt = env.type_of(t.value).strip_opt()
                    if bt.kind == "cls" and bt.cls.name == cls_name:
                        hits.append((f, node, "typed"))
                    elif bt.kind in ("any",) and unique:
                        hits.append((f, node, "untyped-unique"))
    return hits


def calls_in(func: FuncInfo):
    return [n for n in ast.walk(func.node) if isinstance(n, ast.Call)]


# --------------------------------------------------------------------------------------------------
# def-use expansion: an expression with its temporaries, nested helper functions and lambdas substituted away
# --------------------------------------------------------------------------------------------------
class _Subst(ast.NodeTransformer):
    def __init__(self, mapping):
        self.mapping = mapping

    def visit_Name(self, node):
        if isinstance(node.ctx, ast.Load) and node.id in self.mapping:
            import copy
            return copy.deepcopy(self.mapping[node.id])
        return node


def _single_defs(func_node):
    """name -> value expression, for local names bound exactly once by a plain assignment (and never otherwise);
    nested defs / lambdas with a single return expression are recorded as callables."""
    count = {}
    values = {}
    callables = {}
    own = set()
    for n in ast.walk(func_node):
        if isinstance(n, (ast.FunctionDef, ast.Lambda)) and n is not func_node:
            for m in ast.walk(n):
                if m is not n:
                    own.add(id(m))
    for n in ast.walk(func_node):
        if id(n) in own:
            continue
        if isinstance(n, ast.Assign):
            for t in n.targets:
                if isinstance(t, ast.Name):
                    count[t.id] = count.get(t.id, 0) + 1
                    values[t.id] = n.value
                else:
                    for x in ast.walk(t):
                        if isinstance(x, ast.Name) and isinstance(x.ctx, ast.Store):
                            count[x.id] = count.get(x.id, 0) + 2
        elif isinstance(n, (ast.AugAssign, ast.AnnAssign)):
            t = n.target
            if isinstance(t, ast.Name):
                count[t.id] = count.get(t.id, 0) + (2 if isinstance(n, ast.AugAssign) else 1)
                if isinstance(n, ast.AnnAssign) and n.value is not None:
                    values[t.id] = n.value
        elif isinstance(n, (ast.For, ast.comprehension)):
            for x in ast.walk(n.target):
                if isinstance(x, ast.Name):
                    count[x.id] = count.get(x.id, 0) + 2
        elif isinstance(n, (ast.With,)):
            for it in n.items:
                if it.optional_vars is not None:
                    for x in ast.walk(it.optional_vars):
                        if isinstance(x, ast.Name):
                            count[x.id] = count.get(x.id, 0) + 2
        elif isinstance(n, ast.FunctionDef) and n is not func_node:
            rets = [r for r in ast.walk(n) if isinstance(r, ast.Return)]
            body = [s for s in n.body if not (isinstance(s, ast.Expr) and isinstance(s.value, ast.Constant))]
            if len(rets) == 1 and len(body) == 1 and body[0] is rets[0] and rets[0].value is not None:
                callables[n.name] = ([a.arg for a in n.args.posonlyargs + n.args.args], rets[0].value)
            count[n.name] = count.get(n.name, 0) + 1
    for name, v in list(values.items()):
        if count.get(name) == 1 and isinstance(v, ast.Lambda):
            callables[name] = ([a.arg for a in v.args.posonlyargs + v.args.args], v.body)
    single = {k: v for k, v in values.items() if count.get(k) == 1 and not isinstance(v, ast.Lambda)}
    return single, callables


def expand(expr: ast.AST, func_node, depth=8, keep=()) -> ast.AST:
    """expr with every single-assignment temporary of the function replaced by its definition and every call of a local
    one-expression helper replaced by that expression (parameters substituted).  Names in keep are left alone."""
    import copy
    single, callables = _single_defs(func_node)
    for k in keep:
        single.pop(k, None)
    e = copy.deepcopy(expr)
    for _ in range(depth):
        changed = False

        class T(ast.NodeTransformer):
            def visit_Call(self, node):
                nonlocal changed
                self.generic_visit(node)
                if isinstance(node.func, ast.Name) and node.func.id in callables:
                    params, body = callables[node.func.id]
                    m = {}
                    for p, a in zip(params, node.args):
                        m[p] = a
                    for kw in node.keywords:
                        if kw.arg is not None:
                            m[kw.arg] = kw.value
                    if set(params) <= set(m):
                        changed = True
                        return _Subst(m).visit(copy.deepcopy(body))
                return node

            def visit_Name(self, node):
                nonlocal changed
                if isinstance(node.ctx, ast.Load) and node.id in single:
                    changed = True
                    return copy.deepcopy(single[node.id])
                return node
        e = T().visit(e)
        if not changed:
            break
    return ast.fix_missing_locations(e)



def _mutable_literal(d) -> bool:
    return isinstance(d, (ast.List, ast.Dict, ast.Set, ast.ListComp, ast.DictComp, ast.SetComp)) or \
        (isinstance(d, ast.Call) and ast.unparse(d.func) in ("list", "dict", "set", "numpy.array", "numpy.zeros", "defaultdict", "collections.defaultdict"))


_MUTATING = {"append", "extend", "insert", "pop", "remove", "sort", "reverse", "clear", "update", "setdefault", "add", "discard", "popitem"}


def _field_is_mutated(repo, name) -> bool:
    """Some function in the package changes a container reached as <expr>.<name> in place (method call, item store, +=)."""
    for f in repo.all_functions():
        for n in ast.walk(f.node):
            if isinstance(n, ast.Call) and isinstance(n.func, ast.Attribute) and n.func.attr in _MUTATING \
                    and isinstance(n.func.value, ast.Attribute) and n.func.value.attr == name:
                return True
            if isinstance(n, (ast.Assign, ast.AugAssign, ast.Delete)):
                tg = n.targets if isinstance(n, (ast.Assign, ast.Delete)) else [n.target]
                for t in tg:
                    if isinstance(t, ast.Subscript) and isinstance(t.value, ast.Attribute) and t.value.attr == name:
                        return True
                    if isinstance(n, ast.AugAssign) and isinstance(t, ast.Attribute) and t.attr == name:
                        return True
    return False


def hidden_state(repo, functions=None, classes=None):
    """Containers that outlive a call without being anyone's argument: [(where, what)] for
    * a mutable default value of a parameter (one object for all calls),
    * a mutable literal as a class-level default — for an attrs class `xs: List = []` is ONE list shared by every instance
      (attr.Factory(list) makes one per instance), for a plain class it is a class attribute."""
    out = []
    for f in (functions if functions is not None else repo.all_functions()):
        for p, d in f.defaults.items():
            if _mutable_literal(d):
                out.append((f.loc(), "%s: parameter %s has the mutable default %s (one object shared by all calls)" % (f.qualname, p, ast.unparse(d)[:40])))
    for c in (classes if classes is not None else repo.all_classes()):
        for st in c.node.body:
            v = None
            if isinstance(st, ast.AnnAssign) and st.value is not None and isinstance(st.target, ast.Name):
                v, nm = st.value, st.target.id
            elif isinstance(st, ast.Assign) and len(st.targets) == 1 and isinstance(st.targets[0], ast.Name):
                v, nm = st.value, st.targets[0].id
            if v is None:
                continue
            if isinstance(v, ast.Call) and ast.unparse(v.func) in ("attr.ib", "attr.attrib", "attrs.field", "attr.field", "dataclasses.field", "field"):
                dv = [k.value for k in v.keywords if k.arg == "default"]
                v = dv[0] if dv else None
            if v is not None and _mutable_literal(v) and _field_is_mutated(repo, nm):
                out.append(("%s:%d" % (c.module.relpath, st.lineno),
                            "%s.%s has the mutable class-level default %s (shared by every instance)" % (c.name, nm, ast.unparse(v)[:40])))
    return out
