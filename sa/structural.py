"""Structural helpers shared by the kind-S rules."""
from __future__ import annotations

import ast
from typing import List, Tuple

from .repo import Repo, FuncInfo, ClassInfo
from .tyinfer import TypeEnv

_ENV_CACHE = {}


def type_env(repo: Repo, func: FuncInfo) -> TypeEnv:
    k = (id(repo), func.module.name, func.qualname)
    if k not in _ENV_CACHE:
        _ENV_CACHE[k] = TypeEnv(repo, func)
    return _ENV_CACHE[k]


def field_owners(repo: Repo, attr: str) -> List[ClassInfo]:
    return [c for c in repo.all_classes() if c.field(attr) is not None or attr in c.class_attrs]


def attribute_writes(repo: Repo, cls_name: str, attr: str):
    """All statements that (may) assign <obj of cls_name>.<attr>.
    Returns list of (func, node, certainty) with certainty 'typed' | 'untyped-unique'."""
    owners = field_owners(repo, attr)
    unique = len(owners) == 1 and owners[0].name == cls_name
    hits = []
    for f in repo.all_functions():
        env = None
        for node in ast.walk(f.node):
            targets = []
            if isinstance(node, ast.Assign):
                targets = node.targets
            elif isinstance(node, (ast.AugAssign, ast.AnnAssign)):
                targets = [node.target]
            elif isinstance(node, ast.Delete):
                targets = node.targets
            elif isinstance(node, ast.Call) and isinstance(node.func, ast.Name) and node.func.id == "setattr" \
                    and len(node.args) >= 2 and isinstance(node.args[1], ast.Constant) and node.args[1].value == attr:
                targets = [ast.Attribute(value=node.args[0], attr=attr, ctx=ast.Store(), lineno=node.lineno)]
            elif isinstance(node, ast.Call) and isinstance(node.func, ast.Attribute) and node.func.attr == "__setattr__" \
                    and len(node.args) >= 2 and isinstance(node.args[-2], ast.Constant) and node.args[-2].value == attr:
                targets = [ast.Attribute(value=node.args[0] if len(node.args) == 3 else node.func.value, attr=attr,
                                         ctx=ast.Store(), lineno=node.lineno)]
            flat = []
            for t in targets:
                if isinstance(t, (ast.Tuple, ast.List)):
                    flat.extend(t.elts)
                else:
                    flat.append(t)
            for t in flat:
                if isinstance(t, ast.Attribute) and t.attr == attr:
                    if env is None:
                        env = type_env(repo, f)
                    bt = env.type_of(t.value).strip_opt()
                    if bt.kind == "cls" and bt.cls.name == cls_name:
                        hits.append((f, node, "typed"))
                    elif bt.kind in ("any",) and unique:
                        hits.append((f, node, "untyped-unique"))
    return hits


def calls_in(func: FuncInfo):
    return [n for n in ast.walk(func.node) if isinstance(n, ast.Call)]
