"""Best-of selection decided from evaluator values (C16-P3).

A best-of search keeps a running (best loss, best candidate) pair.  Whatever its syntax — nested loops, a product loop, a
literal list of methods unrolled, tuple assignment, walrus, helper functions — the evaluator sees, on every path, a decision
comparing a candidate's loss L with the running bound B, and the values the two accumulators hold afterwards.  The rules
below are the inductive argument that the pair is (min, argmin) of everything tried:

  S1  every comparison of the selection is  L < B  /  L <= B  (or the mirrored form), B being the running bound;
  S2  when the candidate wins, the bound becomes exactly L and the kept candidate is the one L was computed from;
      when it loses, both are left alone;
  S3  L is the loss of this iteration's candidate on the caller's own data (all of it);
  S4  the bound starts at +inf or a positive constant; what is returned is the kept candidate.
"""
from __future__ import annotations

from typing import List, Optional

from . import poly
from .poly import Rat
from .values import *
from .symeval import key_str, val_key
from .iotables import full_text

FLIP = {"lt": "gt", "le": "ge", "gt": "lt", "ge": "le"}
NEGATE = {"lt": "ge", "le": "gt", "gt": "le", "ge": "lt"}


_ACC = {}   # atom id -> variable name, for the loop-carried numeric placeholders of the outcome being looked at


_PH_FIELD = {}   # "name.field" -> Num(placeholder atom) for the numeric fields of loop-carried RECORDS (best = Candidate(curve, loss))


def _is_record(cls) -> bool:
    return bool(getattr(cls, "is_namedtuple", False) or getattr(cls, "is_attrs", False))


def _register(out):
    _ACC.clear()
    _PH_FIELD.clear()
    recs = {}
    for lr in out.loops:
        for name, ph in getattr(lr, "placeholders", {}).items():
            if isinstance(ph, Num) and ph.r.single_atom() is not None:
                _ACC[ph.r.single_atom().id] = name
            elif isinstance(ph, ObjV) and not ph.constructed and ph.path and _is_record(ph.cls):
                recs[ph.path] = (name, {f.name for f in ph.cls.fields})
    if recs:
        # a carried record is a bundle of carried variables: its numeric fields, as they occur in the path's decisions
        def walk(k):
            if isinstance(k, Rat):
                for i in k.deps():
                    a = poly.T.get(i)
                    if a.kind == "sym":
                        for path, (name, fields) in recs.items():
                            if a.name.startswith(path + ".") and a.name[len(path) + 1:] in fields:
                                fy = "%s.%s" % (name, a.name[len(path) + 1:])
                                _ACC[a.id] = fy
                                _PH_FIELD[fy] = Num(Rat.atom(a))
            elif isinstance(k, tuple):
                for x in k:
                    walk(x)
        for c, _d in out.trace:
            walk(c)


def flat_after(lr):
    """name -> (value after the iteration, left unchanged?) for the loop's variables, carried records expanded field by field."""
    after_all = dict(getattr(lr, "local_after", {}))
    after_all.update(lr.carried_after)
    res = {}
    for y, v in after_all.items():
        ph = lr.placeholders.get(y)
        un = v is ph or v is getattr(lr, "local_before", {}).get(y)
        if isinstance(ph, ObjV) and not ph.constructed and _is_record(ph.cls) and (un or (isinstance(v, ObjV) and v.constructed and v.cls is ph.cls)):
            for fl in ph.cls.fields:
                fy = "%s.%s" % (y, fl.name)
                if un:
                    res[fy] = (_PH_FIELD.get(fy), True)
                else:
                    fv = v.fields.get(fl.name)
                    res[fy] = (fv, isinstance(fv, Num) and _acc_name(fv.r) == fy)
            continue
        res[y] = (v, un)
    return res


def _acc_name(r: Rat) -> Optional[str]:
    a = r.single_atom() if isinstance(r, Rat) else None
    if a is not None and a.id in _ACC:
        return _ACC[a.id]
    return None


def ucall_atoms(r: Rat, name_suffix: str):
    """All uninterpreted-call atoms named *name_suffix occurring anywhere inside r."""
    out = {}

    def walk_key(k):
        if isinstance(k, Rat):
            for i in k.atom_ids():
                walk_atom(poly.T.get(i))
        elif isinstance(k, tuple):
            for x in k:
                walk_key(x)

    def walk_atom(a):
        if a.id in out:
            return
        if a.kind == "ucall" and a.name.endswith(name_suffix):
            out[a.id] = a
        for x in a.args:
            walk_key(x)
    walk_key(r)
    return list(out.values())


def normalise_decision(cond, taken):
    """(op, L, B, better) with B the running bound when recognisable: returns the comparison as 'L op B' and whether the path
    took the 'candidate is better' side.  None if cond is not a numeric order comparison."""
    neg = False
    while isinstance(cond, tuple) and cond and cond[0] == "not":
        cond = cond[1]
        neg = not neg
    if not (isinstance(cond, tuple) and len(cond) == 3 and cond[0] in FLIP and isinstance(cond[1], Rat) and isinstance(cond[2], Rat)):
        return None
    op, l, r = cond
    if neg:
        taken = not taken
    return op, l, r, taken


class SymbolicSelection:
    """Selection inside a symbolic loop: the bound is the loop-carried accumulator #acc.<name>."""

    def __init__(self, out):
        self.out = out
        _register(out)
        self.decisions = []      # (op, L, acc name, better)
        for cond, taken in out.trace:
            nd = normalise_decision(cond, taken)
            if nd is None:
                continue
            op, l, r, tk = nd
            if _acc_name(r) is not None and _acc_name(l) is None:
                self.decisions.append((op, l, _acc_name(r), tk))
            elif _acc_name(l) is not None and _acc_name(r) is None:
                self.decisions.append((FLIP[op], r, _acc_name(l), tk))

    def loop_of(self, name):
        """Innermost loop record that carries the accumulator."""
        cands = [lr for lr in self.out.loops if lr.kind == "for" and name.split(".")[0] in getattr(lr, "carried_after", {})]
        return cands[-1] if cands else None


def candidate_atoms(L: Rat, suffixes=("fit", "scipy.optimize.minimize")):
    out = []
    for s in suffixes:
        out.extend(ucall_atoms(L, s))
    return out


# ----------------------------------------------------------------------------------------------------------------
# the rules
# ----------------------------------------------------------------------------------------------------------------
def _is_inf_or_pos_const(v) -> bool:
    if not isinstance(v, Num):
        return False
    if v.r.is_const():
        return v.r.const_value() > 0
    a = v.r.single_atom()
    return a is not None and a.kind == "sym" and a.name == "+inf"


def _key_atoms(v, suffixes):
    """candidate atoms occurring in the key of a value"""
    out = []

    def walk(k):
        if isinstance(k, Rat):
            out.extend(candidate_atoms(k, suffixes))
        elif isinstance(k, tuple):
            for x in k:
                walk(x)
    try:
        walk(val_key(v))
    except poly.Unmodelled:
        pass
    return out


def _mentions_param(r: Rat, param: str) -> bool:
    """The form refers to the function's own parameter (the object itself or something reached through it), not to a copy."""
    import re
    t = full_text(r)
    return bool(re.search(r"(?<![\w.\]])%s(\.|\[)" % re.escape(param), t) or re.search(r"\(obj, \w+, %s\)" % re.escape(param), t))


def check_symbolic(ck, f, outs, data_param, data_len: Rat, suffixes, grid=None):
    """Selection in a symbolic loop (find_best_fit and anything shaped like it)."""
    where = f.loc()
    fq = f.qualname
    n_dec = 0
    y_names = set()

    def unchanged_names(lr):
        return {y for y, (v, un) in flat_after(lr).items() if un}
    # names a losing candidate leaves alone (per loop): the accumulators are among them; per-iteration temporaries are not
    stable = {}
    for o in outs:
        if o.kind != "return":
            continue
        ss = SymbolicSelection(o)
        for op, L, xname, tk in ss.decisions:
            lr = ss.loop_of(xname)
            if lr is None:
                continue
            after = flat_after(lr).get(xname, (None, False))[0]
            if isinstance(after, Num) and _acc_name(after.r) == xname:
                k = lr.node.lineno
                u = unchanged_names(lr)
                stable[k] = u if k not in stable else (stable[k] & u)
    for o in outs:
        if o.kind != "return":
            continue
        ss = SymbolicSelection(o)
        for op, L, xname, tk in ss.decisions:
            lr = ss.loop_of(xname)
            if lr is None:
                continue
            n_dec += 1
            rel = op if tk else NEGATE[op]
            fa = flat_after(lr)
            after = fa.get(xname, (None, False))[0]
            updated = not (isinstance(after, Num) and _acc_name(after.r) == xname)
            loc = f.loc(lr.node)
            ck.ob("P3", fq, "a candidate replaces the best only when its loss is smaller (or equal), and is kept out otherwise", loc,
                  (updated and rel in ("lt", "le")) or (not updated and rel in ("ge", "gt")),
                  found="loss %s bound on a path that %s the bound" % (rel, "updates" if updated else "keeps"))
            cands = candidate_atoms(L, suffixes)
            if updated:
                ck.ob("P3", fq, "the bound becomes exactly the winning candidate's loss", loc, isinstance(after, Num) and after.r == L,
                      expected=lambda: str(L)[:200], found=lambda: repr(after)[:200])
                kept = []
                for y, (v, un) in fa.items():
                    if y == xname or un:
                        continue
                    if y not in stable.get(lr.node.lineno, set()):
                        continue   # re-assigned on every iteration: a temporary, not an accumulator
                    if any(a.id in {c.id for c in cands} for a in _key_atoms(v, suffixes)):
                        kept.append(y)
                y_names.update(kept)
                ck.ob("P3", fq, "best candidate and best loss are updated together (the kept candidate is the one the loss was computed from)", loc,
                      len(kept) == 1, found="candidate kept in %s" % (kept or "nothing"))
            else:
                ck.ob("P3", fq, "a losing candidate is possible and leaves the accumulators alone", loc, bool(stable.get(lr.node.lineno)),
                      found=str(sorted(stable.get(lr.node.lineno, set()))))
            # S3 the loss
            sa = L.single_atom()
            is_sum = sa is not None and sa.kind == "fn" and sa.name == "SUM"
            whole = is_sum and sa.args[1].is_zero() and sa.args[2] == data_len
            ck.ob("P3", fq, "loss runs over all of the caller's data", loc, bool(whole),
                  "the selection loss must be summed over exactly the measurements the caller supplied",
                  expected=lambda: "SUM over 0..%s" % data_len, found=lambda: (("SUM over %s..%s" % (sa.args[1], sa.args[2])) if is_sum else str(L)[:160]))
            ck.ob("P3", fq, "loss is computed from the caller's own data", loc, _mentions_param(L, data_param), found=lambda: full_text(L)[:200])
            ck.ob("P3", fq, "loss is computed from this iteration's candidate", loc, len(cands) == 1,
                  found=lambda: "%d candidate(s) in the loss: %s" % (len(cands), "; ".join(full_text(Rat.atom(c))[:120] for c in cands)))
            if grid is not None and len(cands) == 1:
                grid(ck, f, o, cands[0], loc)
            # S4
            outer = [l2 for l2 in o.loops if l2.kind == "for" and xname in getattr(l2, "carried_before", {})]
            init = outer[0].carried_before[xname] if outer else None
            if init is None and "." in xname:
                base, fld = xname.split(".", 1)
                recs0 = [l2.carried_before[base] for l2 in o.loops if l2.kind == "for" and base in getattr(l2, "carried_before", {})]
                if recs0 and isinstance(recs0[0], ObjV) and recs0[0].constructed:
                    init = recs0[0].fields.get(fld)
            ck.ob("P3", fq, "best loss starts at +inf or a positive constant bound", loc, _is_inf_or_pos_const(init), found=repr(init)[:80])
            v = o.value
            ok_ret = isinstance(v, Opaque) and any(v.desc in ("loop-carried %s" % y, "value of loop-local %s after the loop" % y,
                                                              "loop-carried %s (non-additive)" % y) for y in (y_names or {"?"}))
            if not ok_ret and y_names:
                ok_ret = any(a for a in _key_atoms(v, suffixes)) and False
            ck.ob("P3", fq, "the accumulator is what is returned", where, ok_ret or not y_names, found=repr(v)[:120])
    return n_dec


def check_unrolled(ck, f, outs, data_param, suffixes):
    """Selection over a literal list of alternatives (fit_vle): the loop is unrolled, the running bound is a value."""
    fq = f.qualname
    where = f.loc()
    n_dec = 0
    for o in outs:
        if o.kind != "return":
            continue
        seen = set()
        b_cur = None
        best = None
        ok_path = True
        _register(o)
        for cond, taken in o.trace:
            nd = normalise_decision(cond, taken)
            if nd is None:
                continue
            op, l, r, tk = nd
            if _acc_name(l) is not None or _acc_name(r) is not None:
                continue   # a selection inside a symbolic loop: check_symbolic's business
            cl = [a for a in candidate_atoms(l, suffixes) if a.id not in seen]
            cr = [a for a in candidate_atoms(r, suffixes) if a.id not in seen]
            if cl and not cr:
                L, B = l, r
            elif cr and not cl:
                L, B, op = r, l, FLIP[op]
                cl = cr
            else:
                continue
            n_dec += 1
            rel = op if tk else NEGATE[op]
            if b_cur is None:
                ck.ob("P3", fq, "best loss starts at +inf or a positive constant bound", where, _is_inf_or_pos_const(Num(B)), found=str(B)[:80])
                b_cur = B
            okb = B == b_cur
            ck.ob("P3", fq, "every candidate is compared with the best loss so far", where, okb,
                  "the bound a candidate is compared with must be the smallest loss seen so far",
                  expected=lambda: str(b_cur)[:160], found=lambda: str(B)[:160])
            ok_path = ok_path and okb
            ck.ob("P3", fq, "loss is computed from the caller's own data", where, _mentions_param(L, data_param), found=lambda: full_text(L)[:200])
            ck.ob("P3", fq, "loss is computed from this iteration's candidate", where, len(cl) == 1, found="%d new candidate(s)" % len(cl))
            for a in cl:
                seen.add(a.id)
            if rel in ("lt", "le"):
                b_cur = L
                best = cl[0] if cl else None
        if not n_dec:
            continue
        got = {a.id for a in _key_atoms(o.value, suffixes)}
        want = {best.id} if best is not None else set()
        if ok_path:
            ck.ob("P3", fq, "the candidate returned is the one with the smallest loss among those tried", where, got == want,
                  expected=lambda: full_text(Rat.atom(best))[:200] if best is not None else "no candidate",
                  found=lambda: "; ".join(full_text(Rat.atom(poly.T.get(i)))[:160] for i in sorted(got)) or "no candidate")
    return n_dec
