"""Best-of selection decided from evaluator values (C16-P3).

A best-of search keeps a running (best loss, best candidate) pair.  Whatever its syntax — nested loops, a product loop, a
literal list of methods unrolled, tuple assignment, walrus, helper functions — the evaluator sees, on every path, a decision
comparing a candidate's loss L with the running bound B, and the values the two accumulators hold afterwards.  The rules
below are the inductive argument that the pair is (min, argmin) of everything tried:

  S1  every comparison of the selection is  L < B  /  L <= B  (or the mirrored form), B being the running bound;
  S2  when the candidate wins, the bound becomes exactly L and the kept candidate is the one L was computed from;
      when it loses, both are left alone;
  S3  L is the loss of this iteration's candidate on the caller's own data (all of it);
  S4  the bound starts at +inf or a positive constant; what is returned is the kept candidate.
"""
from __future__ import annotations

from typing import List, Optional

from . import poly
from .poly import Rat
from .values import *
from .symeval import key_str, val_key
from .iotables import full_text

FLIP = {"lt": "gt", "le": "ge", "gt": "lt", "ge": "le"}
NEGATE = {"lt": "ge", "le": "gt", "gt": "le", "ge": "lt"}


def _acc_name(r: Rat) -> Optional[str]:
    a = r.single_atom() if isinstance(r, Rat) else None
    if a is not None and a.kind == "sym" and a.name.startswith("#acc."):
        return a.name[5:]
    return None


def ucall_atoms(r: Rat, name_suffix: str):
    """All uninterpreted-call atoms named *name_suffix occurring anywhere inside r."""
    out = {}

    def walk_key(k):
        if isinstance(k, Rat):
            for i in k.atom_ids():
                walk_atom(poly.T.get(i))
        elif isinstance(k, tuple):
            for x in k:
                walk_key(x)

    def walk_atom(a):
        if a.id in out:
            return
        if a.kind == "ucall" and a.name.endswith(name_suffix):
            out[a.id] = a
        for x in a.args:
            walk_key(x)
    walk_key(r)
    return list(out.values())


def normalise_decision(cond, taken):
    """(op, L, B, better) with B the running bound when recognisable: returns the comparison as 'L op B' and whether the path
    took the 'candidate is better' side.  None if cond is not a numeric order comparison."""
    neg = False
    while isinstance(cond, tuple) and cond and cond[0] == "not":
        cond = cond[1]
        neg = not neg
    if not (isinstance(cond, tuple) and len(cond) == 3 and cond[0] in FLIP and isinstance(cond[1], Rat) and isinstance(cond[2], Rat)):
        return None
    op, l, r = cond
    if neg:
        taken = not taken
    return op, l, r, taken


class SymbolicSelection:
    """Selection inside a symbolic loop: the bound is the loop-carried accumulator #acc.<name>."""

    def __init__(self, out):
        self.out = out
        self.decisions = []      # (op, L, acc name, better)
        for cond, taken in out.trace:
            nd = normalise_decision(cond, taken)
            if nd is None:
                continue
            op, l, r, tk = nd
            if _acc_name(r) is not None and _acc_name(l) is None:
                self.decisions.append((op, l, _acc_name(r), tk))
            elif _acc_name(l) is not None and _acc_name(r) is None:
                self.decisions.append((FLIP[op], r, _acc_name(l), tk))

    def loop_of(self, name):
        """Innermost loop record that carries the accumulator."""
        cands = [lr for lr in self.out.loops if lr.kind == "for" and name in getattr(lr, "carried_after", {})]
        return cands[-1] if cands else None


def candidate_atoms(L: Rat, suffixes=("fit", "scipy.optimize.minimize")):
    out = []
    for s in suffixes:
        out.extend(ucall_atoms(L, s))
    return out
