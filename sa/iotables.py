"""E7' — writer/reader tables of the persistence code, read off the values the evaluator computed.

Writer:  storage slot (csv column / json key) -> (field chain of self, selector inside one element, 'series' | 'scalar').
Reader:  constructor field -> [(slot, selector inside one element, shape, wrappers)].
Both are extracted from normal forms, so temporaries, helper functions, loops versus comprehensions, list(xs) versus
[x for x in xs], dict comprehensions and keyword versus positional calls do not change a table."""
from __future__ import annotations

import re
from typing import Dict, List, Optional, Tuple

from . import poly
from .poly import Rat
from .values import *
from .symeval import key_str, val_key

_IDX = r"\[(#[bfk]\d+|[^\]]*)\]"


def split_self_path(name: str, root="self"):
    """'self.permeances[#b0][0].value' -> ('permeances', '[0].value', True) ; 'self.mixture.name' -> ('mixture.name', '', False)"""
    if not name.startswith(root + "."):
        return None
    rest = name[len(root) + 1:]
    m = re.match(r"^([A-Za-z_][\w.]*?)\[(#[bfk]\d+)\](.*)$", rest)
    if m:
        return m.group(1), m.group(2), m.group(3), True
    if re.match(r"^[A-Za-z_][\w.]*$", rest):
        return rest, None, "", False
    m = re.match(r"^([A-Za-z_][\w]*)((?:\[\d+\]|\.\w+)*)$", rest)
    if m:
        return m.group(1), None, m.group(2), False
    return None


def leaf_name(v) -> Optional[str]:
    """Name of the single uninterpreted quantity a leaf value stands for."""
    if isinstance(v, Num):
        a = v.r.single_atom()
        if a is not None and a.kind == "sym":
            return a.name
        return None
    if isinstance(v, StrV) and v.s is None:
        return v.path
    if isinstance(v, MaybeV):
        return v.path
    if isinstance(v, ObjV) and v.path is not None:
        return v.path
    if isinstance(v, ListV) and v.kind == "opaque":
        return v.path
    return None


class Slot:
    def __init__(self, field, selector, shape, value, const=None):
        self.field, self.selector, self.shape, self.value, self.const = field, selector, shape, value, const

    def __repr__(self):
        return "Slot(%s%s %s)" % (self.field, self.selector, self.shape)


def writer_slot(v, scalar_hint=False) -> Optional[Slot]:
    """What one stored value is, in terms of the fields of self."""
    v0 = v
    v = famify(v)
    if isinstance(v, ListV) and v.kind == "fam":
        nm = leaf_name(v.elem)
        if nm is None:
            return None
        sp = split_self_path(nm)
        if sp is None or not sp[3] or sp[1] != v.idx.name:
            return None
        return Slot(sp[0], sp[2], "series", v0)
    if isinstance(v, ListV) and v.kind == "opaque":
        sp = split_self_path(v.path)
        if sp is None or sp[3]:
            return None
        return Slot(sp[0], sp[2], "series", v0)
    if isinstance(v, StrV) and v.s is not None:
        return Slot("<constant>", "", "scalar", v0, const=v.s)
    if isinstance(v, Num) and v.r.is_const():
        return Slot("<constant>", "", "scalar", v0, const=str(v.r))
    if v is NONE or isinstance(v, NoneV):
        return Slot("<constant>", "", "scalar", v0, const="None")
    nm = leaf_name(v)
    if nm is not None:
        sp = split_self_path(nm)
        if sp is not None and not sp[3]:
            return Slot(sp[0], sp[2], "scalar", v0)
    return None


def slot_kind(ev_cfg_domains, v):
    """('str', domain) | ('num', None) | ('list', None) | ('int', None) for the cell values a reader will see."""
    v = famify(v)
    if isinstance(v, ListV) and v.kind == "fam":
        return slot_kind(ev_cfg_domains, v.elem)
    if isinstance(v, ListV) and v.kind == "opaque":
        if v.ty is not None and getattr(v.ty, "kind", None) == "str":
            return ("str", None)
        return ("num", None)
    if isinstance(v, StrV):
        dom = None
        if v.s is None and v.path:
            dom = ev_cfg_domains(v.path)
        return ("str", tuple(dom) if dom else None)
    if isinstance(v, Num):
        a = v.r.single_atom()
        if a is not None and "int" in (a.flags or ()):
            return ("int", None)
    return ("num", None)


class Ref:
    def __init__(self, store, slot, path, shape, wrappers, row=None):
        self.store, self.slot, self.path, self.shape, self.wrappers = store, slot, path, shape, tuple(wrappers)
        self.row = row      # the constant row index of a scalar read (None for whole columns / per-row reads)

    def key(self):
        return (self.store, self.slot, self.path, self.shape, self.wrappers, self.row)

    def __repr__(self):
        return "Ref(%s.%s -> %s %s %s)" % (self.store, self.slot, self.path or "<element>", self.shape, list(self.wrappers))


class ReaderWalk:
    """Collects the storage cells (csv.<col>[i], json.<key>) every part of a loaded value depends on."""

    def __init__(self, stores=("csv", "json")):
        self.stores = stores
        self.refs: List[Ref] = []
        self.unknown: List[Tuple[str, str]] = []
        self.pat = re.compile(r"^(%s)\.(\w+)(?:\[(.*)\])?$" % "|".join(stores))

    def name_ref(self, name, path, rowwise, wrappers):
        m = self.pat.match(name)
        if not m:
            return False
        store, slot, idx = m.group(1), m.group(2), m.group(3)
        if idx is None:
            shape = "series" if store == "csv" else "value"
        elif idx.startswith("#"):
            shape = "series"
        else:
            shape = "series-const" if rowwise else "scalar"
        self.refs.append(Ref(store, slot, path, shape, wrappers, row=(idx if idx is not None and not idx.startswith("#") else None)))
        return True

    def rat(self, r: Rat, path, rowwise, wrappers):
        for i in sorted(r.atom_ids()):
            self.atom(poly.T.get(i), path, rowwise, wrappers)

    def atom(self, a, path, rowwise, wrappers):
        if a.kind == "sym":
            self.name_ref(a.name, path, rowwise, wrappers)
            return
        if a.kind == "ucall":
            self.ucall(a, path, rowwise, wrappers)
            return
        for x in a.args:
            self.key(x, path, rowwise, wrappers)

    def ucall(self, a, path, rowwise, wrappers):
        """Result of an uninterpreted repository function: a wrapper around its receiver (first argument)."""
        args = list(a.args)
        others = tuple(key_str(k) for k in args[1:])
        w = wrappers + ((a.name, others),)
        if args:
            self.key(args[0], path, rowwise, w)
        for k in args[1:]:
            self.key(k, path + "<arg>", rowwise, w)

    def key(self, k, path, rowwise, wrappers):
        if isinstance(k, Rat):
            self.rat(k, path, rowwise, wrappers)
        elif isinstance(k, tuple) and k:
            tag = k[0]
            if tag == "new":
                for fk in k[2:]:
                    self.key(fk[1], path + "." + fk[0], rowwise, wrappers)
            elif tag == "str?":
                self.name_ref(k[1], path, rowwise, wrappers)
            elif tag == "list":
                self.name_ref(k[1], path, rowwise, wrappers)
            elif tag in ("obj", "maybe"):
                self.name_ref(k[-1], path, rowwise, wrappers)
            elif tag == "objof":
                self.key(k[2], path, rowwise, wrappers)
            elif tag == "tup" or tag == "lit":
                for i, x in enumerate(k[1:]):
                    self.key(x, path + "[%d]" % i, rowwise, wrappers)
            elif tag == "fam":
                self.key(k[4], path, True, wrappers)
            elif tag == "opaque":
                for m in re.finditer(r"(?:%s)\.\w+(?:\[[^\]]*\])?" % "|".join(self.stores), k[1]):
                    self.name_ref(m.group(0), path, rowwise, wrappers)
            else:
                for x in k[1:]:
                    self.key(x, path, rowwise, wrappers)

    def value(self, v, path="", rowwise=False, wrappers=()):
        v = famify(v)
        if v is None or v is NONE or isinstance(v, NoneV):
            return
        if isinstance(v, ListV):
            if v.kind == "fam":
                self.value(v.elem, path, True, wrappers)
            elif v.kind == "series":
                for e in list(v.init) + list(getattr(v, "per_iter", None) or v.appended):
                    self.value(e, path, True, wrappers)
            elif v.kind == "rep":
                self.value(v.elem, path, True, wrappers)
            elif v.kind == "lit":
                for i, e in enumerate(v.items):
                    self.value(e, path + "[%d]" % i, rowwise, wrappers)
            elif v.kind == "opaque":
                if not self.name_ref(v.path, path, rowwise, wrappers):
                    self.key(("opaque", v.path), path, rowwise, wrappers)
            elif v.kind == "slice":
                self.value(v.base, path, rowwise, wrappers)
            elif v.kind == "concat":
                for p in v.parts:
                    self.value(p, path, rowwise, wrappers)
            return
        if isinstance(v, TupV):
            for i, e in enumerate(v.items):
                self.value(e, path + "[%d]" % i, rowwise, wrappers)
            return
        if isinstance(v, ObjV):
            if v.constructed:
                for k, x in v.fields.items():
                    self.value(x, path + "." + k, rowwise, wrappers)
            elif v.parent is not None:
                self.atom(v.parent, path, rowwise, wrappers)
            elif v.path is not None:
                self.key(("opaque", v.path), path, rowwise, wrappers)
            return
        if isinstance(v, Num):
            self.rat(v.r, path, rowwise, wrappers)
            return
        if isinstance(v, StrV):
            if v.s is None and v.path:
                self.name_ref(v.path, path, rowwise, wrappers)
            return
        if isinstance(v, MaybeV):
            self.name_ref(v.path, path, rowwise, wrappers)
            return
        if isinstance(v, Opaque):
            self.key(("opaque", v.desc), path, rowwise, wrappers)
            return
        if isinstance(v, DictV):
            for k, x in v.items.items():
                self.value(x, path + "[%r]" % k, rowwise, wrappers)


def reader_refs(v) -> List[Ref]:
    w = ReaderWalk()
    w.value(v)
    seen = set()
    out = []
    for r in w.refs:
        if r.key() not in seen:
            seen.add(r.key())
            out.append(r)
    return out


def full_text(k) -> str:
    """Untruncated rendering of a value key: every atom with its full name and arguments (for 'mentions X' tests)."""
    if isinstance(k, Rat):
        sa = k.single_atom()
        if sa is not None:
            return _atom_full(sa)
        return "{" + " ".join(_atom_full(poly.T.get(i)) for i in sorted(k.atom_ids())) + "}"
    if isinstance(k, tuple):
        return "(" + ", ".join(full_text(x) for x in k) + ")"
    return str(k)


def _atom_full(a) -> str:
    if a.kind == "sym":
        return a.name
    return "%s⟨%s⟩" % (a.name, ", ".join(full_text(x) for x in a.args))


def value_text(v) -> str:
    return full_text(val_key(v))
