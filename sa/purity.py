"""Purity precondition shared by the normal-form checks.

The normal-form argument treats every analysed function (and every uninterpreted callee) as a function of its argument
values.  That is only sound when no function on the analysed paths keeps state between calls; a cache on an instance or at
module level makes results depend on the history of calls.  Each property's check therefore also requires that the write set
of its root functions (interprocedural, E6) contains no object that exists before the call."""
from __future__ import annotations

from .effects import Effects, chain
from .callgraph import CallGraph

_SHARED = {}

EXCEPTIONS = {("DiffusionCurve.get_permeances", "self")}


def effects_for(repo):
    k = id(repo)
    if k not in _SHARED:
        cg = CallGraph(repo)
        _SHARED[k] = (cg, Effects(repo, cg))
    return _SHARED[k]


def purity(ck, repo, roots, what="its result is a function of the argument values alone"):
    cg, eff = effects_for(repo)
    for f in roots:
        is_ctor = f.name == "__attrs_post_init__"
        muts = []
        for mu, tags in eff.external_mutations(f, allow_self_top=is_ctor):
            tags = {t for t in tags if not ((f.qualname, t[1]) in EXCEPTIONS and t[2] == 0)}
            if tags:
                muts.append((mu, tags))
        ck.ob("PURE", f.qualname, "keeps no state between calls and leaves its arguments unchanged (%s)" % what, f.loc(), not muts,
              lambda: "a result that depends on earlier calls breaks the property for some call histories: " +
              "; ".join("%s [%s]" % (chain(mu), ", ".join("%s %s" % (("argument" if t[0] == "P" else "module-level object"), t[1])
                                                           for t in sorted(tags, key=str))) for mu, tags in muts)[:900])
