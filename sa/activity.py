"""Normal forms of the activity-coefficient models (shared by C04 and C06)."""
from __future__ import annotations

from . import poly
from .poly import Rat
from .evaluator import analyse
from .procmodel import make_config
from .values import *
from .repo import AnalysisError

ACT = "calculate_activity_coefficients"
GPP = "get_partial_pressures"

ARMS = (("NRTL", "notnone", "NRTL (two non-randomness factors)"),
        ("NRTL", "none", "NRTL (single non-randomness factor)"),
        ("UNIQUAC", "notnone", "UNIQUAC"))


def arm_facts(model, a21, basis="molar"):
    return {"calculation_type": ("str", model), "composition.type": ("str", basis),
            "mixture.nrtl_params": "notnone", "mixture.nrtl_params.alpha21": a21,
            "mixture.uniquac_params": "notnone",
            "mixture.first_component.uniquac_constants": "notnone",
            "mixture.second_component.uniquac_constants": "notnone",
            "mixture.first_component.uniquac_constants.q_interaction": "notnone",
            "mixture.second_component.uniquac_constants.q_interaction": "notnone",
            "mixture.nrtl_params.a12": "notnone", "mixture.nrtl_params.a21": "notnone"}


def generic_path(outs):
    """The path on which none of the exact-zero guards of the UNIQUAC arm fires."""
    sel = [o for o in outs if o.kind == "return" and all(not d for c, d in o.trace)]
    return sel


def gammas(repo, model, a21, basis="molar"):
    f = repo.find_function(ACT)
    cfg = make_config(arm_facts(model, a21, basis))
    outs = analyse(repo, f, cfg)
    sel = generic_path(outs)
    if len(sel) != 1:
        raise AnalysisError("%s arm %s: expected one generic path, found %d of %d" % (ACT, model, len(sel), len(outs)))
    v = sel[0].value
    if not (isinstance(v, TupV) and len(v.items) == 2 and all(isinstance(i, Num) for i in v.items)):
        raise AnalysisError("%s arm %s does not return a pair of numbers: %r" % (ACT, model, v))
    return f, outs, sel[0], v.items[0].r, v.items[1].r
