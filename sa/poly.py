"""E3 — exact rational normal forms over uninterpreted atoms.

A value is a rational function num/den whose numerator and denominator are
polynomials with ``Fraction`` coefficients over *atoms*.  Atoms are interned
objects: plain symbols (``conditions.membrane_area``), applications of a known
function to normal forms (``exp``, ``log``, ``abs``, ``max``, ``pow``, ``ite`` …)
or applications of an uninterpreted repository function (``ucall``).

Nothing here evaluates a number: equality of two forms is decided by the
polynomial identity num1*den2 == num2*den1 with exact coefficients.
"""
from __future__ import annotations

from fractions import Fraction
from typing import Dict, Tuple, Iterable, Optional, Callable, Any


class Unmodelled(Exception):
    """A construct the normaliser does not model (fail closed: exit 2)."""


# --------------------------------------------------------------------------
# atoms
# --------------------------------------------------------------------------
class Atom:
    __slots__ = ("id", "kind", "name", "args", "flags", "meta", "deps")

    def __init__(self, id, kind, name, args=(), flags=frozenset(), meta=None):
        self.id = id
        self.kind = kind  # 'sym' | 'fn' | 'ucall'
        self.name = name
        self.args = args
        self.flags = frozenset(flags)
        self.meta = meta or {}
        deps = {id}
        for a in args:
            deps |= key_deps(a)
        self.deps = frozenset(deps)

    def __repr__(self):
        return atom_str(self)


class AtomTable:
    def __init__(self):
        self.atoms = []
        self.syms = {}
        self.buckets = {}

    def sym(self, name, flags=(), meta=None) -> Atom:
        a = self.syms.get(name)
        if a is None:
            a = Atom(len(self.atoms), "sym", name, (), flags, meta)
            self.atoms.append(a)
            self.syms[name] = a
        else:
            if flags and not (set(flags) <= a.flags):
                a.flags = a.flags | frozenset(flags)
            if meta:
                a.meta.update(meta)
        return a

    def app(self, kind, name, args, flags=(), meta=None) -> Atom:
        args = tuple(args)
        b = self.buckets.setdefault((kind, name, len(args)), [])
        for cand in b:
            if all(key_equiv(x, y) for x, y in zip(cand.args, args)):
                return cand
        a = Atom(len(self.atoms), kind, name, args, flags, meta)
        self.atoms.append(a)
        b.append(a)
        return a

    def get(self, id) -> Atom:
        return self.atoms[id]


T = AtomTable()


def reset():
    global T
    T = AtomTable()
    _EXP_IDS.clear()


_EXP_IDS = set()


# keys: nested tuples of Rat / str / int / None / bool / Fraction
def key_deps(k):
    if isinstance(k, Rat):
        return k.deps()
    if isinstance(k, tuple):
        s = set()
        for x in k:
            s |= key_deps(x)
        return s
    return set()


def key_equiv(a, b) -> bool:
    if isinstance(a, Rat) or isinstance(b, Rat):
        if not (isinstance(a, Rat) and isinstance(b, Rat)):
            # allow int/Fraction vs Rat
            try:
                return rat(a) == rat(b)
            except Exception:
                return False
        return a == b
    if isinstance(a, tuple) and isinstance(b, tuple):
        return len(a) == len(b) and all(key_equiv(x, y) for x, y in zip(a, b))
    return type(a) == type(b) and a == b


def key_str(k) -> str:
    if isinstance(k, Rat):
        return str(k)
    if isinstance(k, tuple):
        return "(" + ", ".join(key_str(x) for x in k) + ")"
    return repr(k)


_ATOM_STR = {}


def atom_str(a: Atom) -> str:
    if a.kind == "sym":
        return a.name
    r = _ATOM_STR.get(a.id)
    if r is None or r[0] is not a:
        r = (a, _atom_str(a))
        _ATOM_STR[a.id] = r
    return r[1]


def _atom_str(a: Atom) -> str:
    if a.kind == "fn":
        return "%s(%s)" % (a.name, ", ".join(key_str(x) for x in a.args))
    def short(x):
        t = key_str(x)
        if isinstance(x, tuple) and x and x[0] in ("obj", "objof", "list", "maybe") and len(x) >= 2:
            t = key_str(x[-1]) if not isinstance(x[-1], str) else x[-1]
        return t if len(t) <= 60 else t[:57] + "…"
    return "%s⟨%s⟩" % (a.name.split(".")[-1], ", ".join(short(x) for x in a.args))


# --------------------------------------------------------------------------
# polynomials
# --------------------------------------------------------------------------
Mono = Tuple[Tuple[int, int], ...]  # ((atom_id, exp>0), ...) sorted by id
ONE_M: Mono = ()


def _mono_mul(a: Mono, b: Mono) -> Mono:
    if not a:
        return b
    if not b:
        return a
    d = dict(a)
    for i, e in b:
        d[i] = d.get(i, 0) + e
    return tuple(sorted((i, e) for i, e in d.items() if e))


class Poly:
    __slots__ = ("t", "_h")

    def __init__(self, t: Optional[Dict[Mono, Fraction]] = None):
        self.t = t or {}
        self._h = None

    @staticmethod
    def const(c) -> "Poly":
        c = Fraction(c)
        return Poly({ONE_M: c}) if c else Poly()

    @staticmethod
    def atom(a: Atom) -> "Poly":
        return Poly({((a.id, 1),): Fraction(1)})

    def is_zero(self):
        return not self.t

    def is_const(self):
        return all(m == ONE_M for m in self.t)

    def const_value(self) -> Fraction:
        return self.t.get(ONE_M, Fraction(0))

    def __add__(self, o: "Poly") -> "Poly":
        if len(self.t) < len(o.t):
            self, o = o, self
        r = dict(self.t)
        for m, c in o.t.items():
            v = r.get(m, 0) + c
            if v:
                r[m] = v
            else:
                r.pop(m, None)
        return Poly(r)

    def __neg__(self):
        return Poly({m: -c for m, c in self.t.items()})

    def __sub__(self, o):
        return self + (-o)

    def scale(self, c: Fraction) -> "Poly":
        if not c:
            return Poly()
        return Poly({m: v * c for m, v in self.t.items()})

    def __mul__(self, o: "Poly") -> "Poly":
        if not self.t or not o.t:
            return Poly()
        r: Dict[Mono, Fraction] = {}
        need_exp = bool(_EXP_IDS)
        for m1, c1 in self.t.items():
            for m2, c2 in o.t.items():
                m = _mono_mul(m1, m2)
                c = c1 * c2
                if need_exp and m:
                    m, extra = _canon_exp(m)
                    if extra is not None:
                        # exp(...) collapsed to a constant 1 -> nothing to add
                        pass
                v = r.get(m, 0) + c
                if v:
                    r[m] = v
                else:
                    r.pop(m, None)
        return Poly(r)

    def __eq__(self, o):
        return isinstance(o, Poly) and self.t == o.t

    def __hash__(self):
        if self._h is None:
            self._h = hash(frozenset(self.t.items()))
        return self._h

    def atoms(self):
        s = set()
        for m in self.t:
            for i, _ in m:
                s.add(i)
        return s

    def nterms(self):
        return len(self.t)


def _canon_exp(m: Mono):
    """Collapse exp atoms of a monomial into one exp atom of power 1."""
    n = 0
    for i, e in m:
        if i in _EXP_IDS:
            n += 1
            if e != 1:
                n += 1
    if n <= 1:
        return m, None
    total = Rat.const(0)
    rest = []
    for i, e in m:
        if i in _EXP_IDS:
            total = total + T.get(i).args[0] * Rat.const(e)
        else:
            rest.append((i, e))
    if total.is_zero():
        return tuple(rest), 1
    a = _exp_atom(total)
    rest.append((a.id, 1))
    return tuple(sorted(rest)), None


def _exp_atom(arg: "Rat") -> Atom:
    a = T.app("fn", "exp", (arg,), flags=("nonneg", "pos"))
    _EXP_IDS.add(a.id)
    return a


# --------------------------------------------------------------------------
# rational functions
# --------------------------------------------------------------------------
_P = (1 << 61) - 1


def _atom_val(i: int) -> int:
    return (pow(1000003, i + 7, _P) * 7919 + 104729 * (i + 1)) % _P


def _poly_fp(p: "Poly") -> int:
    acc = 0
    for m, c in p.t.items():
        v = (c.numerator % _P) * pow(c.denominator % _P, _P - 2, _P) % _P
        for i, e in m:
            v = v * pow(_atom_val(i), e, _P) % _P
        acc = (acc + v) % _P
    return acc


def _split_poly(p: "Poly"):
    """p == c * monomial * q with q primitive (no monomial content, first coefficient 1)."""
    common = None
    for m in p.t:
        d = dict(m)
        common = d if common is None else {i: min(e, d[i]) for i, e in common.items() if i in d}
        if not common:
            break
    if common:
        cm = tuple(sorted(common.items()))
        p = Poly({tuple((i, e - common.get(i, 0)) for i, e in m if e - common.get(i, 0)): c for m, c in p.t.items()})
    else:
        cm = ONE_M
    lead = p.t[min(p.t)]
    if lead != 1:
        p = p.scale(1 / lead)
    return lead, cm, p


def _poly_divexact(n: "Poly", f: "Poly"):
    """Exact quotient n / f (None when f does not divide n): leading-term reduction under a lexicographic order."""
    if len(f.t) < 2 or len(n.t) < len(f.t):
        return None
    ids = sorted(n.atoms() | f.atoms())
    pos = {a: k for k, a in enumerate(ids)}
    if not f.atoms() <= n.atoms():
        return None

    def vec(m):
        v = [0] * len(ids)
        for i, e in m:
            v[pos[i]] = e
        return tuple(v)

    fv = {vec(m): c for m, c in f.t.items()}
    lf = max(fv)
    cf = fv[lf]
    rem = {vec(m): c for m, c in n.t.items()}
    quo = {}
    steps = 0
    while rem:
        steps += 1
        if steps > 4000:
            return None
        ln = max(rem)
        d = tuple(a - b for a, b in zip(ln, lf))
        if min(d) < 0:
            return None
        c = rem[ln] / cf
        quo[d] = c
        for mv, mc in fv.items():
            k = tuple(a + b for a, b in zip(mv, d))
            v = rem.get(k, 0) - mc * c
            if v:
                rem[k] = v
            else:
                rem.pop(k, None)
    return Poly({tuple((ids[k], e) for k, e in enumerate(v) if e): c for v, c in quo.items()})


_FACTOR_EXPAND = {}


def _expand_factors(df) -> "Poly":
    """Product of the denominator factors (cached)."""
    if not df:
        return Poly.const(1)
    key = df
    r = _FACTOR_EXPAND.get(key)
    if r is None:
        r = Poly.const(1)
        for f, e in df:
            for _ in range(e):
                r = r * f
        if len(_FACTOR_EXPAND) > 4000:
            _FACTOR_EXPAND.clear()
        _FACTOR_EXPAND[key] = r
    return r


def _df_key(f: "Poly"):
    return (len(f.t), hash(f))


class Rat:
    """num / (dm * prod f_i^e_i): numerator expanded, denominator kept factored
    (dm: monomial, f_i: primitive polynomials with at least two terms)."""
    __slots__ = ("num", "dm", "df", "_fp", "_den", "_pw")

    def __init__(self, num: Poly, den=None, _raw=False, dm=ONE_M, df=()):
        if den is not None and not _raw:
            if isinstance(den, Poly):
                if den.is_zero():
                    raise Unmodelled("division by a form that is identically zero")
                if len(den.t) == 1:
                    (m, c), = den.t.items()
                    num, dm, df = num.scale(1 / c), _mono_mul(dm, m), df
                else:
                    c, m, q = _split_poly(den)
                    num = num.scale(1 / c)
                    dm = _mono_mul(dm, m)
                    df = _merge_df(df, ((q, 1),))
        num, dm, df = _normalise(num, dm, df)
        self.num = num
        self.dm = dm
        self.df = df
        self._fp = -1
        self._den = None
        self._pw = None

    # -- denominator views ---------------------------------------------
    @property
    def den(self) -> Poly:
        if self._den is None:
            d = _expand_factors(self.df)
            if self.dm:
                d = d * Poly({self.dm: Fraction(1)})
            self._den = d
        return self._den

    def fp(self):
        """Modular fingerprint (exact arithmetic mod a prime): equal forms have equal
        fingerprints, so a mismatch proves inequality; a match is always confirmed exactly."""
        if self._fp == -1:
            d = 1
            for i, e in self.dm:
                d = d * pow(_atom_val(i), e, _P) % _P
            for f, e in self.df:
                d = d * pow(_poly_fp(f), e, _P) % _P
            if d == 0:
                self._fp = None
            else:
                self._fp = _poly_fp(self.num) * pow(d, _P - 2, _P) % _P
        return self._fp

    # constructors
    @staticmethod
    def const(c) -> "Rat":
        return Rat(Poly.const(c))

    @staticmethod
    def atom(a: Atom) -> "Rat":
        return Rat(Poly.atom(a))

    @staticmethod
    def sym(name, flags=(), meta=None) -> "Rat":
        return Rat.atom(T.sym(name, flags, meta))

    def is_zero(self):
        return self.num.is_zero()

    def is_const(self):
        return self.num.is_const() and not self.dm and not self.df

    def const_value(self) -> Fraction:
        return self.num.const_value()

    def as_int(self) -> Optional[int]:
        if self.is_const():
            v = self.const_value()
            if v.denominator == 1:
                return int(v)
        return None

    def _same_den(self, o):
        return self.dm == o.dm and self.df == o.df

    def __add__(self, o):
        o = rat(o)
        if self._same_den(o):
            return Rat(self.num + o.num, dm=self.dm, df=self.df)
        # least common denominator on the factor level
        dm = dict(self.dm)
        for i, e in o.dm:
            dm[i] = max(dm.get(i, 0), e)
        sa, sb = dict(self.dm), dict(o.dm)
        ma = tuple(sorted((i, e - sa.get(i, 0)) for i, e in dm.items() if e - sa.get(i, 0)))
        mb = tuple(sorted((i, e - sb.get(i, 0)) for i, e in dm.items() if e - sb.get(i, 0)))
        fa, fb = dict(self.df), dict(o.df)
        allf = dict(fa)
        for f, e in fb.items():
            allf[f] = max(allf.get(f, 0), e)
        xa = tuple((f, e - fa.get(f, 0)) for f, e in allf.items() if e - fa.get(f, 0))
        xb = tuple((f, e - fb.get(f, 0)) for f, e in allf.items() if e - fb.get(f, 0))
        na = self.num
        if ma:
            na = na * Poly({ma: Fraction(1)})
        if xa:
            na = na * _expand_factors(tuple(sorted(xa, key=lambda fe: _df_key(fe[0]))))
        nb = o.num
        if mb:
            nb = nb * Poly({mb: Fraction(1)})
        if xb:
            nb = nb * _expand_factors(tuple(sorted(xb, key=lambda fe: _df_key(fe[0]))))
        return Rat(na + nb, dm=tuple(sorted(dm.items())), df=tuple(sorted(allf.items(), key=lambda fe: _df_key(fe[0]))))

    __radd__ = __add__

    def __neg__(self):
        r = Rat.__new__(Rat)
        r.num, r.dm, r.df, r._fp, r._den, r._pw = -self.num, self.dm, self.df, -1, self._den, None
        return r

    def __sub__(self, o):
        return self + (-rat(o))

    def __rsub__(self, o):
        return rat(o) + (-self)

    def __mul__(self, o):
        o = rat(o)
        if not o.dm and not o.df and not self.dm and not self.df:
            return Rat(self.num * o.num)
        return Rat(self.num * o.num, dm=_mono_mul(self.dm, o.dm), df=_merge_df(self.df, o.df))

    __rmul__ = __mul__

    def inv(self):
        if self.num.is_zero():
            raise Unmodelled("division by a form that is identically zero")
        if self._pw is not None and not self.dm and not self.df:
            c, m, q, n = self._pw        # self.num == (c * m * q) ** n, kept as a power of one factor
            return Rat(Poly.const(1 / (c ** n)), dm=tuple((i, e * n) for i, e in m), df=((q, n),))
        newnum = _expand_factors(self.df)
        if self.dm:
            newnum = newnum * Poly({self.dm: Fraction(1)})
        return Rat(newnum, self.num)

    def __truediv__(self, o):
        return self * rat(o).inv()

    def __rtruediv__(self, o):
        return rat(o) * self.inv()

    def __pow__(self, n: int):
        if n == 0:
            return Rat.const(1)
        if n < 0:
            return self.inv() ** (-n)
        if n > 1 and not self.dm and not self.df and len(self.num.t) > 1:
            r = Rat.const(1)
            for _ in range(n):
                r = r * self
            c, m, q = _split_poly(self.num)
            r._pw = (c, m, q, n)
            return r
        r = Rat.const(1)
        b = self
        while n:
            if n & 1:
                r = r * b
            n >>= 1
            if n:
                b = b * b
        return r

    def __eq__(self, o):
        if not isinstance(o, Rat):
            try:
                o = rat(o)
            except Exception:
                return False
        if self._same_den(o):
            return self.num == o.num
        a, b = self.fp(), o.fp()
        if a is not None and b is not None and a != b:
            return False
        return (self - o).num.is_zero()

    def __hash__(self):
        return 0  # equality is semantic; containers must not rely on hashing

    def deps(self):
        s = set()
        for i in self.atom_ids():
            s |= T.get(i).deps
        return s

    def atom_ids(self):
        s = self.num.atoms()
        for i, _ in self.dm:
            s.add(i)
        for f, _ in self.df:
            s |= f.atoms()
        return s

    def single_atom(self) -> Optional[Atom]:
        if not self.dm and not self.df and len(self.num.t) == 1:
            (m, c), = self.num.t.items()
            if len(m) == 1 and m[0][1] == 1 and c == 1:
                return T.get(m[0][0])
        return None

    def den_factors(self):
        """[(Rat factor, exponent)] of the denominator, monomial atoms first."""
        out = [(Rat.atom(T.get(i)), e) for i, e in self.dm]
        out += [(Rat(f), e) for f, e in self.df]
        return out

    def __str__(self):
        return rat_str(self)

    __repr__ = __str__


def _merge_df(a, b):
    if not b:
        return a
    if not a:
        return b
    d = dict(a)
    for f, e in b:
        d[f] = d.get(f, 0) + e
    return tuple(sorted(d.items(), key=lambda fe: _df_key(fe[0])))


def rat(x) -> Rat:
    if isinstance(x, Rat):
        return x
    if isinstance(x, (int, Fraction)):
        return Rat.const(x)
    if isinstance(x, float):
        return Rat.const(Fraction(repr(x)))
    if isinstance(x, Atom):
        return Rat.atom(x)
    raise TypeError("not a numeric form: %r" % (x,))


def _normalise(num: Poly, dm: Mono, df):
    if num.is_zero():
        return num, ONE_M, ()
    # exp atoms of the monomial denominator go to the numerator as exp(-arg)
    if dm and _EXP_IDS and any(i in _EXP_IDS for i, _ in dm):
        f = Poly.const(1)
        rest = []
        for i, e in dm:
            if i in _EXP_IDS:
                f = f * Poly.atom(_exp_atom(T.get(i).args[0] * Rat.const(-e)))
            else:
                rest.append((i, e))
        num = num * f
        dm = tuple(rest)
    # cancel the monomial content shared by the numerator and the monomial denominator
    if dm:
        common = dict(dm)
        for m in num.t:
            d = dict(m)
            common = {i: min(e, d[i]) for i, e in common.items() if i in d}
            if not common:
                break
        if common:
            num = Poly({tuple((i, e - common.get(i, 0)) for i, e in m if e - common.get(i, 0)): c for m, c in num.t.items()})
            dm = tuple((i, e - common.get(i, 0)) for i, e in dm if e - common.get(i, 0))
    # cancel a denominator factor that the numerator equals up to a scalar (cheap, common case x/x)
    if df and len(num.t) > 1:
        for f, e in df:
            if len(f.t) == len(num.t):
                lead = num.t.get(min(f.t))
                if lead is not None and num.scale(1 / lead) == f:
                    nd = tuple((g, k - (1 if g is f else 0)) for g, k in df if k - (1 if g is f else 0))
                    return Poly.const(lead), dm, nd
    # cancel denominator factors that divide the numerator exactly (small numerators only: cost control)
    if df and 2 <= len(num.t) <= 48:
        changed = False
        nd = []
        for f, e in df:
            while e and len(num.t) >= len(f.t):
                q = _poly_divexact(num, f)
                if q is None:
                    break
                num, e, changed = q, e - 1, True
            if e:
                nd.append((f, e))
        if changed:
            return _normalise(num, dm, tuple(nd))
    return num, dm, df


# --------------------------------------------------------------------------
# known functions
# --------------------------------------------------------------------------
def mk_exp(a) -> Rat:
    a = rat(a)
    if a.is_zero():
        return Rat.const(1)
    # exp(log y) = y  (y > 0 wherever log y is defined); exp(x + log y) is not split (not needed)
    sa = a.single_atom()
    if sa is not None and sa.kind == "fn" and sa.name == "log" and len(sa.args) == 1 and isinstance(sa.args[0], Rat):
        return sa.args[0]
    return Rat.atom(_exp_atom(a))


def _log_atom(p: Rat) -> Rat:
    if p.is_const():
        c = p.const_value()
        if c == 1:
            return Rat.const(0)
        if c <= 0:
            raise Unmodelled("log of a non-positive constant")
        # log(a/b) = log a - log b with integer a, b
        r = Rat.const(0)
        if c.numerator != 1:
            r = r + Rat.atom(T.app("fn", "log", (Rat.const(c.numerator),)))
        if c.denominator != 1:
            r = r - Rat.atom(T.app("fn", "log", (Rat.const(c.denominator),)))
        return r
    return Rat.atom(T.app("fn", "log", (p,)))


def _log_poly(p: Poly) -> Rat:
    """log of a polynomial: split off the monomial content."""
    if p.is_zero():
        raise Unmodelled("log of zero")
    if len(p.t) == 1:
        (m, c), = p.t.items()
        r = Rat.const(0)
        neg = c < 0
        if neg:
            raise Unmodelled("log of a form with negative sign")
        r = r + _log_atom(Rat.const(c))
        for i, e in m:
            a = T.get(i)
            if i in _EXP_IDS:
                r = r + a.args[0] * Rat.const(e)
            else:
                r = r + _log_atom(Rat.atom(a)) * Rat.const(e)
        return r
    # common monomial already stripped by _normalise for quotients, but a bare
    # polynomial may still have one
    common = None
    for m in p.t:
        d = dict(m)
        common = d if common is None else {i: min(e, d[i]) for i, e in common.items() if i in d}
        if not common:
            break
    r = Rat.const(0)
    if common:
        cm = tuple(sorted(common.items()))
        r = r + _log_poly(Poly({cm: Fraction(1)}))
        p = Poly({tuple((i, e - common.get(i, 0)) for i, e in m if e - common.get(i, 0)): c
                  for m, c in p.t.items()})
    lead = p.t[min(p.t)]
    if lead < 0:
        raise Unmodelled("log of a form whose leading coefficient is negative")
    if lead != 1:
        r = r + _log_atom(Rat.const(lead))
        p = p.scale(1 / lead)
    return r + _log_atom(Rat(p))


def mk_log(a) -> Rat:
    a = rat(a)
    r = _log_poly(a.num)
    for i, e in a.dm:
        r = r - _log_poly(Poly.atom(T.get(i))) * Rat.const(e)
    for f, e in a.df:
        r = r - _log_poly(f) * Rat.const(e)
    return r


def mk_pow(base, expo) -> Rat:
    base, expo = rat(base), rat(expo)
    n = expo.as_int()
    if n is not None and abs(n) <= 64:
        return base ** n
    if base.is_const() and base.const_value() > 0 and not expo.is_const():
        # c ** E = exp(log(c) * E)
        return mk_exp(mk_log(base) * expo)
    if expo.is_const() and expo.const_value() == Fraction(1, 2):
        return mk_fn("sqrt", base)
    return Rat.atom(T.app("fn", "pow", (base, expo)))


def mk_fn(name, *args, flags=()) -> Rat:
    args = tuple(rat(a) if isinstance(a, (int, float, Fraction, Atom)) else a for a in args)
    if name == "exp":
        return mk_exp(args[0])
    if name == "log":
        return mk_log(args[0])
    if name == "pow":
        return mk_pow(args[0], args[1])
    if name == "abs":
        a = args[0]
        if is_nonneg(a):
            return a
        if is_nonneg(-a):
            return -a
        # canonical sign: abs(x) == abs(-x)
        b = -a
        cand = T.buckets.get(("fn", "abs", 1), [])
        for c in cand:
            if key_equiv(c.args[0], b):
                return Rat.atom(c)
        return Rat.atom(T.app("fn", "abs", (a,), flags=("nonneg",)))
    if name in ("max", "min"):
        flat = []
        for a in args:
            sa = a.single_atom() if isinstance(a, Rat) else None
            if sa is not None and sa.kind == "fn" and sa.name == name:
                flat.extend(sa.args)
            else:
                flat.append(a)
        # remove duplicates, order canonically by string
        uniq = []
        for a in flat:
            if not any(key_equiv(a, u) for u in uniq):
                uniq.append(a)
        if len(uniq) == 1:
            return uniq[0]
        if name == "max" and len(uniq) == 2 and any(u.is_zero() for u in uniq):
            other = uniq[0] if uniq[1].is_zero() else uniq[1]
            if is_nonneg(other):
                return other          # max(x, 0) == x for a form that is non-negative by construction
        if all(u.is_const() for u in uniq):
            f = max if name == "max" else min
            return Rat.const(f(u.const_value() for u in uniq))
        uniq.sort(key=key_str)
        fl = ("nonneg",) if name == "max" and any(is_nonneg(u) for u in uniq) else ()
        return Rat.atom(T.app("fn", name, tuple(uniq), flags=fl))
    if name == "sqrt":
        return Rat.atom(T.app("fn", "sqrt", args, flags=("nonneg",)))
    return Rat.atom(T.app("fn", name, args, flags=flags))


def mk_ite(cond_key, a, b) -> Rat:
    """cond_key: ('ge'|'gt'|'le'|'lt'|'eq'|'ne', lhs Rat, rhs Rat)"""
    a, b = rat(a), rat(b)
    if a == b:
        return a
    op, l, r = cond_key
    d = l - r
    # decide trivially when the sign of l - r is known
    if op in ("ge",) and is_nonneg(d):
        return a
    if op in ("le",) and is_nonneg(-d):
        return a
    if op == "lt" and is_nonneg(d):
        return b
    if op == "gt" and is_nonneg(-d):
        return b
    return Rat.atom(T.app("fn", "ite", ((op, l, r), a, b)))


def is_nonneg(x) -> bool:
    """Syntactic sign oracle: every term of num and den is a product of
    non-negative atoms / even powers with a positive coefficient."""
    x = rat(x)
    if x.is_zero():
        return True

    def poly_nonneg(p: Poly):
        for m, c in p.t.items():
            if c < 0:
                return False
            for i, e in m:
                if e % 2 and "nonneg" not in T.get(i).flags:
                    return False
        return True

    def poly_nonpos(p: Poly):
        return poly_nonneg(-p)

    def den_sign():
        """+1 / -1 if every denominator factor has a syntactically known sign, else 0."""
        sgn = 1
        for i, e in x.dm:
            if e % 2 and "nonneg" not in T.get(i).flags:
                return 0
        for f, e in x.df:
            if e % 2 == 0:
                continue
            if poly_nonneg(f):
                continue
            if poly_nonpos(f):
                sgn = -sgn
                continue
            return 0
        return sgn

    ds = den_sign()
    if ds == 0:
        return False
    return poly_nonneg(x.num) if ds > 0 else poly_nonpos(x.num)


# --------------------------------------------------------------------------
# substitution, mapping, differentiation
# --------------------------------------------------------------------------
def map_key(k, f: Callable[[Rat], Rat]):
    if isinstance(k, Rat):
        return f(k)
    if isinstance(k, tuple):
        return tuple(map_key(x, f) for x in k)
    return k


def rebuild_atom(a: Atom, new_args) -> Rat:
    """Re-apply the constructor of a non-sym atom to new arguments."""
    if a.kind == "fn":
        if a.name == "ite":
            return mk_ite(new_args[0], new_args[1], new_args[2])
        if a.name in ("exp", "log", "pow", "abs", "max", "min", "sqrt"):
            return mk_fn(a.name, *new_args)
        return Rat.atom(T.app("fn", a.name, tuple(new_args), flags=a.flags, meta=a.meta))
    if a.kind == "ucall":
        return Rat.atom(T.app("ucall", a.name, tuple(new_args), flags=a.flags, meta=a.meta))
    raise AssertionError(a.kind)


def subst(x: Rat, mapping: Dict[int, Rat], _cache=None) -> Rat:
    """Replace atoms (by id) with forms, rebuilding dependent applications."""
    if _cache is None:
        _cache = {}
    keys = set(mapping)
    bound_names = [(("[%s]" % T.get(i).name), i) for i in mapping if T.get(i).kind == "sym" and "bound" in T.get(i).flags]

    _touch = {}

    def touched(a: Atom) -> bool:
        """a (or something inside its arguments) is one of the replaced atoms or a path-named element indexed by one"""
        r = _touch.get(a.id)
        if r is None:
            r = bool(a.deps & keys)
            if not r and bound_names:
                for j in a.deps:
                    d = T.get(j)
                    if d.kind == "sym" and "[#" in d.name and any(bn in d.name for bn, _ in bound_names):
                        r = True
                        break
            _touch[a.id] = r
        return r

    def atom_image(i: int) -> Rat:
        if i in _cache:
            return _cache[i]
        a = T.get(i)
        if i in mapping:
            r = mapping[i]
        elif a.kind == "sym" and bound_names and any(bn in a.name for bn, _ in bound_names):
            # path-named element of an indexed list: the index inside the path is instantiated too
            n = a.name
            for bn, bi in bound_names:
                n = n.replace(bn, "[%s]" % mapping[bi])
            r = Rat.atom(T.sym(n, a.flags - {"bound"}, a.meta))
        elif a.kind == "sym" or not touched(a):
            r = Rat.atom(a)
        else:
            r = rebuild_atom(a, [map_key(k, lambda v: subst(v, mapping, _cache)) for k in a.args])
        _cache[i] = r
        return r

    def poly_image(p: Poly) -> Rat:
        acc = Rat.const(0)
        # group: most monomials are untouched
        untouched = {}
        for m, c in p.t.items():
            if all(not touched(T.get(i)) for i, _ in m):
                untouched[m] = c
                continue
            term = Rat.const(c)
            for i, e in m:
                term = term * (atom_image(i) ** e)
            acc = acc + term
        if untouched:
            acc = acc + Rat(Poly(untouched))
        return acc

    if x.deps().isdisjoint(keys) and not (bound_names and any(touched(T.get(i)) for i in x.atom_ids())):
        return x
    r = poly_image(x.num)
    for i, e in x.dm:
        r = r / (atom_image(i) ** e)
    for f, e in x.df:
        r = r / (poly_image(f) ** e)
    return r


def transform(x: Rat, atom_fn: Callable[[Atom], Rat], _cache=None) -> Rat:
    """General homomorphism: every atom is replaced by atom_fn(atom) (which
    is responsible for recursing into arguments)."""
    if _cache is None:
        _cache = {}

    def img(i):
        if i not in _cache:
            _cache[i] = atom_fn(T.get(i))
        return _cache[i]

    def poly_image(p: Poly) -> Rat:
        acc = Rat.const(0)
        for m, c in p.t.items():
            term = Rat.const(c)
            for i, e in m:
                term = term * (img(i) ** e)
            acc = acc + term
        return acc

    r = poly_image(x.num)
    for i, e in x.dm:
        r = r / (img(i) ** e)
    for f, e in x.df:
        r = r / (poly_image(f) ** e)
    return r


def diff(x: Rat, var: Atom) -> Rat:
    """Syntactic derivative d x / d var."""
    vid = var.id

    def d_atom(a: Atom) -> Rat:
        if a.id == vid:
            return Rat.const(1)
        if vid not in a.deps:
            return Rat.const(0)
        if a.kind == "fn":
            if a.name == "exp":
                return Rat.atom(a) * diff(a.args[0], var)
            if a.name == "log":
                return diff(a.args[0], var) / a.args[0]
            if a.name == "pow":
                b, e = a.args
                if vid in e.deps():
                    raise Unmodelled("derivative of a power with variable exponent")
                return e * mk_pow(b, e - 1) * diff(b, var)
            if a.name == "sqrt":
                return diff(a.args[0], var) / (2 * Rat.atom(a))
        raise Unmodelled("derivative of %s with respect to %s" % (a, var))

    def d_poly(p: Poly) -> Rat:
        acc = Rat.const(0)
        for m, c in p.t.items():
            for k, (i, e) in enumerate(m):
                da = d_atom(T.get(i))
                if da.is_zero():
                    continue
                rest = Rat(Poly({tuple((j, f) if j != i else (j, f - 1) for j, f in m if not (j == i and f == 1)): c * e}),
                           Poly.const(1))
                acc = acc + rest * da
        return acc

    # d(n/D) = (n' - n * sum_i e_i f_i'/f_i) / D   with D = prod f_i^e_i  (denominator stays factored)
    n = Rat(x.num)
    corr = Rat.const(0)
    for i, e in x.dm:
        da = d_atom(T.get(i))
        if not da.is_zero():
            corr = corr + da * Rat.const(e) / Rat.atom(T.get(i))
    for f, e in x.df:
        df_ = d_poly(f)
        if not df_.is_zero():
            corr = corr + df_ * Rat.const(e) / Rat(f)
    inv_den = Rat(Poly.const(1), dm=x.dm, df=x.df)
    return (d_poly(x.num) - n * corr) * inv_den


# --------------------------------------------------------------------------
# printing
# --------------------------------------------------------------------------
def _mono_str(m: Mono) -> str:
    parts = []
    for i, e in m:
        s = atom_str(T.get(i))
        parts.append(s if e == 1 else "%s^%d" % (s, e))
    return "·".join(parts)


def poly_str(p: Poly, limit=12) -> str:
    if p.is_zero():
        return "0"
    items = sorted(p.t.items(), key=lambda mc: _mono_str(mc[0]))
    out = []
    for m, c in items[:limit]:
        ms = _mono_str(m)
        if not ms:
            out.append(str(c))
        elif c == 1:
            out.append(ms)
        elif c == -1:
            out.append("-" + ms)
        else:
            out.append("%s·%s" % (c, ms))
    s = " + ".join(out).replace("+ -", "- ")
    if len(items) > limit:
        s += " + …(%d terms)" % len(items)
    return s


def rat_str(x: Rat, limit=12) -> str:
    n = poly_str(x.num, limit)
    if not x.dm and not x.df:
        return n
    parts = []
    if x.dm:
        parts.append(_mono_str(x.dm))
    for f, e in x.df:
        parts.append("(%s)%s" % (poly_str(f, limit), "" if e == 1 else "^%d" % e))
    return "(%s)/(%s)" % (n, "·".join(parts))


# --------------------------------------------------------------------------
# general rewriting (renaming of paths, role permutation, step-0 instantiation)
# --------------------------------------------------------------------------
def rewrite(x: Rat, atom_fn=None, key_fn=None, _cache=None) -> Rat:
    """Homomorphic rewrite.  atom_fn(atom) -> Rat | None decides the image of an
    atom (None: rebuild it from rewritten arguments); key_fn(tuple) -> tuple | None
    rewrites non-numeric keys (object paths ...) inside argument lists."""
    if _cache is None:
        _cache = {}

    def rk(k):
        if isinstance(k, Rat):
            return rewrite(k, atom_fn, key_fn, _cache)
        if isinstance(k, tuple):
            if key_fn is not None:
                r = key_fn(k)
                if r is not None:
                    return r
            return tuple(rk(e) for e in k)
        return k

    def img(a: Atom) -> Rat:
        if a.id in _cache:
            return _cache[a.id]
        r = atom_fn(a) if atom_fn is not None else None
        if r is None:
            if a.kind == "sym":
                r = Rat.atom(a)
            else:
                r = rebuild_atom(a, [rk(k) for k in a.args])
        _cache[a.id] = r
        return r

    return transform(x, img, {})


def rename_syms(x: Rat, fn) -> Rat:
    """Rename symbol atoms and object paths with fn(str) -> str."""

    def atom_fn(a):
        if a.kind == "sym":
            n = fn(a.name)
            if n != a.name:
                return Rat.atom(T.sym(n, a.flags, a.meta))
        return None

    def key_fn(k):
        if k and k[0] in ("obj", "list", "maybe", "str?") and isinstance(k[-1], str):
            return k[:-1] + (fn(k[-1]),)
        return None

    return rewrite(x, atom_fn, key_fn)


def mentions(x: "Rat", a: Atom) -> bool:
    """x depends on the (bound) atom a: as an argument somewhere inside, or inside the path of a path-named symbol
    (data.data[#b2].x depends on #b2)."""
    deps = x.deps()
    if a.id in deps:
        return True
    tag = "[%s]" % a.name
    for i in deps:
        d = T.get(i)
        if d.kind == "sym" and tag in d.name:
            return True
    return False


def full_key_text(k) -> str:
    """Untruncated rendering of a key (atoms with their full names and arguments)."""
    if isinstance(k, Rat):
        return "{" + " ".join(_atom_full_text(T.get(i)) for i in sorted(k.atom_ids())) + "}"
    if isinstance(k, tuple):
        return "(" + ", ".join(full_key_text(x) for x in k) + ")"
    return str(k)


def _atom_full_text(a: Atom) -> str:
    if a.kind == "sym":
        return a.name
    return "%s<%s>" % (a.name, ", ".join(full_key_text(x) for x in a.args))
