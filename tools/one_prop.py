#!/venv/bin/python
"""one_prop.py Cxx [...] — run one check against its seeds (must fire), the rewrites and every refactoring patch (must stay silent)."""
import os, sys
sys.path.insert(0, "/verif")
from concurrent.futures import ThreadPoolExecutor
from sa import selfval
from sa.seeds import SEEDS, REWRITES
from sa.repo import repo_root
src = repo_root()
for pid in sys.argv[1:]:
    seeds = [s for s in SEEDS if pid in s["props"]] + selfval.agent_seeds(pid)
    refs = []
    root = "/verif/refactors"
    for d in sorted(os.listdir(root)):
        p = os.path.join(root, d, "patch.diff")
        if os.path.exists(p):
            refs.append({"id": "refactor:" + d, "props": [pid], "patch": p})
    jobs = [(s, 1) for s in seeds] + [(r, 0) for r in REWRITES] + [(r, 0) for r in refs]
    with ThreadPoolExecutor(max_workers=16) as ex:
        res = list(ex.map(lambda j: selfval.judge(pid, j[0], src), jobs))
    bad = 0
    for (s, want), (sid, rc, first) in zip(jobs, res):
        if isinstance(rc, str):
            print(pid, sid, rc); continue
        if rc != want:
            bad += 1
            print(pid, "MISMATCH", sid, "want", want, "got", rc, first)
    print(pid, "jobs", len(jobs), "mismatches", bad)
