#!/venv/bin/python
"""mutsweep.py gen|run|tests — systematic single-edit mutants of the anchored code, to find what no check reports.

gen   : writes /verif/tools/dev/mutants.json (list of {id, file, func, op, line, old, new, start, end})
run   : for each mutant, scratch copy + all quick checks; records which checks fire -> /verif/tools/dev/mutants_run.json
tests : for the mutants no check reported, runs the pinned test suite on a scratch copy -> mutants_tests.json
Scratch copies live under $TMPDIR and are removed at once. Nothing is ever applied to /repo."""
import ast, json, os, random, shutil, subprocess, sys, tempfile
from concurrent.futures import ThreadPoolExecutor

FILES = ["pyvaporation/pervaporation/pervaporation.py", "pyvaporation/mixtures/mixture.py", "pyvaporation/components/component.py",
         "pyvaporation/diffusion_curve/diffusion_curve.py", "pyvaporation/optimizer/optimizer.py", "pyvaporation/mixtures/uniquac_fitting.py",
         "pyvaporation/membrane/membrane.py", "pyvaporation/permeance/permeance.py", "pyvaporation/process/process.py",
         "pyvaporation/conditions/conditions.py", "pyvaporation/utils/utils.py"]
OUT = "/verif/tools/dev"
ALL = ["C%02d" % i for i in range(1, 21)]
SKIP_FUNCS = {"plot", "__repr__", "__str__"}


def seg(src_lines, node):
    if node.lineno == node.end_lineno:
        return src_lines[node.lineno - 1][node.col_offset:node.end_col_offset]
    return None


def offsets(src, node):
    lines = src.split("\n")
    start = sum(len(l) + 1 for l in lines[:node.lineno - 1]) + len(lines[node.lineno - 1].encode()[:node.col_offset].decode())
    end = sum(len(l) + 1 for l in lines[:node.end_lineno - 1]) + len(lines[node.end_lineno - 1].encode()[:node.end_col_offset].decode())
    return start, end


def gen():
    muts = []
    for rel in FILES:
        src = open(os.path.join("/repo", rel)).read()
        tree = ast.parse(src)
        parents = {}
        for n in ast.walk(tree):
            for c in ast.iter_child_nodes(n):
                parents[c] = n

        def func_of(n):
            names = []
            while n in parents:
                n = parents[n]
                if isinstance(n, (ast.FunctionDef, ast.ClassDef)):
                    names.append(n.name)
            return ".".join(reversed(names))

        def add(node, op, new, s=None, e=None):
            if s is None:
                s, e = offsets(src, node)
            fn = func_of(node)
            if not fn or fn.split(".")[-1] in SKIP_FUNCS:
                return
            muts.append({"file": rel, "func": fn, "op": op, "line": node.lineno, "old": src[s:e], "new": new, "start": s, "end": e})

        for n in ast.walk(tree):
            if isinstance(n, ast.Subscript) and isinstance(n.slice, ast.Constant) and n.slice.value in (0, 1) and isinstance(n.ctx, ast.Load):
                s, e = offsets(src, n.slice)
                add(n, "index-swap", str(1 - n.slice.value), s, e)
            elif isinstance(n, ast.Attribute) and n.attr in ("first_component", "second_component", "first", "second"):
                new = {"first_component": "second_component", "second_component": "first_component", "first": "second", "second": "first"}[n.attr]
                s, e = offsets(src, n)
                add(n, "role-swap", src[s:e][:-len(n.attr)] + new)
            elif isinstance(n, ast.BinOp) and type(n.op) in (ast.Add, ast.Sub, ast.Mult, ast.Div):
                # operator text lies between left and right
                ls, le = offsets(src, n.left)
                rs, re_ = offsets(src, n.right)
                mid = src[le:rs]
                sym = {ast.Add: "+", ast.Sub: "-", ast.Mult: "*", ast.Div: "/"}[type(n.op)]
                new = {"+": "-", "-": "+", "*": "/", "/": "*"}[sym]
                if mid.count(sym) == 1 and isinstance(n.left, ast.AST):
                    i = le + mid.index(sym)
                    if not (isinstance(n.left, ast.Constant) and isinstance(n.left.value, str)) and not isinstance(n.left, ast.JoinedStr):
                        add(n, "arith-swap", new, i, i + 1)
            elif isinstance(n, ast.Compare) and len(n.ops) == 1:
                ls, le = offsets(src, n.left)
                rs, re_ = offsets(src, n.comparators[0])
                mid = src[le:rs]
                table = {ast.Lt: ("<", "<="), ast.LtE: ("<=", "<"), ast.Gt: (">", ">="), ast.GtE: (">=", ">"), ast.Eq: ("==", "!="), ast.NotEq: ("!=", "=="),
                         ast.Is: ("is", "is not"), ast.IsNot: ("is not", "is")}
                t = table.get(type(n.ops[0]))
                if t and mid.count(t[0]) == 1:
                    i = le + mid.index(t[0])
                    add(n, "cmp-flip", t[1], i, i + len(t[0]))
            elif isinstance(n, ast.Constant) and isinstance(n.value, (int, float)) and not isinstance(n.value, bool):
                p = parents.get(n)
                if isinstance(p, ast.Subscript) and p.slice is n:
                    continue
                if isinstance(n.value, int):
                    add(n, "const", str(n.value + 1))
                else:
                    add(n, "const", repr(n.value * 1.5))
            elif isinstance(n, ast.Call):
                if isinstance(n.func, ast.Attribute) and n.func.attr in ("to_weight", "to_molar") and len(n.args) + len(n.keywords) == 1:
                    s, e = offsets(src, n)
                    vs, ve = offsets(src, n.func.value)
                    add(n, "drop-conversion", src[vs:ve], s, e)
                    add(n, "swap-conversion", src[vs:ve] + "." + ("to_molar" if n.func.attr == "to_weight" else "to_weight") + src[ve + 1 + len(n.func.attr):e])
                for kw in n.keywords:
                    if kw.arg is None:
                        continue
                    # drop one keyword argument (the default is used instead); only when the call stays syntactically valid
                    ks, ke = offsets(src, kw.value)
                    # keyword start: search backwards for "<arg>="
                    j = src.rfind(kw.arg, 0, ks)
                    if j < 0 or src[j + len(kw.arg):ks].strip() != "=":
                        continue
                    # extend over the following comma
                    k = ke
                    while k < len(src) and src[k] in " \t\n":
                        k += 1
                    if k < len(src) and src[k] == ",":
                        k += 1
                    muts.append({"file": rel, "func": func_of(n), "op": "drop-kwarg:" + kw.arg, "line": kw.value.lineno, "old": src[j:k], "new": "", "start": j, "end": k})
    # keep only mutants that still compile
    good = []
    for i, m in enumerate(muts):
        src = open(os.path.join("/repo", m["file"])).read()
        new = src[:m["start"]] + m["new"] + src[m["end"]:]
        try:
            ast.parse(new)
        except SyntaxError:
            continue
        if not m["func"] or m["func"].split(".")[-1] in SKIP_FUNCS:
            continue
        m["id"] = "M%04d" % len(good)
        good.append(m)
    json.dump(good, open(os.path.join(OUT, "mutants.json"), "w"), indent=0)
    from collections import Counter
    print(len(good), Counter(m["op"].split(":")[0] for m in good))


def make_copy(m):
    d = tempfile.mkdtemp(prefix="vmsw_")
    shutil.copytree("/repo/pyvaporation", os.path.join(d, "pyvaporation"), ignore=shutil.ignore_patterns("__pycache__"))
    p = os.path.join(d, m["file"])
    src = open(p).read()
    assert src[m["start"]:m["end"]] == m["old"], m["id"]
    open(p, "w").write(src[:m["start"]] + m["new"] + src[m["end"]:])
    return d


def run_one(m):
    d = make_copy(m)
    try:
        env = dict(os.environ, VERIF_REPO=d, VERIF_EVIDENCE_DIR=os.path.join(d, "evidence"))
        fired, errs = [], []
        for pid in ALL:
            try:
                p = subprocess.run(["/venv/bin/python", "/verif/sa/check.py", pid], env=env, capture_output=True, text=True, timeout=900)
                rc = p.returncode
            except subprocess.TimeoutExpired:
                rc = 2
            if rc == 1:
                fired.append(pid)
            elif rc != 0:
                errs.append(pid)
        return m["id"], fired, errs
    finally:
        shutil.rmtree(d, ignore_errors=True)


def run(sample=None, jobs=6):
    muts = json.load(open(os.path.join(OUT, "mutants.json")))
    path = os.path.join(OUT, "mutants_run.json")
    done = json.load(open(path)) if os.path.exists(path) else {}
    todo = [m for m in muts if m["id"] not in done]
    if sample:
        random.seed(7)
        random.shuffle(todo)
        todo = todo[:sample]
    with ThreadPoolExecutor(max_workers=jobs) as ex:
        for i, (mid, fired, errs) in enumerate(ex.map(run_one, todo)):
            done[mid] = {"fired": fired, "errors": errs}
            if i % 10 == 0:
                json.dump(done, open(path, "w"))
                print(i, "/", len(todo), flush=True)
    json.dump(done, open(path, "w"))


def test_one(m):
    d = make_copy(m)
    try:
        shutil.copytree("/repo/tests", os.path.join(d, "tests"))
        for extra in ("setup.py", "pyproject.toml", "setup.cfg", "pytest.ini", "conftest.py"):
            if os.path.exists("/repo/" + extra):
                shutil.copy("/repo/" + extra, d)
        env = dict(os.environ, PYTHONPATH=d)
        try:
            p = subprocess.run(["/venv/bin/python", "-m", "pytest", "-q", "-x", "-p", "no:cacheprovider", "--timeout=900"], cwd=d, env=env,
                               capture_output=True, text=True, timeout=1500)
            rc = p.returncode
            tail = p.stdout.strip().splitlines()[-1:] if p.stdout.strip() else []
        except subprocess.TimeoutExpired:
            rc, tail = 124, ["timeout"]
        return m["id"], rc, tail
    finally:
        shutil.rmtree(d, ignore_errors=True)


def tests(jobs=8):
    muts = {m["id"]: m for m in json.load(open(os.path.join(OUT, "mutants.json")))}
    runs = json.load(open(os.path.join(OUT, "mutants_run.json")))
    path = os.path.join(OUT, "mutants_tests.json")
    done = json.load(open(path)) if os.path.exists(path) else {}
    todo = [muts[i] for i, r in runs.items() if not r["fired"] and i not in done]
    with ThreadPoolExecutor(max_workers=jobs) as ex:
        for i, (mid, rc, tail) in enumerate(ex.map(test_one, todo)):
            done[mid] = {"rc": rc, "tail": tail}
            if i % 5 == 0:
                json.dump(done, open(path, "w"))
                print(i, "/", len(todo), flush=True)
    json.dump(done, open(path, "w"))


if __name__ == "__main__":
    cmd = sys.argv[1]
    if cmd == "gen":
        gen()
    elif cmd == "run":
        run(int(sys.argv[2]) if len(sys.argv) > 2 else None, int(sys.argv[3]) if len(sys.argv) > 3 else 6)
    elif cmd == "tests":
        tests(int(sys.argv[2]) if len(sys.argv) > 2 else 8)


def rerun(jobs=8):
    """Run the CURRENT checks again on the mutants that survived both the checks (as they were then) and the tests."""
    muts = {m["id"]: m for m in json.load(open(os.path.join(OUT, "mutants.json")))}
    ids = json.load(open(os.path.join(OUT, "mutants_survivors.json")))
    path = os.path.join(OUT, "mutants_rerun.json")
    done = json.load(open(path)) if os.path.exists(path) else {}
    todo = [muts[i] for i in ids if i not in done]
    with ThreadPoolExecutor(max_workers=jobs) as ex:
        for i, (mid, fired, errs) in enumerate(ex.map(run_one, todo)):
            done[mid] = {"fired": fired, "errors": errs}
            if i % 10 == 0:
                json.dump(done, open(path, "w"))
                print(i, "/", len(todo), flush=True)
    json.dump(done, open(path, "w"))


if __name__ == "__main__" and sys.argv[1] == "rerun":
    rerun(int(sys.argv[2]) if len(sys.argv) > 2 else 8)
