#!/venv/bin/python
"""Regenerates MANIFEST.json from sa/registry.py (claimed checks) and properties.jsonl."""
import json, os, sys
sys.path.insert(0, os.path.dirname(os.path.dirname(os.path.abspath(__file__))))
from sa.registry import CLAIMED, NOT_APPLICABLE, TRUSTED
props = [json.loads(l) for l in open(os.path.join(os.path.dirname(__file__), "..", "properties.jsonl"))]
ids = [p["id"] for p in props]
checks = []
for pid in ids:
    if pid in CLAIMED:
        c = CLAIMED[pid]
        checks.append({
            "property_id": pid,
            "quick_cmd": "/venv/bin/python sa/check.py %s --tier quick" % pid,
            "thorough_cmd": "/venv/bin/python sa/check.py %s --tier thorough" % pid,
            "evidence_file": "/verif/evidence/%s.json" % pid,
            "replay_cmd_template": "/venv/bin/python sa/check.py --replay {path}",
            "engine": "sa",
            "level_claimed": {"category": "other", "text": c["text"], "design_ref": "DESIGN.md section 4, " + pid},
            "level_note": c["note"] + " Trusted base: " + TRUSTED,
            "technique": c["technique"],
        })
na = [{"property_id": pid, "reason": NOT_APPLICABLE.get(pid, "check not built yet (construction in progress; see DESIGN.md section 4)")}
      for pid in ids if pid not in CLAIMED]
m = {
    "version": 1,
    "setup_cmd": "/venv/bin/python -m compileall -q sa && /venv/bin/python sa/selftest.py",
    "hooks": {"guard": "MEMBRIZARD_PYVAPORATION_VERIF",
              "enable": "no runtime hooks: every check is static (stdlib ast) and reads /repo's sources as they are on disk; VERIF_REPO points the analysis at another tree",
              "baseline_off_cmd": "cd /repo && /venv/bin/python -m pytest -ra -q -p no:cacheprovider --timeout=900 --continue-on-collection-errors",
              "source_commits": [], "add_only": True},
    "engines": [{"name": "sa", "path": "/verif/sa", "serves_properties": sorted(CLAIMED),
                 "kind_free_text": "purpose-built static analyser over stdlib ast: resolver, call binding, normal-form evaluator "
                                   "(exact rational normal forms over uninterpreted atoms, series model of Euler loops, role permutation, "
                                   "syntactic derivative), abstract mode enumeration, effect/alias analysis, writer/reader tables, termination rules"}],
    "checks": checks,
    "notes": "Static analysis only: no repository code is imported or executed by any check. Exit 2 = ANALYSIS-ERROR (never a verdict). "
             "Known findings: /verif/known_findings.json. See DESIGN.md.",
    "not_applicable": na,
}
json.dump(m, open(os.path.join(os.path.dirname(__file__), "..", "MANIFEST.json"), "w"), indent=1)
print("claimed:", sorted(CLAIMED), "not claimed:", [x["property_id"] for x in na])
