#!/venv/bin/python
"""confirm_seed.py <Cxx> <A|B>: independently confirm a sub-agent's seeded change in its scratch worktree /tmp/seed/<Cxx>,
run our quick checks on it and file it under /verif/seeded/<Cxx>-<variant>/ (only if confirmed)."""
import json, os, shutil, subprocess, sys
sys.path.insert(0, os.path.dirname(os.path.abspath(__file__)))
import eval_seed
pid, var = sys.argv[1], sys.argv[2]
wt = os.path.join(os.environ.get("SEED_ROOT", "/tmp/seed"), pid)
sd = os.path.join(wt, "_seed")
patch = os.path.join(sd, "%s.patch.diff" % var)
demo = os.path.join(sd, "%s.demo.py" % var)
meta = os.path.join(sd, "%s.meta.json" % var)
env = dict(os.environ, PYTHONPATH=wt)
def sh(cmd, **kw):
    return subprocess.run(cmd, cwd=wt, env=env, capture_output=True, text=True, **kw)
rep = {"id": "%s-%s" % (pid, var)}
if not (os.path.exists(patch) and os.path.exists(demo)):
    print(json.dumps({"id": rep["id"], "error": "files missing"})); sys.exit(2)
sh(["git", "checkout", "--", "pyvaporation"])
r0 = sh(["/venv/bin/python", demo], timeout=1200)
rep["demo_without_patch_exit"] = r0.returncode
a = sh(["git", "apply", patch])
if a.returncode != 0:
    print(json.dumps({"id": rep["id"], "error": "patch does not apply: " + a.stderr[-300:]})); sys.exit(2)
try:
    r1 = sh(["/venv/bin/python", demo], timeout=1200)
    rep["demo_with_patch_exit"] = r1.returncode
    rep["demo_with_patch_tail"] = (r1.stdout + r1.stderr)[-400:]
    t = sh(["/venv/bin/python", "-m", "pytest", "-q", "-p", "no:cacheprovider", "--timeout=900", "-x", "-q"], timeout=2400)
    rep["tests_exit"] = t.returncode
    rep["tests_tail"] = t.stdout[-200:]
finally:
    sh(["git", "checkout", "--", "pyvaporation"])
rep["confirmed"] = rep["demo_without_patch_exit"] == 0 and rep.get("demo_with_patch_exit") == 1 and rep.get("tests_exit") == 0
ev = eval_seed.run(patch)
rep["checks"] = ev.get("results") if "results" in ev else ev
fired = [p for p, rc, l in ev.get("results", []) if rc == 1]
errs = [p for p, rc, l in ev.get("results", []) if rc not in (0, 1)]
first_fired, first_errs = fired, errs
try:
    _files = {"C": "round2_eval.json", "D": "round2_eval.json", "E": "round3_eval.json", "F": "round3_eval.json", "G": "round4_eval.json", "H": "round4_eval.json", "I": "round5_eval.json", "J": "round5_eval.json", "K": "round6_eval.json", "L": "round6_eval.json"}
    _first = json.load(open("/verif/tools/dev/" + _files[var])).get("%s-%s" % (pid, var)) if var in _files else None
    if _first and os.environ.get("SEED_ROOT"):
        first_fired, first_errs = _first["fired"], _first["errors"]
except (OSError, ValueError):
    pass
rep["fired"] = fired
rep["analysis_errors"] = errs
if rep["confirmed"]:
    out = "/verif/seeded/%s-%s" % (pid, var)
    os.makedirs(out, exist_ok=True)
    shutil.copy(patch, os.path.join(out, "patch.diff"))
    shutil.copy(demo, os.path.join(out, "demo.py"))
    m = json.load(open(meta)) if os.path.exists(meta) else {}
    m.update({"property": pid, "variant": var, "confirmed_by_me": {
        "demo_exit_without_patch": rep["demo_without_patch_exit"], "demo_exit_with_patch": rep["demo_with_patch_exit"],
        "full_test_suite_exit_with_patch": rep["tests_exit"],
        "ran": "git apply patch.diff in a scratch worktree; /venv/bin/python demo.py; /venv/bin/python -m pytest -q -x; git checkout"},
        "checks_fired_when_first_evaluated": first_fired, "checks_with_analysis_error_when_first_evaluated": first_errs})
    json.dump(m, open(os.path.join(out, "meta.json"), "w"), indent=1)
print(json.dumps({k: rep[k] for k in ("id", "confirmed", "demo_without_patch_exit", "demo_with_patch_exit", "tests_exit", "fired", "analysis_errors")}))
for p, rc, l in ev.get("results", []):
    if rc != 0:
        print("   ", p, rc, (l[0][:230] if l else ""))
