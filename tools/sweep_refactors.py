#!/venv/bin/python
"""Run every quick check on every behaviour-preserving refactoring under /verif/refactors (scratch copies); all must exit 0."""
import json, os, sys
sys.path.insert(0, os.path.dirname(os.path.abspath(__file__)))
import eval_seed
root = "/verif/refactors"
only = sys.argv[1:]
bad = 0
for d in sorted(os.listdir(root)):
    if only and d not in only:
        continue
    p = os.path.join(root, d, "patch.diff")
    if not os.path.exists(p):
        continue
    out = eval_seed.run(p)
    if "error" in out:
        print(d, "ERROR", out["error"][:200]); continue
    noisy = [(pid, rc, l) for pid, rc, l in out["results"] if rc != 0]
    print(d, "silent" if not noisy else "NOISY: " + " ".join("%s(%d)" % (pid, rc) for pid, rc, l in noisy), flush=True)
    for pid, rc, l in noisy:
        bad += 1
        print("     ", pid, (l[0][:330] if l else ""))
print("false alarms:", bad)
