#!/bin/bash
# runs every quick check; prints one line each
cd /verif
for p in C01 C02 C03 C04 C05 C06 C07 C08 C09 C10 C11 C12 C13 C14 C15 C16 C17 C18 C19 C20; do
  out=$(timeout 900 /venv/bin/python sa/check.py $p --tier ${1:-quick} 2>&1); rc=$?
  echo "rc=$rc $(echo "$out" | tail -1 | cut -c1-160)"
done
