#!/venv/bin/python
"""Developer helper: trymut.py <relfile> <old> <new> <pid> [<pid>...]
Copies /repo/pyvaporation to a scratch dir, replaces the first occurrence (or
the n-th with @n suffix on old) of <old> by <new>, runs the checks, removes the copy."""
import os, shutil, subprocess, sys, tempfile
rel, old, new, *pids = sys.argv[1:]
nth = 1
if "@@" in old:
    old, n = old.rsplit("@@", 1); nth = int(n)
d = tempfile.mkdtemp(prefix="vmut_")
try:
    shutil.copytree("/repo/pyvaporation", os.path.join(d, "pyvaporation"), ignore=shutil.ignore_patterns("__pycache__"))
    p = os.path.join(d, rel)
    s = open(p).read()
    idx = -1
    for _ in range(nth):
        idx = s.find(old, idx + 1)
        if idx < 0:
            print("pattern not found"); sys.exit(3)
    s = s[:idx] + new + s[idx + len(old):]
    open(p, "w").write(s)
    env = dict(os.environ, VERIF_REPO=d, VERIF_EVIDENCE_DIR=os.path.join(d, "evidence"))
    for pid in pids:
        r = subprocess.run(["/venv/bin/python", "/verif/sa/check.py", pid], env=env, capture_output=True, text=True)
        print("== %s exit=%d" % (pid, r.returncode))
        print("\n".join(r.stdout.strip().splitlines()[-12:]))
        if r.stderr.strip():
            print(r.stderr[-800:])
finally:
    shutil.rmtree(d, ignore_errors=True)
