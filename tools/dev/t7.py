import sys,time; sys.path.insert(0,'/verif'); sys.setrecursionlimit(20000)
from sa.repo import Repo
from sa.activity import *
from sa import poly
from sa.poly import *
from sa.sigma import Sigma
from sa.props.c04 import addends
r=Repo()
f,outs,o,g1,g2=gammas(r,"UNIQUAC","notnone")
sg=Sigma(r)
a1,a2=addends(g1),addends(g2)
for i,(u,v) in enumerate(zip(a1,a2)):
    su=sg(u)
    print(i, su==v)
    if not (su==v):
        print('  u :',u); print('  su:',su); print('  v :',v)
