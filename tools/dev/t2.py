import sys,time; sys.path.insert(0,'/verif'); sys.setrecursionlimit(20000)
from sa.repo import Repo
from sa.evaluator import *
from sa.procmodel import make_config
from sa.sigma import Sigma
from sa import poly
r=Repo()
f=r.find_function('calculate_activity_coefficients')
which=sys.argv[1:] or ["NRTL2","NRTL1","UNIQUAC"]
for model,a21,tag in (("NRTL","notnone","NRTL2"),("NRTL","none","NRTL1"),("UNIQUAC","notnone","UNIQUAC")):
    if tag not in which: continue
    cfg=make_config({"calculation_type":("str",model),"composition.type":("str","molar"),"mixture.nrtl_params":"notnone","mixture.nrtl_params.alpha21":a21,
       "mixture.uniquac_params":"notnone","mixture.first_component.uniquac_constants":"notnone","mixture.second_component.uniquac_constants":"notnone",
       "mixture.first_component.uniquac_constants.q_interaction":"notnone","mixture.second_component.uniquac_constants.q_interaction":"notnone",
       "mixture.nrtl_params.a12":"notnone","mixture.nrtl_params.a21":"notnone"})
    t=time.time()
    outs=analyse(r,f,cfg)
    print(model,a21,len(outs),time.time()-t)
    for o in outs:
        print('  ',o.kind,[(poly.key_str(c),d) for c,d in o.trace])
        if o.kind=='return' and all(not d for c,d in o.trace):
            g1,g2=o.value.items[0].r,o.value.items[1].r
            sg=Sigma(r, fixed_paths=("mixture.nrtl_params.alpha12",) if a21=="none" else ())
            t=time.time()
            l1,l2=poly.mk_log(g1),poly.mk_log(g2)
            print('   terms',l1.num.nterms(),l1.den.nterms())
            s1=sg(l1)
            print('   sigma(g1)==g2',s1==l2, ' sigma(g2)==g1', sg(l2)==l1, time.time()-t)
