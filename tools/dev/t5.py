import sys,time; sys.path.insert(0,'/verif'); sys.setrecursionlimit(20000)
from sa.repo import Repo
from sa.activity import *
from sa import poly
from sa.poly import *
from sa.sigma import Sigma
r=Repo()
f,outs,o,g1,g2=gammas(r,"NRTL","notnone")
l1,l2=mk_log(g1),mk_log(g2)
sg=Sigma(r)
s1=sg(l1)
print(l1); print(l2); print(s1)
print(s1==l2, s1.fp(), l2.fp(), (s1-l2).num.nterms())
