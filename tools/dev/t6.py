import sys,time; sys.path.insert(0,'/verif'); sys.setrecursionlimit(20000)
from sa.repo import Repo
from sa.activity import *
from sa import poly
from sa.poly import *
r=Repo()
x = poly.T.sym("composition.p", ("nonneg", "comp_p")); X=Rat.atom(x)
def terms(g):
    a=g.single_atom()
    if a is not None and a.kind=='fn' and a.name=='exp' and a.meta.get('addends'): return a.meta['addends']
    return [mk_log(g)]
for model,a21,label in ARMS[2:]:
    t=time.time()
    f,outs,o,g1,g2=gammas(r,model,a21)
    t1,t2=terms(g1),terms(g2)
    print(label,'eval',time.time()-t,len(t1),len(t2)); t=time.time()
    acc=Rat.const(0)
    for u in t1: acc=acc+X*diff(u,x)
    for u in t2: acc=acc+(1-X)*diff(u,x)
    print(' zero?',acc.is_zero(),acc.num.nterms(),[(f.nterms(),e) for f,e in acc.df],time.time()-t)
