"""Self-test of the algebra engine against exact Fraction arithmetic (tests the tool, not the repository)."""
import sys, random; sys.path.insert(0,'/verif')
from fractions import Fraction
from sa.poly import *
rnd=random.Random(int(sys.argv[1]) if len(sys.argv)>1 else 1)
names=['a','b','c','d']
atoms={n:T.sym(n) for n in names}
def gen(depth):
    if depth==0 or rnd.random()<0.2:
        if rnd.random()<0.3: return ('c', Fraction(rnd.randint(-3,3), rnd.randint(1,3)))
        return ('v', rnd.choice(names))
    op=rnd.choice('+-*/^')
    if op=='^': return ('^', gen(depth-1), rnd.choice([2,3,-1,-2]))
    return (op, gen(depth-1), gen(depth-1))
def ev_r(t):
    k=t[0]
    if k=='c': return Rat.const(t[1])
    if k=='v': return Rat.atom(atoms[t[1]])
    if k=='^': return ev_r(t[1])**t[2]
    a,b=ev_r(t[1]),ev_r(t[2])
    return {'+':lambda:a+b,'-':lambda:a-b,'*':lambda:a*b,'/':lambda:a/b}[k]()
def ev_f(t,env):
    k=t[0]
    if k=='c': return t[1]
    if k=='v': return env[t[1]]
    if k=='^': return ev_f(t[1],env)**t[2]
    a,b=ev_f(t[1],env),ev_f(t[2],env)
    return {'+':lambda:a+b,'-':lambda:a-b,'*':lambda:a*b,'/':lambda:a/b}[k]()
n=bad=0
for it in range(400):
    t=gen(4)
    try: r=ev_r(t)
    except Unmodelled: continue
    env={nm:Fraction(rnd.randint(2,97),rnd.randint(1,13)) for nm in names}
    try: want=ev_f(t,env)
    except ZeroDivisionError: continue
    try:
        got=subst(r,{atoms[nm].id:Rat.const(v) for nm,v in env.items()})
    except Unmodelled: continue
    n+=1
    if not (got.is_const() and got.const_value()==want):
        bad+=1; print('MISMATCH',t,got,want)
    # equality consistency: r == r rebuilt in a different order
    t2=('+',t,('c',Fraction(0)))
    if not (ev_r(t2)==r): bad+=1; print('EQ FAIL',t)
    d=diff(r,atoms['a'])
    # derivative check by central identity: d(r*r) = 2 r dr
    if not (diff(r*r,atoms['a'])==2*r*d): bad+=1; print('DIFF FAIL',t)
print('cases',n,'bad',bad)
