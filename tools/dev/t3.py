import sys,time; sys.path.insert(0,'/verif'); sys.setrecursionlimit(20000)
from sa.repo import Repo
from sa.evaluator import *
from sa.procmodel import make_config
from sa import poly
import cProfile,pstats
r=Repo()
f=r.find_function('calculate_activity_coefficients')
cfg=make_config({"calculation_type":("str","NRTL"),"composition.type":("str","molar"),"mixture.nrtl_params":"notnone","mixture.nrtl_params.alpha21":"none",
       "mixture.nrtl_params.a12":"notnone","mixture.nrtl_params.a21":"notnone"})
cProfile.run('outs=analyse(r,f,cfg)','/tmp/prof2')
pstats.Stats('/tmp/prof2').sort_stats('cumulative').print_stats(22)
