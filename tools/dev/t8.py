import sys,time; sys.path.insert(0,'/verif'); sys.setrecursionlimit(20000)
from sa.repo import Repo
from sa.evaluator import *
from sa.procmodel import make_config
from sa import poly
r=Repo()
for name in ['Membrane.get_permeance','Membrane.calculate_activation_energy']:
    f=r.find_function(name)
    cfg=make_config({}, extra_inline=("Membrane.get_penetrant_data","IdealExperiments.__len__"))
    cfg.str_domains["*.units"]=("kg/(m2*h*kPa)",)
    outs=analyse(r,f,cfg)
    print(name,len(outs))
    for o in outs:
        print(' ',o.kind,[(poly.key_str(c)[:90],d) for c,d in o.trace])
        print('     ->', (repr(o.value)[:500] if o.kind=='return' else o.exc.exc_type))
