#!/venv/bin/python
"""Fill meta.json['checks'] of seeds that were filed after the last full sweep (from their first-evaluation records, re-evaluating
the ones given on the command line) and rewrite /verif/seeded/MATRIX.md from all meta files."""
import json, os, sys
sys.path.insert(0, "/verif/tools")
import eval_seed
root = "/verif/seeded"
first = {}
for f in ("round5_eval.json", "round6_eval.json"):
    p = os.path.join("/verif/tools/dev", f)
    if os.path.exists(p):
        first.update(json.load(open(p)))
redo = set(sys.argv[1:])
rows = []
for d in sorted(os.listdir(root)):
    mp = os.path.join(root, d, "meta.json")
    if not os.path.exists(mp):
        continue
    m = json.load(open(mp))
    if d in redo or ("checks" not in m and d not in first):
        out = eval_seed.run(os.path.join(root, d, "patch.diff"))
        res = out.get("results", [])
        m["checks"] = {"fired": [p for p, rc, l in res if rc == 1], "analysis_errors": [p for p, rc, l in res if rc not in (0, 1)],
                       "first_report_of_target": ([l[0] for p, rc, l in res if p == m["property"] and l] or [""])[0][:300]}
        json.dump(m, open(mp, "w"), indent=1)
        print(d, "evaluated", m["checks"]["fired"], flush=True)
    elif "checks" not in m:
        m["checks"] = {"fired": first[d]["fired"], "analysis_errors": first[d]["errors"],
                       "first_report_of_target": first[d]["first"].get(m["property"], "")[:300]}
        json.dump(m, open(mp, "w"), indent=1)
    fired, errs = m["checks"]["fired"], m["checks"].get("analysis_errors", [])
    rows.append((d, m["property"], m.get("summary", "")[:150].replace("|", "/").replace("\n", " "),
                 m.get("needs_to_manifest", "")[:140].replace("|", "/").replace("\n", " "), fired, errs))
with open(os.path.join(root, "MATRIX.md"), "w") as f:
    f.write("| seeded change | breaks | what was changed | needs to manifest | target check fires | all checks that fire |\n|---|---|---|---|---|---|\n")
    for d, prop, summ, need, fired, errs in rows:
        f.write("| %s | %s | %s | %s | %s | %s%s |\n" % (d, prop, summ, need, "yes" if prop in fired else "NO", " ".join(fired),
                                                       (" (analysis error: %s)" % " ".join(errs)) if errs else ""))
print("rows:", len(rows), "target misses:", [r[0] for r in rows if r[1] not in r[4]])
