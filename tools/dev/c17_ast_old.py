"""C17 — saved curves, functions, conditions and process models load back unchanged (kind S: writer/reader tables)."""
import ast

from ..tables import WriterTable, ReaderTable, dict_literal_keys, json_reads, self_attr_chain, norm_path
from ..structural import type_env
from ..repo import AnalysisError, FuncInfo, Const

EXPL = ("The persistence code is read as a pair of tables. Writer: column -> (field, selector inside an element, series/scalar), "
        "from the DataFrame literal and the column assignments of save(). Reader: constructor field -> columns with selector and "
        "shape, following local variables, per-row appends and tuple positions in load()/from_frame(). Decided: W1 the written "
        "column set equals the declared column constant and every column read is written; W2 field -> column -> field is the "
        "identity including tuple positions (partial_flux_1 <-> [0] ...); W3 value/unit and value/type pairs are recombined and "
        "re-normalised (convert to kg with the position's own component, to_weight); W4 side files: name prefix, tuple index and "
        "loader filter agree, safe/unsafe variants are chosen symmetrically, JSON key sets are equal and key<->field bijective; W5 "
        "a field written as a series is read as a series; W6 every write of ProcessModel.save targets the directory created with "
        "exist_ok=False by _generate_process_path.")

NUMERIC_HINT = ("temperature", "pressure", "mass", "flux", "permeance", "heat", "time", "composition")


def module_list_constant(repo, module, name):
    r = repo.resolve(module, name)
    if isinstance(r, Const) and isinstance(r.node, ast.List):
        return [e.value for e in r.node.elts if isinstance(e, ast.Constant)]
    return None


def check_table_pair(ck, repo, cls_name, save_name, load_name, frame_var, numeric_series_fields, unit_note):
    C = repo.find_class(cls_name)
    sv, ld = C.methods.get(save_name), C.methods.get(load_name)
    if sv is None or ld is None:
        raise AnalysisError("%s.%s / %s not found" % (cls_name, save_name, load_name))
    ck.analysed_function(sv)
    ck.analysed_function(ld)
    w = WriterTable(sv)
    r = ReaderTable(ld, frame_var, ctor_names=("cls", cls_name))
    where_w, where_r = sv.loc(), ld.loc()
    ck.ob("W1", sv.qualname, "every written column is understood", where_w, not w.unparsed,
          "; ".join("%s <- %s" % (c, ast.unparse(v)[:60]) for c, v in w.unparsed))
    declared = module_list_constant(repo, sv.module, w.order_constant) if w.order_constant else None
    ck.ob("W1", sv.qualname, "written columns == declared column list %s" % w.order_constant, where_w,
          declared is not None and set(declared) == set(w.columns) and len(declared) == len(set(declared)),
          found="written %s; declared %s" % (sorted(w.columns), declared))
    ck.floor("%s columns written" % cls_name, len(w.columns), 14)
    if r.ctor is None:
        ck.ob("W2", ld.qualname, "loader constructs the object from the frame", where_r, False)
        return w, r
    read_cols = set()
    for fld, refs in r.fields.items():
        for col, path, shape in refs:
            read_cols.add(col)
            ck.ob("W1", ld.qualname, "column %s read by the loader is written by save" % col, where_r, col in w.columns)
            if col not in w.columns:
                continue
            wf, wp, wshape, node = w.columns[col]
            wf0 = wf.split(".")[0]
            ok = wf0 == fld or (wf == "comments" and fld == "comments")
            if wf.count(".") and wf0 == fld:
                ok = True   # e.g. mixture.name -> mixture (looked up by name)
            ck.ob("W2", ld.qualname, "field %s is read back from the column its own data was written to (%s)" % (fld, col), where_r, ok,
                  "column %s is written from self.%s%s but read into %s%s" % (col, wf, wp, fld, path),
                  expected="self.%s" % fld, found="self.%s" % wf, sample=True)
            if not ok:
                continue
            p_r, p_w = norm_path(path), norm_path(wp)
            if col == "units":
                okp = p_w.endswith(".units") and p_r.endswith(".units")
                ck.ob("W3", ld.qualname, "units column labels the permeances of %s%s" % (fld, path), where_r, okp,
                      unit_note)
                continue
            ck.ob("W2", ld.qualname, "position / attribute agreement for %s: written from %s, read into %s" % (col, p_w or "<element>", p_r or "<element>"),
                  where_r, p_r == p_w, "the loader puts column %s at %s%s but save took it from %s%s" % (col, fld, p_r, wf, p_w),
                  expected=p_w, found=p_r)
            if wshape == "series" and fld in numeric_series_fields:
                ck.ob("W5", ld.qualname, "field %s is written as a series and read back as a series" % fld, where_r, shape in ("series",),
                      "save writes one value per step; the loader binds %s" % ("a single value (.iloc[0])" if shape == "scalar" else shape))
    for col, (wf, wp, wshape, node) in w.columns.items():
        if wf == "<constant>":
            continue
        if col not in read_cols:
            ck.note("%s: column %s is written but not read back by %s" % (cls_name, col, ld.qualname))
    for fld in numeric_series_fields:
        ck.ob("W2", ld.qualname, "persisted field %s is restored" % fld, where_r, bool(r.fields.get(fld)),
              "the loader does not rebuild this field from the frame")
    return w, r


def check_recombination(ck, repo, ld: FuncInfo, r: ReaderTable):
    """W3: Permeance(value, units).convert(kg, own component); Composition(p, type).to_weight"""
    src_nodes = []
    for fld in ("permeances",):
        node = r.field_nodes.get(fld)
        if node is None:
            continue
        if isinstance(node, ast.Name):
            for kind, d in r._local_defs(node.id):
                if kind == "append":
                    src_nodes.append(d)
        else:
            src_nodes.append(node)
    n = 0
    for d in src_nodes:
        if isinstance(d, ast.Tuple) and len(d.elts) == 2:
            for i, e in enumerate(d.elts):
                n += 1
                comp = "first_component" if i == 0 else "second_component"
                s = ast.unparse(e)
                ok = isinstance(e, ast.Call) and isinstance(e.func, ast.Attribute) and e.func.attr == "convert" and \
                    ("kg_m2_h_kPa" in s) and ("component=mixture.%s" % comp in s.replace(" ", "") or "mixture.%s" % comp in s)
                other = "second_component" if i == 0 else "first_component"
                ok = ok and ("mixture.%s" % other) not in s
                ck.ob("W3", ld.qualname, "loaded permeance %d is converted to kg/(m2 h kPa) with the %s" % (i + 1, comp.replace("_", " ")), ld.loc(e), ok,
                      found=s[:200])
    ck.floor("permeance recombinations in %s" % ld.qualname, n, 2)
    for fld in ("feed_compositions", "permeate_composition"):
        node = r.field_nodes.get(fld)
        if node is None:
            continue
        s = ast.unparse(node)
        ck.ob("W3", ld.qualname, "%s are re-loaded as mass fractions (value and type recombined, then to_weight)" % fld, ld.loc(node),
              "Composition(" in s and "to_weight(" in s and "type=" in s, found=s[:200])


def check_json_pair(ck, repo, cls_name, field_of_key):
    C = repo.find_class(cls_name)
    sv, ld = C.methods.get("safe_save"), C.methods.get("safe_load")
    if sv is None or ld is None:
        raise AnalysisError("%s.safe_save / safe_load not found" % cls_name)
    ck.analysed_function(sv)
    ck.analysed_function(ld)
    written = dict_literal_keys(sv, "json_dict")
    reads = json_reads(ld, "json_object")
    ck.ob("W4", sv.qualname, "JSON keys written == JSON keys read", sv.loc(), set(written) == set(reads) and bool(written),
          found="written %s; read %s" % (sorted(written), sorted(reads)))
    # key -> field on the writer side
    wmap = {}
    for k, v in written.items():
        e = v
        if isinstance(e, ast.Call) and isinstance(e.func, ast.Name) and e.func.id in ("list", "float", "int", "str") and e.args:
            e = e.args[0]
        wmap[k] = self_attr_chain(e)
    # key -> constructor keyword path on the reader side
    rmap = {}
    ctor = None
    for n in ast.walk(ld.node):
        if isinstance(n, ast.Return) and isinstance(n.value, ast.Call):
            ctor = n.value

    def walk_ctor(call, prefix):
        for kw in call.keywords:
            v = kw.value
            if isinstance(v, ast.Call) and isinstance(v.func, ast.Name) and v.keywords:
                walk_ctor(v, prefix + kw.arg + ".")
            else:
                for n in ast.walk(v):
                    if isinstance(n, ast.Subscript) and isinstance(n.value, ast.Name) and n.value.id == "json_object" and isinstance(n.slice, ast.Constant):
                        rmap[n.slice.value] = prefix + kw.arg
    if ctor is not None:
        walk_ctor(ctor, "")
    for k in sorted(set(wmap) | set(rmap)):
        a, b = wmap.get(k), rmap.get(k)
        ck.ob("W4", ld.qualname, "JSON key %r is written from and restored to the same field" % k, ld.loc(), a is not None and a == b,
              expected=str(a), found=str(b), sample=(k == "alpha"))
    fields = [f.name for f in C.fields]
    persisted = set(x.split(".")[0] for x in wmap.values() if x)
    missing = [f for f in fields if f not in persisted and f not in field_of_key]
    ck.ob("W4", sv.qualname, "every field of %s is persisted (documented exceptions: %s)" % (cls_name, ", ".join(sorted(field_of_key)) or "none"),
          sv.loc(), not missing, "not persisted: %s" % missing)


def check_side_files(ck, repo):
    PM = repo.find_class("ProcessModel")
    sv, ld = PM.methods["save"], PM.methods["load"]
    # writer: self.permeance_fits[i].<save|safe_save>(process_path / f"pervaporation_function_<i>_...")
    calls = []
    for n in ast.walk(sv.node):
        if isinstance(n, ast.Call) and isinstance(n.func, ast.Attribute) and n.func.attr in ("save", "safe_save"):
            recv = ast.unparse(n.func.value)
            if recv.startswith("self.permeance_fits["):
                idx = recv[len("self.permeance_fits["):-1]
                arg = ast.unparse(n.args[0]) if n.args else ""
                calls.append((n, idx, n.func.attr, arg))
    ck.floor("fit side-file writes", len(calls), 4)
    for n, idx, meth, arg in calls:
        ck.ob("W4", sv.qualname, "fit %s is written to the file named pervaporation_function_%s_*" % (idx, idx), sv.loc(n),
              ("pervaporation_function_%s_" % idx) in arg, found=arg[:120])
        comp = "first_component" if idx == "0" else "second_component"
        ck.ob("W4", sv.qualname, "file name of fit %s carries the %s's name" % (idx, comp.replace("_", " ")), sv.loc(n), ("self.mixture.%s.name" % comp) in arg,
              found=arg[:160])
    # is_safe symmetry
    for f, safe_names, unsafe_names in ((sv, ("safe_save",), ("save", "dump")), (ld, ("safe_load",), ("load",))):
        for n in ast.walk(f.node):
            if isinstance(n, ast.If) and isinstance(n.test, ast.Name) and n.test.id == "is_safe":
                body_calls = {c.func.attr for st in n.body for c in ast.walk(st) if isinstance(c, ast.Call) and isinstance(c.func, ast.Attribute)}
                else_calls = {c.func.attr for st in n.orelse for c in ast.walk(st) if isinstance(c, ast.Call) and isinstance(c.func, ast.Attribute)}
                ck.ob("W4", f.qualname, "is_safe selects the JSON variant, otherwise the binary one", f.loc(n),
                      bool(body_calls & set(safe_names)) and not (else_calls & set(safe_names)) and bool(else_calls & set(unsafe_names))
                      and not (body_calls & {"dump"}), found="if is_safe: %s else: %s" % (sorted(body_calls), sorted(else_calls)))
    # loader: filters and tuple order
    filt = {}
    for n in ast.walk(ld.node):
        if isinstance(n, ast.Assign) and isinstance(n.targets[0], ast.Name) and "startswith" in ast.unparse(n.value):
            for c in ast.walk(n.value):
                if isinstance(c, ast.Call) and isinstance(c.func, ast.Attribute) and c.func.attr == "startswith" and c.args and isinstance(c.args[0], ast.Constant):
                    filt[n.targets[0].id] = c.args[0].value
    pv = {}
    for n in ast.walk(ld.node):
        if isinstance(n, ast.Assign) and isinstance(n.targets[0], ast.Name) and isinstance(n.value, ast.Call) and \
                ast.unparse(n.value.func).split(".")[-1] in ("load", "safe_load") and n.value.args:
            a = ast.unparse(n.value.args[0])
            for var, prefix in filt.items():
                if a.startswith(var):
                    pv.setdefault(n.targets[0].id, set()).add(prefix)
    ctor = [n.value for n in ast.walk(ld.node) if isinstance(n, ast.Return) and isinstance(n.value, ast.Call)]
    okk = False
    found = ""
    if ctor:
        for kw in ctor[0].keywords:
            if kw.arg == "permeance_fits":
                tup = kw.value.body if isinstance(kw.value, ast.IfExp) else kw.value
                if isinstance(tup, ast.Tuple) and len(tup.elts) == 2 and all(isinstance(e, ast.Name) for e in tup.elts):
                    p0, p1 = pv.get(tup.elts[0].id, set()), pv.get(tup.elts[1].id, set())
                    okk = p0 == {"pervaporation_function_0"} and p1 == {"pervaporation_function_1"}
                    found = "(%s <- %s, %s <- %s)" % (tup.elts[0].id, sorted(p0), tup.elts[1].id, sorted(p1))
    ck.ob("W4", ld.qualname, "permeance_fits = (file pervaporation_function_0*, file pervaporation_function_1*)", ld.loc(), okk, found=found)
    # initial conditions file
    ssrc, lsrc = ast.unparse(sv.node), ast.unparse(ld.node)
    ck.ob("W4", sv.qualname, "initial conditions are written to and read from the same file name", sv.loc(),
          "initial_conditions.ic" in ssrc and "initial_conditions.ic" in lsrc)


def check_fresh_directory(ck, repo):
    PM = repo.find_class("ProcessModel")
    gen = PM.methods.get("_generate_process_path")
    sv = PM.methods["save"]
    if gen is None:
        ck.ob("W6", "ProcessModel", "process directory generator exists", PM.module.relpath, False)
        return
    ck.analysed_function(gen)
    rets = [n.value for n in ast.walk(gen.node) if isinstance(n, ast.Return)]
    ok = False
    found = ""
    if len(rets) == 1 and isinstance(rets[0], ast.Name):
        var = rets[0].id
        mk = [n for n in ast.walk(gen.node) if isinstance(n, ast.Call) and isinstance(n.func, ast.Attribute) and n.func.attr == "mkdir"
              and isinstance(n.func.value, ast.Name) and n.func.value.id == var]
        found = "; ".join(ast.unparse(m) for m in mk)
        ok = len(mk) == 1 and any(k.arg == "exist_ok" and isinstance(k.value, ast.Constant) and k.value.value is False for k in mk[0].keywords)
        # the returned path must not be re-assigned after the mkdir
    ck.ob("W6", gen.qualname, "the returned directory is created with exist_ok=False (an existing directory is never reused)", gen.loc(), ok, found=found)
    # every write in save targets a path under the generated directory
    pvar = None
    for n in ast.walk(sv.node):
        if isinstance(n, ast.Assign) and isinstance(n.targets[0], ast.Name) and isinstance(n.value, ast.Call) and \
                ast.unparse(n.value.func).endswith("_generate_process_path"):
            pvar = n.targets[0].id
    ck.ob("W6", sv.qualname, "save obtains its directory from the generator", sv.loc(), pvar is not None)
    writes = []
    for n in ast.walk(sv.node):
        if isinstance(n, ast.Call) and isinstance(n.func, ast.Attribute) and n.func.attr in ("to_csv", "dump", "save", "safe_save", "write", "to_json", "to_pickle", "savetxt", "write_text"):
            if n.func.attr == "dump":
                target = n.args[1] if len(n.args) > 1 else None
            else:
                target = n.args[0] if n.args else None
            writes.append((n, target))
        if isinstance(n, ast.Call) and isinstance(n.func, ast.Name) and n.func.id == "open":
            writes.append((n, n.args[0] if n.args else None))
    ck.floor("write calls in ProcessModel.save", len(writes), 6)
    for n, target in writes:
        s = ast.unparse(target) if target is not None else ""
        names = {x.id for x in ast.walk(target) if isinstance(x, ast.Name)} if target is not None else set()
        ck.ob("W6", sv.qualname, "write %s goes into the freshly created process directory" % ast.unparse(n.func), sv.loc(n),
              pvar is not None and pvar in names and s.lstrip("(").startswith(pvar), found=s[:120])
    reassigned = [n for n in ast.walk(sv.node) if isinstance(n, ast.Assign) and any(isinstance(t, ast.Name) and t.id == pvar for t in n.targets)]
    ck.ob("W6", sv.qualname, "the process directory variable is assigned once", sv.loc(), len(reassigned) == 1)


def run(ck):
    repo = ck.repo
    ck.explanation = EXPL
    ck.technique = "writer/reader table extraction from the syntax tree and set/bijection comparison"
    ck.undecided("1e-9 numeric fidelity of CSV / JSON / joblib (library behaviour); the collision rate of the 4-character directory suffix "
                 "(a collision raises FileExistsError because of exist_ok=False, it never overwrites)")
    pm_series = ["feed_temperature", "feed_compositions", "permeate_composition", "permeate_temperature", "permeate_pressure", "feed_mass",
                 "partial_fluxes", "permeances", "time", "feed_evaporation_heat", "permeate_condensation_heat"]
    note = ("one units column is written from the first permeance and applied to both: sound because every permeance of a curve / model "
            "is exposed in kg/(m2 h kPa) (C09-V3, C05-N2, C12-M2)")
    w, r = check_table_pair(ck, repo, "ProcessModel", "save", "load", "process_frame", pm_series, note)
    check_recombination(ck, repo, repo.find_function("ProcessModel.load"), r)
    dc_series = ["feed_compositions", "partial_fluxes", "permeances"]
    w2, r2 = check_table_pair(ck, repo, "DiffusionCurve", "save", "from_frame", "data", dc_series, note)
    check_recombination(ck, repo, repo.find_function("DiffusionCurve.from_frame"), r2)
    for fld in ("feed_temperature", "permeate_temperature", "permeate_pressure", "membrane_name", "mixture"):
        ck.ob("W2", "DiffusionCurve.from_frame", "scalar field %s is restored" % fld, repo.find_function("DiffusionCurve.from_frame").loc(),
              bool(r2.fields.get(fld)))
    # set loader checks the column list
    sl = repo.find_function("DiffusionCurveSet.load")
    ck.analysed_function(sl)
    ck.ob("W1", sl.qualname, "the set loader compares the file's columns with the declared column list", sl.loc(),
          "DC_SET_COLUMNS" in ast.unparse(sl.node) and "from_frame" in ast.unparse(sl.node))
    check_json_pair(ck, repo, "PervaporationFunction", {})
    check_json_pair(ck, repo, "Conditions", {"temperature_program": "documented: the temperature programme is not persisted in JSON"})
    PF = repo.find_class("PervaporationFunction")
    s1, l1 = ast.unparse(PF.methods["save"].node), ast.unparse(PF.methods["load"].node)
    ck.ob("W4", "PervaporationFunction.save", "binary save dumps the object itself and load returns what joblib loads", PF.methods["save"].loc(),
          "joblib.dump(self, path)" in s1 and "return joblib.load(path)" in l1)
    check_side_files(ck, repo)
    check_fresh_directory(ck, repo)
    ck.exhaustive = True
    ck.assume("pandas / json / joblib round-trip the values they are given")
