import sys
sys.path.insert(0, '/verif')
from sa.repo import Repo
from sa.evaluator import analyse
from sa.procmodel import make_config
from sa.symeval import key_str, val_key
import os
repo = Repo(os.environ.get("VERIF_REPO", "/repo"))
for name in sys.argv[1:]:
    f = repo.find_function(name)
    cfg = make_config({})
    try:
        outs = analyse(repo, f, cfg)
    except Exception as e:
        import traceback; traceback.print_exc(); continue
    print("==", name, len(outs))
    for o in outs[:6]:
        print(o.kind, [(key_str(c), d) for c, d in o.trace][:8], repr(o.value)[:400] if o.kind == 'return' else (o.exc.exc_type, str(o.exc)[:200]))
        for e in o.events:
            if e.kind in ("io", "to_csv", "json.dump", "joblib.dump", "opaque-call", "mkdir"):
                print("   ev", e.kind, str(e.data)[:300], e.where)
        for c in o.calls:
            if not c.inlined:
                print("   call", c.callee.qualname, {k: repr(v)[:80] for k, v in c.bound.items()})
