import sys; sys.path.insert(0,'/verif')
from sa.repo import Repo
from sa.tables import *
r=Repo()
for cls,(sv,ld,fv) in {"ProcessModel":("save","load","process_frame"),"DiffusionCurve":("save","from_frame","data")}.items():
    C=r.find_class(cls)
    w=WriterTable(C.methods[sv])
    print(cls,'WRITER',w.frame_var,w.order_constant)
    for k,v in w.columns.items(): print('  ',k,v[:3])
    print('  unparsed',w.unparsed)
    rd=ReaderTable(C.methods[ld],fv,ctor_names=("cls",cls))
    print(cls,'READER')
    for k,v in rd.fields.items(): print('  ',k,v)
