import sys, os
sys.path.insert(0, '/verif')
from sa.repo import Repo
from sa.evaluator import analyse, Evaluator
from sa.symeval import Config, key_str, val_key
from sa.values import *
from sa.iotables import *
from sa.procmodel import UNITS
repo = Repo(os.environ.get("VERIF_REPO", "/repo"))
INL = {"Composition.first", "Composition.second"}
def cfg(kinds=None):
    c = Config(inline=lambda f: f.qualname in INL, str_domains={"*.units": UNITS, "*.type": ("weight", "molar")})
    c.storage_kinds = kinds or {}
    return c
sv = repo.find_function(sys.argv[1]); ld = repo.find_function(sys.argv[2])
c = cfg()
outs = analyse(repo, sv, c)
kinds = {}
for o in outs:
    for e in o.events:
        if e.kind == "to_csv":
            fr = e.data[0]
            names = fr.order or list(fr.columns)
            for n in names:
                sl = writer_slot(fr.columns[n])
                from sa.exprs import ExprMixin
                dom = lambda p: ExprMixin.str_domain(type("X", (), {"cfg": c})(), p)
                kinds[("csv", n)] = slot_kind(dom, fr.columns[n])
                print(n, sl, kinds[("csv", n)], n in fr.scalar)
            break
    break
c2 = cfg(kinds)
import time; t=time.time(); outs = analyse(repo, ld, c2, setup=lambda ev: {"data": FrameV("read", "csv"), "is_safe": BoolV(True)}, max_paths=4096); print("t", time.time()-t)
print(len(outs))
for o in outs:
    print(o.kind, [(key_str(k)[:60], d) for k, d in o.trace])
    if o.kind == "return" and isinstance(o.value, ObjV):
        for f, v in o.value.fields.items():
            print("  ", f, reader_refs(v))
