#!/bin/bash
# confirm every round-2 seed: variants sequentially inside one worktree, worktrees in parallel
export SEED_ROOT=/tmp/seed6
cd /verif
confirm_one() { pid=$1; for v in K L; do timeout 3600 /venv/bin/python tools/confirm_seed.py $pid $v > /tmp/seed6/confirm_${pid}_$v.log 2>&1; done; }
export -f confirm_one
printf "%s\n" "$@" | xargs -P 5 -I{} bash -c 'confirm_one {}'
