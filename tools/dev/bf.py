import sys, os
sys.path.insert(0, '/verif')
from sa.repo import Repo
from sa.evaluator import analyse
from sa.procmodel import make_config
from sa.symeval import key_str, val_key
from sa.iotables import full_text
repo = Repo(os.environ.get("VERIF_REPO", "/repo"))
for name in sys.argv[1:]:
    f = repo.find_function(name)
    cfg = make_config({})
    cfg.lenient = True
    outs = analyse(repo, f, cfg, max_paths=4096)
    print("==", name, len(outs))
    seen = set()
    for o in outs:
        for c, d in o.trace:
            s = full_text(c)
            if s not in seen and ("acc" in s or "lt" in s[:6]):
                seen.add(s); print("  cond", s[:700])
    for o in outs[:3]:
        print(o.kind, repr(o.value)[:300] if o.kind == 'return' else o.exc)
