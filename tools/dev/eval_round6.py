import sys, os, glob, json
sys.path.insert(0, '/verif/tools')
import eval_seed
done_path = '/verif/tools/dev/round6_eval.json'
done = json.load(open(done_path)) if os.path.exists(done_path) else {}
for p in sorted(glob.glob('/tmp/seed6/C*/_seed/?.patch.diff')):
    pid = p.split('/')[3]; var = os.path.basename(p)[0]
    key = pid + '-' + var
    if key in done or not os.path.exists(p.replace('.patch.diff', '.meta.json')):
        continue
    out = eval_seed.run(p)
    if 'error' in out:
        print(key, 'ERROR', out['error'][:200]); continue
    fired = [x for x, rc, l in out['results'] if rc == 1]
    errs = [x for x, rc, l in out['results'] if rc not in (0, 1)]
    first = {x: (l[0][:200] if l else '') for x, rc, l in out['results'] if rc != 0}
    done[key] = {'fired': fired, 'errors': errs, 'first': first}
    print(key, 'target', 'HIT ' if pid in fired else 'MISS', 'fired', fired, 'errors', errs, flush=True)
    json.dump(done, open(done_path, 'w'), indent=0)
