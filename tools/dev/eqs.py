import sys, os, ast
sys.path.insert(0, '/verif')
from sa.repo import Repo
from sa.symeval import Config, Ctx, val_key, opaque_of
from sa.evaluator import Evaluator
from sa.interp import Frame
from sa.poly import key_equiv, key_str
from sa.tyinfer import Ty
from sa.values import *
from sa.poly import Rat
repo = Repo('/repo')
mod = repo.modules['pyvaporation.pervaporation.pervaporation']
def nf(src):
    ctx = Ctx(repo, Config(), [])
    ev = Evaluator(ctx)
    env = {n: Num(Rat.sym(n, ("nonneg", "pos"))) for n in ("x", "y", "z", "a", "b")}
    env["xs"] = ListV("opaque", path="xs", ty=Ty("float"))
    env["pair"] = TupV([Num(Rat.sym("p0")), Num(Rat.sym("p1"))])
    return val_key(ev.eval(ast.parse(src, mode="eval").body, Frame(None, mod, env)))
pairs = [("numpy.sqrt(x)", "x ** 0.5"), ("numpy.sqrt(x)", "numpy.power(x, 0.5)"), ("math.sqrt(x)", "numpy.sqrt(x)"),
         ("numpy.square(x)", "x * x"), ("numpy.log(x / y)", "numpy.log(x) - numpy.log(y)"), ("x / y / z", "x / (y * z)"),
         ("sum(pair)", "pair[0] + pair[1]"), ("math.fsum(pair)", "pair[0] + pair[1]"), ("numpy.sum(pair)", "sum(pair)"),
         ("numpy.mean(pair)", "(pair[0] + pair[1]) / 2"), ("numpy.exp(x) ** 2", "numpy.exp(2 * x)"), ("1 / numpy.exp(x)", "numpy.exp(-x)"),
         ("numpy.power(x, 2)", "x ** 2"), ("pow(x, 3)", "x * x * x"), ("numpy.log10(x)", "numpy.log(x) / numpy.log(10)"),
         ("numpy.reciprocal(x)", "1 / x"), ("numpy.divide(x, y)", "x / y"), ("numpy.dot(pair, pair)", "pair[0] * pair[0] + pair[1] * pair[1]"),
         ("numpy.prod(pair)", "pair[0] * pair[1]"), ("math.prod(pair)", "pair[0] * pair[1]"), ("numpy.abs(x - y)", "abs(y - x)"),
         ("max(x, y)", "numpy.maximum(y, x)"), ("sum(v for v in pair)", "sum([v for v in pair])"), ("numpy.exp(numpy.log(x))", "x"),
         ("x ** -1", "1 / x"), ("numpy.float64(x)", "x"), ("float(x) * 1.0", "x"), ("-(x - y)", "y - x"), ("x ** 1.5", "x * numpy.sqrt(x)"),
         ("numpy.cbrt(x)", "x ** (1/3)"), ("sum(xs) / len(xs)", "numpy.mean(xs)"), ("numpy.subtract(x, y)", "x - y"), ("operator.mul(x, y)", "x * y"),
         ("math.log(x, 10)", "numpy.log10(x)"), ("numpy.log2(x)", "numpy.log(x) / numpy.log(2)"), ("numpy.hypot(x, y)", "numpy.sqrt(x*x + y*y)")]
for a, b in pairs:
    try:
        ka, kb = nf(a), nf(b)
        print("EQ " if key_equiv(ka, kb) else "DIFF", a, "|", b, "" if key_equiv(ka, kb) else ("   %s  vs  %s" % (key_str(ka)[:60], key_str(kb)[:60])))
    except Exception as e:
        print("ERR ", a, "|", b, type(e).__name__, str(e)[:80])
