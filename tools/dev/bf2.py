import sys, os
sys.path.insert(0, '/verif')
from sa.repo import Repo
from sa.evaluator import analyse
from sa.procmodel import make_config
from sa.symeval import key_str, val_key
from sa.iotables import full_text
from sa.bestof import *
repo = Repo(os.environ.get("VERIF_REPO", "/repo"))
f = repo.find_function(sys.argv[1])
cfg = make_config({})
outs = analyse(repo, f, cfg, max_paths=4096)
print(len(outs))
for o in outs[:int(sys.argv[2]) if len(sys.argv) > 2 else 4]:
    print("----", o.kind, repr(o.value)[:120], [ (key_str(c)[:40], d) for c, d in o.trace if 'isnone' in key_str(c)])
    ss = SymbolicSelection(o)
    for op, L, name, tk in ss.decisions:
        print("  decision", op, "acc", name, "better" if tk else "not better", "L=", full_text(L)[:300])
        lr = ss.loop_of(name)
        if lr:
            print("   loop", lr.lo, lr.hi, "before", {k: repr(v)[:60] for k, v in lr.carried_before.items()}, "after", {k: repr(v)[:80] for k, v in lr.carried_after.items()})
    for lr in o.loops:
        if lr.kind == "for":
            print("  LOOP", lr.node.lineno, lr.lo, lr.hi, repr(getattr(lr, 'iter_val', None))[:100], list(getattr(lr, 'carried_before', {})))
