import sys,time; sys.path.insert(0,'/verif'); sys.setrecursionlimit(20000)
from sa.repo import Repo
from sa.activity import *
from sa import poly
from sa.poly import *
from sa.sigma import Sigma
r=Repo()
x = poly.T.sym("composition.p", ("nonneg", "comp_p")); X=Rat.atom(x)
for model,a21,label in ARMS:
    t=time.time()
    f,outs,o,g1,g2=gammas(r,model,a21)
    l1,l2=mk_log(g1),mk_log(g2)
    print(label,'eval',time.time()-t, l1.num.nterms(), [ (f.nterms(),e) for f,e in l1.df]); t=time.time()
    d1=diff(l1,x); print(' d1',time.time()-t,d1.num.nterms()); t=time.time()
    d2=diff(l2,x); print(' d2',time.time()-t,d2.num.nterms()); t=time.time()
    gd=X*d1+(1-X)*d2; print(' gd',time.time()-t,gd.num.nterms(), gd.is_zero()); t=time.time()
    sg=Sigma(r, fixed_paths=("mixture.nrtl_params.alpha12",) if a21=="none" else ())
    print(' sigma', sg(l1)==l2, time.time()-t)
