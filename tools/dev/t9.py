import sys; sys.path.insert(0,'/verif')
from sa.repo import Repo
from sa.effects import Effects, chain
r=Repo()
E=Effects(r)
for f in sorted(r.all_functions(), key=lambda f:(f.file,f.lineno)):
    ms=E.external_mutations(f, allow_self_top=f.name in ('__attrs_post_init__',))
    for mu,tags in ms:
        print(f.qualname, sorted(map(str,tags)), '|', chain(mu)[:200])
