import sys, os, shutil, tempfile
sys.path.insert(0, '/verif')
d = tempfile.mkdtemp(prefix="vt_")
try:
    shutil.copytree("/repo/pyvaporation", d + "/pyvaporation", ignore=shutil.ignore_patterns("__pycache__"))
    with open(d + "/pyvaporation/utils/utils.py", "a") as f:
        f.write('''

import typing
def _t_continue(xs: typing.List[float], flag: bool) -> typing.List[float]:
    out = []
    for x in xs:
        if flag:
            out.append(x)
            continue
        out.append(2 * x)
    return out


def _t_break() -> int:
    r = 0
    for k in (1, 2, 3):
        if k == 3:
            break
        r += k
    else:
        r = 100
    return r


def _t_walrus(x: float) -> float:
    if (y := x * 2) > 3:
        return y
    return 0.0


def _t_setcomp(xs: typing.List[float]) -> int:
    return len({x for x in xs})
''')
    os.environ["VERIF_REPO"] = d
    from sa.repo import Repo
    from sa.evaluator import analyse
    from sa.procmodel import make_config
    repo = Repo(d)
    for n in ("_t_continue", "_t_break", "_t_walrus", "_t_setcomp"):
        outs = analyse(repo, repo.find_function(n), make_config({}))
        for o in outs:
            print(n, o.kind, [str(c)[:50] + "=" + str(t) for c, t in o.trace], repr(o.value)[:200])
finally:
    shutil.rmtree(d, ignore_errors=True)
