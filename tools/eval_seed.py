#!/venv/bin/python
"""eval_seed.py <patch.diff> [pid ...] — apply a patch to a scratch copy of /repo's package and run the quick checks on it.
Prints one line per check: exit code and the first reported rule. The scratch copy is removed afterwards."""
import json, os, shutil, subprocess, sys, tempfile
from concurrent.futures import ThreadPoolExecutor
ALL = ["C%02d" % i for i in range(1, 21)]


def run(patch, pids=None, keep=False):
    pids = pids or ALL
    d = tempfile.mkdtemp(prefix="vseed_")
    try:
        shutil.copytree("/repo/pyvaporation", os.path.join(d, "pyvaporation"), ignore=shutil.ignore_patterns("__pycache__"))
        r = subprocess.run(["patch", "-p1", "-d", d, "-i", os.path.abspath(patch), "--no-backup-if-mismatch"], capture_output=True, text=True)
        if r.returncode != 0:
            return {"error": "patch does not apply: " + r.stdout[-400:] + r.stderr[-400:]}
        env = dict(os.environ, VERIF_REPO=d, VERIF_EVIDENCE_DIR=os.path.join(d, "evidence"))

        def one(pid):
            p = subprocess.run(["/venv/bin/python", "/verif/sa/check.py", pid], env=env, capture_output=True, text=True, timeout=900)
            lines = [l for l in p.stdout.splitlines() if ": rule " in l or l.startswith("ANALYSIS-ERROR")]
            return pid, p.returncode, lines[:3]
        with ThreadPoolExecutor(max_workers=10) as ex:
            res = list(ex.map(one, pids))
        return {"results": res}
    finally:
        if not keep:
            shutil.rmtree(d, ignore_errors=True)


if __name__ == "__main__":
    out = run(sys.argv[1], sys.argv[2:] or None)
    if "error" in out:
        print(out["error"]); sys.exit(3)
    fired = []
    for pid, rc, lines in out["results"]:
        if rc != 0:
            fired.append(pid)
            print("%s exit=%d %s" % (pid, rc, (lines[0][:260] if lines else "")))
    print("FIRED:", " ".join(fired) if fired else "none")
