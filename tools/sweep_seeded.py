#!/venv/bin/python
"""Re-evaluate every kept seeded change under /verif/seeded with the current checks (quick tier, scratch copies) and
refresh meta.json['checks'] + /verif/seeded/MATRIX.md."""
import json, os, sys
sys.path.insert(0, os.path.dirname(os.path.abspath(__file__)))
import eval_seed
root = "/verif/seeded"
rows = []
for d in sorted(os.listdir(root)):
    p = os.path.join(root, d, "patch.diff")
    if not os.path.exists(p):
        continue
    out = eval_seed.run(p)
    res = out.get("results", [])
    fired = [pid for pid, rc, l in res if rc == 1]
    errs = [pid for pid, rc, l in res if rc not in (0, 1)]
    first = {pid: (l[0] if l else "") for pid, rc, l in res if rc == 1}
    mp = os.path.join(root, d, "meta.json")
    m = json.load(open(mp))
    m["checks"] = {"fired": fired, "analysis_errors": errs,
                   "first_report_of_target": first.get(m["property"], "")[:300]}
    json.dump(m, open(mp, "w"), indent=1)
    rows.append((d, m["property"], m.get("summary", "")[:150].replace("|", "/").replace("\n", " "), m.get("needs_to_manifest", "")[:140].replace("|", "/").replace("\n", " "),
                 fired, errs))
    print(d, "target", m["property"], "fired", fired, "errors", errs, flush=True)
with open(os.path.join(root, "MATRIX.md"), "w") as f:
    f.write("| seeded change | breaks | what was changed | needs to manifest | target check fires | all checks that fire |\n|---|---|---|---|---|---|\n")
    for d, prop, summ, need, fired, errs in rows:
        f.write("| %s | %s | %s | %s | %s | %s%s |\n" % (d, prop, summ, need, "yes" if prop in fired else "NO", " ".join(fired),
                                                       (" (analysis error: %s)" % " ".join(errs)) if errs else ""))
missed = [r for r in rows if r[1] not in r[4]]
print("kept: %d, target check misses: %s" % (len(rows), [r[0] for r in missed]))
